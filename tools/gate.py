#!/usr/bin/env python3
"""Gate run by setup: no admits, no axioms declared, no kernel checks switched off, anywhere in
the development (comments are stripped first; Variable/Hypothesis/Context are allowed only
inside a Section)."""
import os
import re
import sys

ROOT = "/verif/coq"
DIRS = ["Base", "Model", "Proofs", "Props"]


def strip_comments(text):
    out, depth, i = [], 0, 0
    while i < len(text):
        if text.startswith("(*", i):
            depth += 1
            i += 2
        elif text.startswith("*)", i) and depth > 0:
            depth -= 1
            i += 2
        else:
            if depth == 0:
                out.append(text[i])
            elif text[i] == "\n":
                out.append("\n")
            i += 1
    return "".join(out)


ALWAYS = re.compile(r"\b(Admitted|admit|Axiom|Axioms|Parameter|Parameters|Conjecture|Conjectures)\b|Admit\s+Obligations|"
                    r"Unset\s+Guard\s+Checking|Unset\s+Positivity\s+Checking|Unset\s+Universe\s+Checking|bypass_check|"
                    r"type-in-type|impredicative-set|\bgive_up\b")
SECTION_ONLY = re.compile(r"^\s*(?:Local\s+|Global\s+)?(Variable|Variables|Hypothesis|Hypotheses)\b")


def main():
    bad = []
    for d in DIRS:
        for dirpath, _, files in os.walk(os.path.join(ROOT, d)):
            for f in sorted(files):
                if not f.endswith(".v"):
                    continue
                path = os.path.join(dirpath, f)
                text = strip_comments(open(path).read())
                depth = 0
                for n, line in enumerate(text.splitlines(), 1):
                    if re.match(r"^\s*Section\s+\w+\s*\.", line):
                        depth += 1
                    elif re.match(r"^\s*End\s+\w+\s*\.", line) and depth > 0:
                        depth -= 1
                    m = ALWAYS.search(line)
                    if m:
                        bad.append("%s:%d: %s" % (path, n, m.group(0)))
                    m = SECTION_ONLY.match(line)
                    if m and depth == 0:
                        bad.append("%s:%d: %s outside a Section" % (path, n, m.group(1)))
    if bad:
        print("setup gate: forbidden tokens found:")
        print("\n".join(bad))
        sys.exit(1)
    print("setup gate: clean")


if __name__ == "__main__":
    main()
