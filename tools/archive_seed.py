#!/usr/bin/env python3
"""usage: archive_seed.py <wave> <Cxx> <srcdir> <first-result: caught|missed> [strengthening text]
Re-confirms a seeded change with tools/eval_seed.sh (scratch worktree of /repo HEAD, demo on the original and
on the changed tree, full pytest on the changed tree, the property's quick check against the changed tree) and
archives it as /verif/seeded/<Cxx>_<wave>/ (patch.diff, demo.py, meta.json)."""
import json
import os
import re
import shutil
import subprocess
import sys

wave, pid, src, first = sys.argv[1], sys.argv[2], sys.argv[3], sys.argv[4]
note = sys.argv[5] if len(sys.argv) > 5 else ""
out = subprocess.run(["sh", "/verif/tools/eval_seed.sh", pid, src], capture_output=True, text=True).stdout
line = [ln for ln in out.splitlines() if ln.startswith(pid + " ")][0]
print(line)
m = dict(re.findall(r"(\w+)=(\d+)", line))
ok = m.get("demo_orig") == "0" and m.get("tests_changed") == "0" and m.get("demo_changed") != "0"
sigs = []
for rp in re.findall(r"replay=(\S+)", out):
    try:
        body = json.load(open(rp))
        sig = body.get("signature") or body.get("obligation") or "?"
        if sig not in sigs:
            sigs.append(sig)
    except Exception:
        pass
check_txt = open("/verif/_work/seedeval/%s/check.txt" % pid).read()
for rp in re.findall(r"replay=(\S+)", check_txt):
    try:
        body = json.load(open(rp))
        sig = body.get("signature") or body.get("obligation") or "?"
        if sig not in sigs:
            sigs.append(sig)
    except Exception:
        pass
meta_in = json.load(open(os.path.join(src, "meta.json")))
head = subprocess.run(["git", "-C", "/repo", "rev-parse", "--short", os.environ.get("SEED_BASE", "HEAD")], capture_output=True, text=True).stdout.strip()
dst = "/verif/seeded/%s_%s" % (pid, wave)
os.makedirs(dst, exist_ok=True)
for f in ("patch.diff", "demo.py"):
    shutil.copy(os.path.join(src, f), os.path.join(dst, f))
meta = {
    "property": pid,
    "wave": int(wave),
    "breaks": meta_in.get("summary") or meta_in.get("breaks"),
    "needs": meta_in.get("needs"),
    "files": meta_in.get("files"),
    "origin": "fresh sub-agent given only the property text (+ its anchor list and one-line summaries of the earlier "
              "waves' changes to avoid) and a scratch worktree; asked for a change that needs something specific to manifest",
    "confirmed": {
        "base": "/repo HEAD %s (all fix: commits applied)" % head,
        "ran": "tools/eval_seed.sh %s %s : scratch worktree of /repo HEAD; demo.py on the original tree; git apply patch.diff; "
               "full pytest on the changed tree; demo.py on the changed tree; VERIF_REPO_SRC=<worktree>/src ./check %s (quick tier)" % (pid, src, pid),
        "result": line,
        "valid_seed": ok,
    },
    "first_result": first,
    "detected_by": ("./check %s (quick)" % pid) if m.get("check_exit") == "1" else "NOT DETECTED",
    "signatures": sigs,
    "strengthening": note,
}
json.dump(meta, open(os.path.join(dst, "meta.json"), "w"), indent=1)
print("archived", dst, "signatures", sigs)
