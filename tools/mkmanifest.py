#!/usr/bin/env python3
"""Regenerate MANIFEST.json from the table below (kept in one place so it stays valid)."""
import json
import os

BUILT = {
    "C01": dict(
        text="Machine-checked theorems (Coq 8.16, no axioms): (1) the merged-grid counter — cumulative+diff and per-bin+tail dispatch both give the (r_{k-1}, r_k] sums and the nearest-edge slice sum over grid indices a..b equals the pair sum over (r_a, r_b] (limits_sum_exact, nearest_exact, tree_count_exact); (2) pruning is sound in every space with a symmetric distance obeying the triangle inequality (prune_sound_le/_lt; the strict test is refuted at equality); (3) the pruning angle: the maximum over bin centres is always sufficient, the angle at max(zmin, limit) is refuted below the limit; (4) every linked patch pair is visited exactly once, unordered pairs once for an autocorrelation; (5) composition: every cell written by count_pairs equals the specification (count_cell_exact). Tie on every run: L1 the real AngularTree.count against the model and the brute-force pair sum; L3 the real autocorrelate/crosscorrelate (all count kinds, 2-5 patches, 1-3 bins, every unit, poles / RA wrap, low-z, high-z, dense-compact vs sparse-wide, separation weighting) on catalogs created by Catalog.from_dataframe against the model (linkage + iteration + cell writes) AND against the brute-force specification, plus stored weight sums and patch links — all evaluated inside Coq on exact integer squared chords of the implementation's own unit vectors.",
        note="Trusted: Coq kernel+vm_compute; python harness (integer scaling of unit vectors, near-tie filter at 2^-40, failure classification); scipy KDTree exercised (L1) not modelled; angles per scale/bin, merged grid and chord radii taken from the implementation as tables (their correctness is C15/C14); the triangle inequality on the sphere is C14_sphere_triangle. Float rounding at interval ends excluded (counted as near_tie_skipped).",
        technique="Coq proof (telescoping over the edge list, metric-space pruning argument, NoDup of the pair iteration) + layered differential correspondence and brute-force specification evaluated in Coq",
        ref="DESIGN.md §5 C01"),
    "C07": dict(
        text="Machine-checked theorems (Coq 8.16, no axioms) over an executable model of the per-patch tree cache (`binning` file codec, `trees.pkl` tag, BinnedTrees.build / binning_equal, the builds done by auto/crosscorrelate, reopen): the invariant 'binning file = Some b -> trees file = built_for b' is preserved by every operation, hence for EVERY finite history (any edges, bin counts, closed side, unbinned, forced or unforced, raising requests, reopenings) the unforced build of a measurement leaves exactly the trees of a fresh cache (history_independent, measurement_history_independent); binning_equal (edges AND closed) is sound; decisions that forget `closed` or compare only the number of edges are refuted by witness. Tie on every run: corpus plus random histories (<= 8 ops) on catalogs with redshifts on bin edges; after every op each patch's decoded `binning` file and unpickled trees.pkl are compared with the model inside Coq; the final CorrFunc list is compared with == and bitwise against freshly created caches.",
        note="Trusted: Coq kernel + vm_compute; python harness (generators, float->Q, observation via BinnedTrees(patch).binning and pickle.load); scipy KDTree counting exercised, not modelled. That pair counts are a function of data, config and trees.pkl content is checked end-to-end per history, not proved.",
        technique="Coq proof (state invariant + induction over operation histories; refutation witnesses for broken decisions) + differential correspondence of cache state evaluated in Coq + history-vs-fresh comparison",
        ref="DESIGN.md §5 C07"),
    "C10": dict(
        text="Machine-checked theorems (Coq 8.16, no axioms) over executable models of np.digitize (both `right` values), build_trees (keep 0<i<=nbins, dummy trees), the digitize-based histogram and the measurement's per-bin sum_weights: for ALL strictly increasing edge arrays, all redshifts incl. values on any inner/outer edge and outside, both closed sides, weighted/unweighted, digitize returns b+1 iff member b (0 / nbins+1 outside); trees, histogram and sum_weights equal the one `member` spec per bin and per patch, bins/patches without objects give zeros; the pinned np.histogram-based algorithm is proved correct for closed=left and refuted for closed=right, the pinned build_trees is proved to raise exactly when no object of the patch is inside the binning (both repaired in /repo by fix: commits). Tie: every run creates real catalogs, builds trees, and compares BinnedTrees per-bin num_records/sum_weights, HistData.from_catalog(...).data and CorrFunc.dd.sum_weights with the spec, the model and each other inside Coq, on redshifts from edges, midpoints, below, above; thorough tier exhaustive for <=3 objects on the 2*nbins+3 critical values, nbins <= 2.",
        note="Trusted: Coq kernel + vm_compute; python harness (generator, float->Q, classification by signature); numpy digitize/bincount/sum and scipy KDTree exercised, modelled by their documented semantics, not verified. Dyadic redshifts/weights so all float sums are exact.",
        technique="Coq proof (induction over the edge list; filter/extensionality over object lists; Q sums with ring) + differential correspondence of three consumers evaluated in Coq",
        ref="DESIGN.md §5 C10"),
    "C16": dict(
        text="Theorems: closed (no axioms) — random_sizes_sum / only the last chunk truncated / pass_total; reseed_history_free (for EVERY earlier history of probes, partial passes, draws, reseeds and every PRNG stream the observed pass equals that of a fresh generator); joint_draw (weights and redshifts come from the same source row); refutations of a reader that does not reseed and of independent attribute draws. Under the four standard real-number axioms: window_ra / window_dec (points inside the window), equal_area (cos(asin y) * asin'(y) = 1), equal_area_fraction, flat_dec_refuted. Tie: the real BoxRandoms through a logging subclass and the real Catalog.from_random after arbitrary earlier use; event trace and call sizes vs the model, record count, exact rational window test, joint rows, bit-for-bit equality with a fresh-generator catalog, different seeds differ — evaluated in Coq.",
        note="Trusted: Coq kernel+vm_compute; axioms (real-number part only): ClassicalDedekindReals.sig_forall_dec, sig_not_dec, FunctionalExtensionality.functional_extensionality_dep, Classical_Prop.classic; numpy PRNG trusted as an abstract stream; area uniformity of the implementation is a chi-square statistic (alarm only at p < 1e-12 on 20000-point samples), not a theorem; HealPixRandoms unmodelled (healpy absent).",
        technique="Coq proof (state machine over an abstract PRNG stream; real analysis for the equal-area map) + trace/record correspondence evaluated in Coq",
        ref="DESIGN.md §5 C16"),
    "C02": dict(
        text="Machine-checked theorems (Coq 8.16, no axioms) over an executable model of the chunk cursor, Parquet row-group cache, array_split, groupby, PatchWriter/CatalogWriter and the reader->workers->writer pipeline: for every length, chunk size, worker count, buffer size and EVERY delivery order each patch stores exactly the records assigned to it (pipeline_any_schedule). The model is tied to /repo on every run by running the real Catalog.from_dataframe/from_file (FITS, HDF5, Parquet; sequential, controlled pool with harness-chosen delivery order, real multiprocessing) and comparing per-patch row sets with the model inside Coq (vm_compute).",
        note="Trusted: Coq kernel+vm_compute; python harness (generators, bit-pattern mapping of records, float->Q); simulated Pool/Process/Queue; numpy/scipy/astropy/h5py/pyarrow exercised not modelled. Nearest-centre re-checked with exact rationals from the implementation's unit vectors; deg->rad checked to 2^-51 relative against a 30-digit rational pi.",
        technique="Coq proof (induction over chunk lists / Permutation of messages) + differential correspondence evaluated in Coq",
        ref="DESIGN.md §5 C02"),
    "C18": dict(
        text="Theorems (no axioms): the request list of the chunk cursor is a consecutive cover of [0,n) by non-empty slices of at most cs rows, ceil(n/cs) of them, and the sparse probe is gathered chunk by chunk selecting exactly the requested rows. Tie: logging proxies around the data frame / HDF5 datasets record what the real readers request during Catalog.from_dataframe/from_file (incl. the extra pass for generated centres) and the log is compared with the model's slices inside Coq.",
        note="Trusted: Coq kernel+vm_compute; python harness and logging proxies; FITS column access is astropy behaviour and is not logged; Parquet is covered at row-group granularity by the C02 model (parquet_chunks_eq).",
        technique="Coq proof (induction on fuel/cursor) + request-log correspondence evaluated in Coq",
        ref="DESIGN.md §5 C18"),
}

ALL = ["C%02d" % i for i in range(1, 19)]
PENDING_REASON = "check not built yet in this revision of /verif (build order: DESIGN.md §10); the technique applies and the property will be claimed once its model, theorems and correspondence run"


def main():
    here = os.path.dirname(os.path.dirname(os.path.abspath(__file__)))
    checks = []
    for pid in ALL:
        if pid not in BUILT:
            continue
        b = BUILT[pid]
        checks.append({
            "property_id": pid,
            "quick_cmd": "./check %s --tier quick" % pid,
            "thorough_cmd": "./check %s --tier thorough" % pid,
            "evidence_file": "/verif/evidence/%s.json" % pid,
            "replay_cmd_template": "./check %s --replay {path}" % pid,
            "engine": "coq-correspondence",
            "level_claimed": {"category": "proof", "text": b["text"], "design_ref": b["ref"]},
            "level_note": b["note"],
            "technique": b["technique"],
        })
    man = {
        "version": 1,
        "setup_cmd": "cd /verif && sh tools/setup.sh",
        "hooks": {
            "guard": "YAW_VERIF",
            "enable": "no source hooks are needed: schedules, MPI and crashes are steered from the harness (replaced multiprocessing / mpi4py modules, strace); checks import /repo/src directly (PYTHONPATH=/repo/src)",
            "baseline_off_cmd": "cd /repo && /venv/bin/python -m pytest -ra -q -p no:cacheprovider --timeout=900 --continue-on-collection-errors",
            "source_commits": [],
            "add_only": True,
        },
        "engines": [{
            "name": "coq-correspondence",
            "path": "/verif/harness/check.py",
            "serves_properties": sorted(BUILT),
            "kind_free_text": "Coq 8.16.1 development under /verif/coq (Model/, Proofs/, Props/) + python correspondence harness that runs /repo's working tree and evaluates the model on the same inputs inside Coq (vm_compute)",
        }],
        "checks": checks,
        "not_applicable": [{"property_id": p, "reason": PENDING_REASON} for p in ALL if p not in BUILT],
        "notes": "See DESIGN.md. KNOWN_FINDINGS.jsonl lists genuine defects recorded rather than repaired and the repaired ones (fixed:).",
    }
    with open(os.path.join(here, "MANIFEST.json"), "w") as f:
        json.dump(man, f, indent=1)
    print("wrote MANIFEST.json with %d checks" % len(checks))


if __name__ == "__main__":
    main()
