#!/usr/bin/env python3
"""Regenerate MANIFEST.json from the table below (kept in one place so it stays valid)."""
import json
import os

BUILT = {
    "C02": dict(
        text="Machine-checked theorems (Coq 8.16, no axioms) over an executable model of the chunk cursor, Parquet row-group cache, array_split, groupby, PatchWriter/CatalogWriter and the reader->workers->writer pipeline: for every length, chunk size, worker count, buffer size and EVERY delivery order each patch stores exactly the records assigned to it (pipeline_any_schedule). The model is tied to /repo on every run by running the real Catalog.from_dataframe/from_file (FITS, HDF5, Parquet; sequential, controlled pool with harness-chosen delivery order, real multiprocessing) and comparing per-patch row sets with the model inside Coq (vm_compute).",
        note="Trusted: Coq kernel+vm_compute; python harness (generators, bit-pattern mapping of records, float->Q); simulated Pool/Process/Queue; numpy/scipy/astropy/h5py/pyarrow exercised not modelled. Nearest-centre re-checked with exact rationals from the implementation's unit vectors; deg->rad checked to 2^-51 relative against a 30-digit rational pi.",
        technique="Coq proof (induction over chunk lists / Permutation of messages) + differential correspondence evaluated in Coq",
        ref="DESIGN.md §5 C02"),
    "C18": dict(
        text="Theorems (no axioms): the request list of the chunk cursor is a consecutive cover of [0,n) by non-empty slices of at most cs rows, ceil(n/cs) of them, and the sparse probe is gathered chunk by chunk selecting exactly the requested rows. Tie: logging proxies around the data frame / HDF5 datasets record what the real readers request during Catalog.from_dataframe/from_file (incl. the extra pass for generated centres) and the log is compared with the model's slices inside Coq.",
        note="Trusted: Coq kernel+vm_compute; python harness and logging proxies; FITS column access is astropy behaviour and is not logged; Parquet is covered at row-group granularity by the C02 model (parquet_chunks_eq).",
        technique="Coq proof (induction on fuel/cursor) + request-log correspondence evaluated in Coq",
        ref="DESIGN.md §5 C18"),
}

ALL = ["C%02d" % i for i in range(1, 19)]
PENDING_REASON = "check not built yet in this revision of /verif (build order: DESIGN.md §10); the technique applies and the property will be claimed once its model, theorems and correspondence run"


def main():
    here = os.path.dirname(os.path.dirname(os.path.abspath(__file__)))
    checks = []
    for pid in ALL:
        if pid not in BUILT:
            continue
        b = BUILT[pid]
        checks.append({
            "property_id": pid,
            "quick_cmd": "./check %s --tier quick" % pid,
            "thorough_cmd": "./check %s --tier thorough" % pid,
            "evidence_file": "/verif/evidence/%s.json" % pid,
            "replay_cmd_template": "./check %s --replay {path}" % pid,
            "engine": "coq-correspondence",
            "level_claimed": {"category": "proof", "text": b["text"], "design_ref": b["ref"]},
            "level_note": b["note"],
            "technique": b["technique"],
        })
    man = {
        "version": 1,
        "setup_cmd": "cd /verif && sh tools/setup.sh",
        "hooks": {
            "guard": "YAW_VERIF",
            "enable": "no source hooks are needed: schedules, MPI and crashes are steered from the harness (replaced multiprocessing / mpi4py modules, strace); checks import /repo/src directly (PYTHONPATH=/repo/src)",
            "baseline_off_cmd": "cd /repo && /venv/bin/python -m pytest -ra -q -p no:cacheprovider --timeout=900 --continue-on-collection-errors",
            "source_commits": [],
            "add_only": True,
        },
        "engines": [{
            "name": "coq-correspondence",
            "path": "/verif/harness/check.py",
            "serves_properties": sorted(BUILT),
            "kind_free_text": "Coq 8.16.1 development under /verif/coq (Model/, Proofs/, Props/) + python correspondence harness that runs /repo's working tree and evaluates the model on the same inputs inside Coq (vm_compute)",
        }],
        "checks": checks,
        "not_applicable": [{"property_id": p, "reason": PENDING_REASON} for p in ALL if p not in BUILT],
        "notes": "See DESIGN.md. KNOWN_FINDINGS.jsonl lists genuine defects recorded rather than repaired and the repaired ones (fixed:).",
    }
    with open(os.path.join(here, "MANIFEST.json"), "w") as f:
        json.dump(man, f, indent=1)
    print("wrote MANIFEST.json with %d checks" % len(checks))


if __name__ == "__main__":
    main()
