#!/usr/bin/env python3
"""Regenerate MANIFEST.json from the table below (kept in one place so it stays valid)."""
import json
import os

BUILT = {
    "C05": dict(
        text="Theorems (no axioms): iter_unordered delivers map f tasks in an arbitrary permutation; a fold of keyed writes with distinct keys (keyed_fold_perm), or with repeated keys carrying a value that is a function of the key (keyed_fold_perm_fun), is independent of that permutation; hence count_pairs (cells keyed by the patch pair, halved auto diagonal, weight-sum columns), load_patches (dictionary keyed by patch id) and the index-carrying histogram rows are schedule-free; rows filled in arrival order (pinned commit) are refuted (repaired in /repo). Tie: every parallel entry point (Catalog(cache), build_trees, autocorrelate, crosscorrelate, HistData.from_catalog) on the controllable pool under all completion orders for <= 4 tasks and seeded permutations beyond, several worker counts, plus the real pool with 2/4/16 workers: public results bit-identical to the sequential run; the results in arrival order and the final arrays are replayed through the keyed-fold model inside Coq.",
        note="The OS scheduler is not exhibited: any order it can produce is a permutation, which the theorems cover. The controllable pool computes the results sequentially and only permutes their delivery; worker-side state (each task opens its own files) is exercised by the real-pool runs.",
        technique="Coq proof (function-update stores, Permutation, NoDup) + schedule enumeration on a controllable pool with arrival-log replay evaluated in Coq",
        ref="DESIGN.md §5 C05"),
    "C13": dict(
        text="Theorems (no axioms) about the specification of the measurement over labelled weighted points and ANY distance function: counts are invariant under permutation of the input rows (count_row_perm), under every isometry (count_isometry), under patch relabelling, jackknife samples permute with the relabelling (loo_patch_relabel), counts are additive over a split of a catalog (count_additive), and the normalised term is unchanged when all weights of one catalog are multiplied by k != 0 (norm_weight_scale). Tie: metamorphic pairs through the real pipeline (Catalog.from_dataframe -> crosscorrelate/autocorrelate -> sample / RedshiftData.from_corrfuncs): random SO(3) rotations, rotation onto a pole and across RA=0, row shuffles, centre permutations, weight factors 2, 1/4, 3 and random 2-splits; raw counts, weight sums, amplitudes, n(z), samples and covariance compared inside Coq (exact, or 2^-48 relative after a non-dyadic weight factor).",
        note="That the implementation's counts equal the specification is C01; here two runs of the implementation are compared with each other. Rotations move unit vectors by rounding errors: scenarios with a pair within 2^-40 of a scale limit before or after the rotation are skipped and counted.",
        technique="Coq proof (Permutation / map / filter lemmas, ring and field over Q) + metamorphic correspondence evaluated in Coq",
        ref="DESIGN.md §5 C13"),
    "C03": dict(
        text="Machine-checked theorems (Coq 8.16, no axioms) over executable Q models of sample_patch_sum, PatchedSumWeights.get_array, NormalisedCounts.sample_patch_sum, CorrFunc.sample, cov_from_samples and a literal index-list model of resample_jackknife: for every matrix and patch count total-row-col+diag = recount without patch k; weight products (sum_{i!=k}u)(sum_{j!=k}v) for cross and 1/2(sum_{i!=k}w)^2 for auto (upper triangle, halved diagonal); estimator samples = documented estimator of the data with patch k deleted for every dr/rd/rr combination; covariance = (N-1)/N sum (x_k-mean)(x_k-mean)^T, symmetric, PSD, error the non-negative diagonal root; the pinned resample_jackknife provably leaves out patch N-1-k in row k (refuted; repaired in /repo) and the repaired index array is proved correct for all N. Tied on every run by symbolic traces of the real functions re-proved by ring (N in {2,3,4}, bins in {1,2}, auto/cross) and by correspondence on real containers and catalogs evaluated in Coq.",
        note="Trusted: Coq kernel + vm_compute; python harness incl. the symbolic-trace translator (assumes traced code branches on structure only); numpy einsum/tile/triu/cov/sqrt and pandas exercised, not modelled. Sums exact on dyadic inputs; quotients within 2^-48; covariance within 2^-44 of its natural scale. max_workers=1 (row order under parallel completion is C05). Zero denominators are not compared.",
        technique="Coq proof (induction on lists, ring/lra over Q, index arithmetic) + symbolic-trace translation re-proved by ring + differential correspondence evaluated in Coq",
        ref="DESIGN.md §5 C03"),
    "C04": dict(
        text="Theorems (no axioms): landy_szalay as coded = (DD-DR-RD+RR)/RR; davis_peebles = DD/mixed-1; CorrFunc.sample applies LS iff rr exists with rd defaulting to dr, else DP with rd else dr; each term = total/(W1*W2), or total/(W^2/2) for auto; n(z)^2*dz^2*w_ss*w_pp = w_sp^2 with the sign of w_sp, which determines n(z) uniquely, absent autocorrelations count as 1; HistData.normalised and RedshiftData.normalised (nansum semantics) integrate to 1 when the norm is non-zero. Tied by symbolic traces of landy_szalay, davis_peebles, NormalisedCounts.sample_patch_sum, RedshiftData.from_corrdata (radicand), HistData.normalised, RedshiftData.normalised re-proved by ring on every run, and by correspondence on all 7 subsets of {dr,rd,rr} x auto/cross (undefined combinations compared only as 'raises').",
        note="Trusted as for C03. sqrt is checked in squared form within 2^-47 on exact rationals of the implementation's own CorrData values; normalised(target=...) (scipy fit) is not covered; zero denominators, non-positive radicands and infinite inputs are not compared; the statement with sqrt over R was not built.",
        technique="Coq proof (ring/field over Q) + symbolic-trace translation re-proved by ring + differential correspondence evaluated in Coq",
        ref="DESIGN.md §5 C04"),
    "C06": dict(
        text="Explicit transition systems in Gallina (no axioms) for the MPI root-dispatch protocol (_mpi_root_task / _mpi_worker_task with per-worker FIFO channels, eager and synchronous sends, root fallback) and the reader/workers/writer pipeline: executable step = relation (sound and complete), termination by a measure from ANY state, progress (no deadlock) in both send modes, dispatch_exactly_once_total (for every allowed-rank set incl. none, every worker count, every schedule: each task executed once and yielded once), write_ssend_no_loss (synchronous dictionary sends: the writer stores exactly the input for every number of sending ranks); the pinned algorithms are refuted by witnesses (no task executed for max_workers=1; eager sentinel overtakes queued dictionaries). Tie: the unchanged source is run on a simulated MPI (fake mpi4py, ranks = threads, seeded wildcard matching and eager/rendezvous completion, deadlock watchdog); every communication log of iter_unordered is replayed through the Coq step function; root results of Catalog.from_dataframe, Catalog(), build_trees, auto/crosscorrelate, HistData.from_catalog and file I/O are compared with the single-process run; every rank must return.",
        note="Partial by nature: no real MPI library is present. The simulator exhibits the MPI-standard matching semantics (per-sender FIFO, no order between senders, eager vs rendezvous, synchronising collectives) but not a real transport, eager-size limits, non-synchronising collectives or several hosts. The write-pipeline model is tied by outcomes and per-patch conservation, not by event replay. Collective call sequences are checked at run time only (mismatch = reported deadlock).",
        technique="Coq proof (invariants + measure over transition systems, Permutation via AAC_tactics) + event-log replay of the real code under a simulated MPI inside Coq + root-result equality",
        ref="DESIGN.md §5 C06"),
    "C08": dict(
        text="Theorems (no axioms) over an operation-list model of the cache-writing workloads (create, overwrite with every valid rmtree order, metadata, tree build/rebuild, HDF5 result file, .dat/.smp/.cov triple): for EVERY prefix of the operation list, every prior state and every later request, recovery yields an error, the old state or the new state (crash_safe_create/_overwrite/_metadata/_fix/_single/_triple_fix); the pinned orders are refuted by witnesses (stale binning marker over rewritten trees, 0-byte patch_ids.bin, mixed result triple; all three repaired in /repo). Tie: the strace trace of each real workload, abstracted to the model alphabet, must equal the model's op list (compared in Coq); every prefix of the real trace is materialised and handed to the real recovery code (Catalog(cache), build_trees + measurement vs fresh caches, CorrFunc.from_file, CorrData.from_files) and the outcome class compared in Coq; the full replay must reproduce the real final directory byte for byte; thorough adds real SIGKILL injection.",
        note="Granularity is the system call (the property's quantifier); reordering below it (page cache, unsynced directory entries) is outside the model. HDF5/pickle/YAML internals exercised, not modelled; trees.pkl abstracted by unpickling. Trusted: strace parser, prefix materialiser, long-lived recovery worker.",
        technique="Coq proof (all prefixes of operation lists, invariants) + syscall-trace conformance and per-crash-point recovery correspondence evaluated in Coq",
        ref="DESIGN.md §5 C08"),
    "C09": dict(
        text="Transition-system model (no axioms) of sequential and parallel catalog creation with a fault parameter (kind x chunk position x place), two instances: the pinned algorithm (refuted: hang, foreign data, rmtree of any directory, empty centre accepted, partial cache finalised) and the repaired one, for which no_hang (no reachable stuck state for any fault, chunk count, interleaving), no_foreign_data, seq_par_same_class, overwrite_only_catalog and failed_creation_not_openable are proved. Tie: real runs in fresh interpreters (sequential and real multiprocessing with 2-3 workers, wall-clock hang bound) for every fault kind at first/middle/last chunk; outcome class, directory before/after and Catalog(cache) afterwards compared in Coq with both instances; the working tree must follow the repaired instance.",
        note="Real OS scheduling is sampled, not enumerated; 'bounded time' is a 20 s timeout in the tie and a no-stuck-state theorem in the model. 'Not writable' is represented by a path below a regular file (harness runs as root). pandas/h5py/numpy exercised, not modelled.",
        technique="Coq proof (reachability invariant + termination measure; vm_compute refutation witnesses) + outcome-class correspondence over real subprocess runs evaluated in Coq",
        ref="DESIGN.md §5 C09"),
    "C11": dict(
        text="Theorems (no axioms): sparse pair-count codec round trip for every bins x N x N array (incl. all-zero); CorrFunc member codec for all 8 member combinations; fixed-width decimal format in integer arithmetic (|parsed - rounded| < 10^-k, k = max(0, w - ndigits - 1)); text-table codec for every nbins >= 1 (repaired reader; single-bin failure of the pinned reader refuted); configuration dictionary round trip = identity exactly when the edges are a fixed point of regeneration (endpoints exact), metadata round trip. Tie: real HDF5 / YAML / text files for every codec: x == from_file(to_file(x)) and equal downstream sample(); text files compared token by token with the model's predicted parsed values in Coq; Configuration edges bit-identical after the YAML round trip for linear / comoving / logspace / custom edges.",
        note="h5py / PyYAML / np.loadtxt tokenising / float formatting exercised, not modelled; the edge generator is an oracle (determinism checked per case). Catalog cache round trip is C02's.",
        technique="Coq proof (induction, nia over Z/Q) + real-file round-trip correspondence evaluated in Coq",
        ref="DESIGN.md §5 C11"),
    "C12": dict(
        text="Theorems (no axioms): metadata counts; every record within the stored radius (maximum distance) and the radius attained; repaired pairing of given centres with patches returns ids 0..N-1 with centre i the i-th given one (plain zip refuted: an empty centre shifts all later centres; repaired in /repo); the consistency guard accepts only equal id sets and centre offsets <= rtol*radius, hence refuses offsets beyond the radius for rtol <= 1. Tie: real catalogs in all three patch modes (centres in any order, from another catalog, named ids, generated centres, single-object patches): stored metadata vs model on the implementation's own distance table, centre order bit-exact, re-assignment of every record to the reported centres by exact rational chords, real PatchLinkage.from_catalogs on aligned / permuted / shifted / differing-id catalog pairs vs the guard model — evaluated in Coq.",
        note="Distances record->centre are the implementation's own values (accuracy: C14); treecorr k-means is an oracle; weights dyadic.",
        technique="Coq proof (max of a list, zip/seq lemmas) + correspondence evaluated in Coq",
        ref="DESIGN.md §5 C12"),
    "C14": dict(
        text="Machine-checked theorems over R: to3d is a unit vector; from3d(to3d) = id for ra in [0,2pi), |dec| < pi/2 (RA -> 0 at the poles); RA in [0,2pi), Dec in [-pi/2,pi/2] for every vector; chord and angle mutually inverse and strictly increasing; |u-v|^2 = 2-2u.v = (2 sin(theta/2))^2 and the code's separation equals the great-circle angle; triangle inequality of the great-circle angle (Gram determinant); the mean is the direction of the weighted vector sum, invariant under weight scaling; inverse-trig elimination lemmas. Tie on every run: the real to_3d, from_3d, distance, mean, AngularDistances.to_3d/from_3d on ~300 (quick) / ~3900 (thorough) samples (poles, RA wrap, separations 1e-12..pi-1e-9, near-degenerate means); one goal |model(x) - y| <= bound per sample over exact rational literals closed by the Interval tactic; RA range, inverse round trips and order preservation evaluated in Coq over Q.",
        note="Axioms under Props/C14.v: ClassicalDedekindReals.sig_forall_dec, sig_not_dec, FunctionalExtensionality.functional_extensionality_dep, Classical_Prop.classic; the generated Interval goals additionally rest on the PrimInt63/Uint63 primitive-integer axioms of the standard library (recorded per run). Float bounds are certified pointwise, not for all inputs (libm has no specification); bounds listed in harness/props/c14.py.",
        technique="Coq proof (real analysis over stdlib Reals) + pointwise certified interval enclosures (coq-interval) of the real-valued model against the implementation's float outputs + Q checks evaluated in Coq",
        ref="DESIGN.md §5 C14"),
    "C17": dict(
        text="Machine-checked theorems (no axioms) over an executable model of the five container classes: + adds entry-wise, commutative/associative up to Qeq, defined iff binning (edges and closed side), patch count (and optional members / sum_weights / sample count) agree; * k scales every count, totals and jackknife samples scale by k, DP/LS estimates and their samples are unchanged for k != 0, bools rejected; == reflexive and structural; .bins[I] / .patches[I] (int, negative int, slice, list) select the sub-arrays (patches: the sub-matrix I x I), commute with summation and with sampling, iteration yields the single-index selections in order, out-of-range and empty selections are rejected; refutations document the pinned code (all repaired in /repo). Tie: the real operators and indexers on random dyadic containers of all five classes; result or exception compared inside Coq with the code-path model and with the law side.",
        note="numpy semantics exercised, not modelled; sums/products exact, ratios within 2^-40; non-finite sampled ratios skipped and counted; numpy-integer index scalars are outside the documented index types and not judged.",
        technique="Coq proof (list induction, ring/field over Q, Forall2 equivalences) + differential correspondence evaluated in Coq with per-defect deterministic probes",
        ref="DESIGN.md §5 C17"),
    "C01": dict(
        text="Machine-checked theorems (Coq 8.16, no axioms): (1) the merged-grid counter — cumulative+diff and per-bin+tail dispatch both give the (r_{k-1}, r_k] sums and the nearest-edge slice sum over grid indices a..b equals the pair sum over (r_a, r_b] (limits_sum_exact, nearest_exact, tree_count_exact); (2) pruning is sound in every space with a symmetric distance obeying the triangle inequality (prune_sound_le/_lt; the strict test is refuted at equality); (3) the pruning angle: the maximum over bin centres is always sufficient, the angle at max(zmin, limit) is refuted below the limit; (4) every linked patch pair is visited exactly once, unordered pairs once for an autocorrelation; (5) composition: every cell written by count_pairs equals the specification (count_cell_exact). Tie on every run: L1 the real AngularTree.count against the model and the brute-force pair sum; L3 the real autocorrelate/crosscorrelate (all count kinds, 2-5 patches, 1-3 bins, every unit, poles / RA wrap, low-z, high-z, dense-compact vs sparse-wide, separation weighting) on catalogs created by Catalog.from_dataframe against the model (linkage + iteration + cell writes) AND against the brute-force specification, plus stored weight sums and patch links — all evaluated inside Coq on exact integer squared chords of the implementation's own unit vectors.",
        note="Trusted: Coq kernel+vm_compute; python harness (integer scaling of unit vectors, near-tie filter at 2^-40, failure classification); scipy KDTree exercised (L1) not modelled; angles per scale/bin, merged grid and chord radii taken from the implementation as tables (their correctness is C15/C14); the triangle inequality on the sphere is C14_sphere_triangle. Float rounding at interval ends excluded (counted as near_tie_skipped).",
        technique="Coq proof (telescoping over the edge list, metric-space pruning argument, NoDup of the pair iteration) + layered differential correspondence and brute-force specification evaluated in Coq",
        ref="DESIGN.md §5 C01"),
    "C07": dict(
        text="Machine-checked theorems (Coq 8.16, no axioms) over an executable model of the per-patch tree cache (`binning` file codec, `trees.pkl` tag, BinnedTrees.build / binning_equal, the builds done by auto/crosscorrelate, reopen): the invariant 'binning file = Some b -> trees file = built_for b' is preserved by every operation, hence for EVERY finite history (any edges, bin counts, closed side, unbinned, forced or unforced, raising requests, reopenings) the unforced build of a measurement leaves exactly the trees of a fresh cache (history_independent, measurement_history_independent); binning_equal (edges AND closed) is sound; decisions that forget `closed` or compare only the number of edges are refuted by witness. Tie on every run: corpus plus random histories (<= 8 ops) on catalogs with redshifts on bin edges; after every op each patch's decoded `binning` file and unpickled trees.pkl are compared with the model inside Coq; the final CorrFunc list is compared with == and bitwise against freshly created caches.",
        note="Trusted: Coq kernel + vm_compute; python harness (generators, float->Q, observation via BinnedTrees(patch).binning and pickle.load); scipy KDTree counting exercised, not modelled. That pair counts are a function of data, config and trees.pkl content is checked end-to-end per history, not proved.",
        technique="Coq proof (state invariant + induction over operation histories; refutation witnesses for broken decisions) + differential correspondence of cache state evaluated in Coq + history-vs-fresh comparison",
        ref="DESIGN.md §5 C07"),
    "C10": dict(
        text="Machine-checked theorems (Coq 8.16, no axioms) over executable models of np.digitize (both `right` values), build_trees (keep 0<i<=nbins, dummy trees), the digitize-based histogram and the measurement's per-bin sum_weights: for ALL strictly increasing edge arrays, all redshifts incl. values on any inner/outer edge and outside, both closed sides, weighted/unweighted, digitize returns b+1 iff member b (0 / nbins+1 outside); trees, histogram and sum_weights equal the one `member` spec per bin and per patch, bins/patches without objects give zeros; the pinned np.histogram-based algorithm is proved correct for closed=left and refuted for closed=right, the pinned build_trees is proved to raise exactly when no object of the patch is inside the binning (both repaired in /repo by fix: commits). Tie: every run creates real catalogs, builds trees, and compares BinnedTrees per-bin num_records/sum_weights, HistData.from_catalog(...).data and CorrFunc.dd.sum_weights with the spec, the model and each other inside Coq, on redshifts from edges, midpoints, below, above; thorough tier exhaustive for <=3 objects on the 2*nbins+3 critical values, nbins <= 2.",
        note="Trusted: Coq kernel + vm_compute; python harness (generator, float->Q, classification by signature); numpy digitize/bincount/sum and scipy KDTree exercised, modelled by their documented semantics, not verified. Dyadic redshifts/weights so all float sums are exact.",
        technique="Coq proof (induction over the edge list; filter/extensionality over object lists; Q sums with ring) + differential correspondence of three consumers evaluated in Coq",
        ref="DESIGN.md §5 C10"),
    "C16": dict(
        text="Theorems: closed (no axioms) — random_sizes_sum / only the last chunk truncated / pass_total; reseed_history_free (for EVERY earlier history of probes, partial passes, draws, reseeds and every PRNG stream the observed pass equals that of a fresh generator); joint_draw (weights and redshifts come from the same source row); refutations of a reader that does not reseed and of independent attribute draws. Under the four standard real-number axioms: window_ra / window_dec (points inside the window), equal_area (cos(asin y) * asin'(y) = 1), equal_area_fraction, flat_dec_refuted. Tie: the real BoxRandoms through a logging subclass and the real Catalog.from_random after arbitrary earlier use; event trace and call sizes vs the model, record count, exact rational window test, joint rows, bit-for-bit equality with a fresh-generator catalog, different seeds differ — evaluated in Coq.",
        note="Trusted: Coq kernel+vm_compute; axioms (real-number part only): ClassicalDedekindReals.sig_forall_dec, sig_not_dec, FunctionalExtensionality.functional_extensionality_dep, Classical_Prop.classic; numpy PRNG trusted as an abstract stream; area uniformity of the implementation is a chi-square statistic (alarm only at p < 1e-12 on 20000-point samples), not a theorem; HealPixRandoms unmodelled (healpy absent).",
        technique="Coq proof (state machine over an abstract PRNG stream; real analysis for the equal-area map) + trace/record correspondence evaluated in Coq",
        ref="DESIGN.md §5 C16"),
    "C02": dict(
        text="Machine-checked theorems (Coq 8.16, no axioms) over an executable model of the chunk cursor, Parquet row-group cache, array_split, groupby, PatchWriter/CatalogWriter and the reader->workers->writer pipeline: for every length, chunk size, worker count, buffer size and EVERY delivery order each patch stores exactly the records assigned to it (pipeline_any_schedule). The model is tied to /repo on every run by running the real Catalog.from_dataframe/from_file (FITS, HDF5, Parquet; sequential, controlled pool with harness-chosen delivery order, real multiprocessing) and comparing per-patch row sets with the model inside Coq (vm_compute).",
        note="Trusted: Coq kernel+vm_compute; python harness (generators, bit-pattern mapping of records, float->Q); simulated Pool/Process/Queue; numpy/scipy/astropy/h5py/pyarrow exercised not modelled. Nearest-centre re-checked with exact rationals from the implementation's unit vectors; deg->rad checked to 2^-51 relative against a 30-digit rational pi.",
        technique="Coq proof (induction over chunk lists / Permutation of messages) + differential correspondence evaluated in Coq",
        ref="DESIGN.md §5 C02"),
    "C18": dict(
        text="Theorems (no axioms): the request list of the chunk cursor is a consecutive cover of [0,n) by non-empty slices of at most cs rows, ceil(n/cs) of them, and the sparse probe is gathered chunk by chunk selecting exactly the requested rows. Tie: logging proxies around the data frame / HDF5 datasets record what the real readers request during Catalog.from_dataframe/from_file (incl. the extra pass for generated centres) and the log is compared with the model's slices inside Coq.",
        note="Trusted: Coq kernel+vm_compute; python harness and logging proxies; FITS column access is astropy behaviour and is not logged; Parquet is covered at row-group granularity by the C02 model (parquet_chunks_eq).",
        technique="Coq proof (induction on fuel/cursor) + request-log correspondence evaluated in Coq",
        ref="DESIGN.md §5 C18"),
}

ALL = ["C%02d" % i for i in range(1, 19)]
PENDING_REASON = "check not built yet in this revision of /verif (build order: DESIGN.md §10); the technique applies and the property will be claimed once its model, theorems and correspondence run"


def main():
    here = os.path.dirname(os.path.dirname(os.path.abspath(__file__)))
    checks = []
    for pid in ALL:
        if pid not in BUILT:
            continue
        b = BUILT[pid]
        checks.append({
            "property_id": pid,
            "quick_cmd": "./check %s --tier quick" % pid,
            "thorough_cmd": "./check %s --tier thorough" % pid,
            "evidence_file": "/verif/evidence/%s.json" % pid,
            "replay_cmd_template": "./check %s --replay {path}" % pid,
            "engine": "coq-correspondence",
            "level_claimed": {"category": "proof", "text": b["text"], "design_ref": b["ref"]},
            "level_note": b["note"],
            "technique": b["technique"],
        })
    man = {
        "version": 1,
        "setup_cmd": "cd /verif && sh tools/setup.sh",
        "hooks": {
            "guard": "YAW_VERIF",
            "enable": "no source hooks are needed: schedules, MPI and crashes are steered from the harness (replaced multiprocessing / mpi4py modules, strace); checks import /repo/src directly (PYTHONPATH=/repo/src)",
            "baseline_off_cmd": "cd /repo && /venv/bin/python -m pytest -ra -q -p no:cacheprovider --timeout=900 --continue-on-collection-errors",
            "source_commits": [],
            "add_only": True,
        },
        "engines": [{
            "name": "coq-correspondence",
            "path": "/verif/harness/check.py",
            "serves_properties": sorted(BUILT),
            "kind_free_text": "Coq 8.16.1 development under /verif/coq (Model/, Proofs/, Props/) + python correspondence harness that runs /repo's working tree and evaluates the model on the same inputs inside Coq (vm_compute)",
        }],
        "checks": checks,
        "not_applicable": [{"property_id": p, "reason": PENDING_REASON} for p in ALL if p not in BUILT],
        "notes": "See DESIGN.md. KNOWN_FINDINGS.jsonl lists genuine defects recorded rather than repaired and the repaired ones (fixed:).",
    }
    with open(os.path.join(here, "MANIFEST.json"), "w") as f:
        json.dump(man, f, indent=1)
    print("wrote MANIFEST.json with %d checks" % len(checks))


if __name__ == "__main__":
    main()
