#!/bin/sh
# Build the static Coq development from files on disk only (full .vo build, no -vos).
set -e
cd /verif/coq
# gate: no admits, no axioms declared, no checks disabled
if grep -rnE '\b(Admitted|admit|Axiom|Parameter|Conjecture|Hypothesis|Variable)\b|Unset Guard|bypass_check|type-in-type|impredicative-set' --include='*.v' Base Model Proofs Props | grep -vE '^\S+:\s*[0-9]+:\s*\(\*' | grep -vE 'Section|Context' ; then
  echo "setup gate: forbidden token found" ; exit 1
fi
coq_makefile -f _CoqProject -o Makefile > /dev/null
timeout 1800 make -j16
echo "coq build ok"
