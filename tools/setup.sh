#!/bin/sh
# Build the static Coq development from files on disk only (full .vo build, no -vos).
set -e
python3 /verif/tools/gate.py
cd /verif/coq
coq_makefile -f _CoqProject -o Makefile > /dev/null
timeout 1800 make -j16
echo "coq build ok"
