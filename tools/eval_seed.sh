#!/bin/sh
# usage: eval_seed.sh Cxx [srcdir-with-patch.diff-demo.py-meta.json]
# Confirms a seeded change in a scratch worktree of /repo's HEAD (or of the commit in $SEED_BASE when the change was made
# against an earlier HEAD and no longer applies) (tests pass with it, the demonstration
# passes without and fails with it), runs the property's check against it and records the outcome.
id="$1"; src="${2:-/tmp/seedout_$id}"
wt="/tmp/ev_$id"; out="/verif/_work/seedeval/$id"
mkdir -p "$out"; rm -f "$out"/*
git -C /repo worktree remove --force "$wt" >/dev/null 2>&1; rm -rf "$wt"
git -C /repo worktree add --detach "$wt" "${SEED_BASE:-HEAD}" >/dev/null 2>&1 || { echo "$id worktree-failed"; exit 2; }
cp /repo/src/yaw/_version.py "$wt/src/yaw/_version.py"
run() { (cd "$wt" && PYTHONPATH="$wt/src" YAW_NUM_THREADS=1 PYTHONDONTWRITEBYTECODE=1 timeout 600 "$@"); }
rund() { (cd "$wt" && PYTHONPATH="$wt/src" PYTHONDONTWRITEBYTECODE=1 timeout 600 "$@"); }
rund /venv/bin/python "$src/demo.py" > "$out/demo_orig.txt" 2>&1; d0=$?
if ! git -C "$wt" apply "$src/patch.diff" 2> "$out/apply.txt"; then
  echo "$id apply-failed demo_orig=$d0"; git -C /repo worktree remove --force "$wt"; exit 3
fi
run /venv/bin/python -m pytest -q -p no:cacheprovider --timeout=900 -x > "$out/pytest.txt" 2>&1; t1=$?
rund /venv/bin/python "$src/demo.py" > "$out/demo_changed.txt" 2>&1; d1=$?
(cd /verif && VERIF_REPO_SRC="$wt/src" timeout 1500 ./check "$id" > "$out/check.txt" 2>&1); c=$?
viol=$(grep -c '^VIOLATION' "$out/check.txt")
echo "$id demo_orig=$d0 tests_changed=$t1 demo_changed=$d1 check_exit=$c violations=$viol"
grep '^VIOLATION\|^KNOWN' "$out/check.txt" | head -3
git -C /repo worktree remove --force "$wt"
