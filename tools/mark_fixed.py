#!/usr/bin/env python3
"""usage: mark_fixed.py <commit> <signature> [<signature> ...] — turn known entries into fixed ones"""
import json, sys
p = '/verif/KNOWN_FINDINGS.jsonl'
commit, sigs = sys.argv[1], set(sys.argv[2:])
rows = [json.loads(l) for l in open(p) if l.strip()]
seen = set()
for r in rows:
    if r['signature'] in sigs:
        r['status'] = 'fixed'; r['commit'] = commit
        r['line'] = "fixed: property=%s %s %s" % (r['property'], commit, r['what'])
        seen.add(r['signature'])
open(p, 'w').write("".join(json.dumps(r) + "\n" for r in rows))
print("marked", sorted(seen), "missing", sorted(sigs - seen))
