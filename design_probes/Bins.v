From Coq Require Import List Arith Lia QArith Qring Setoid Bool.
Import ListNotations.
Open Scope Q_scope.

(* one "pair" = (separation, weight product); the tree sees the multiset of pairs *)
Definition pairs := list (Q * Q).
Fixpoint qsum (l : list Q) : Q := match l with [] => 0 | x :: xs => x + qsum xs end.

Definition w_le (r : Q) (ps : pairs) : Q :=                 (* Σ w [d <= r] *)
  qsum (map (fun p => if Qle_bool (fst p) r then snd p else 0) ps).
Definition w_in (lo hi : Q) (ps : pairs) : Q :=             (* Σ w [lo < d <= hi] : the spec *)
  qsum (map (fun p => if negb (Qle_bool (fst p) lo) && Qle_bool (fst p) hi then snd p else 0) ps).

(* scipy count_neighbors on ascending radii *)
Definition cn_cum (r : list Q) (ps : pairs) : list Q := map (fun x => w_le x ps) r.
Fixpoint cn_bin_from (prev : Q) (r : list Q) (ps : pairs) : list Q :=
  match r with [] => [] | x :: xs => w_in prev x ps :: cn_bin_from x xs ps end.
Definition cn_bin (r : list Q) (ps : pairs) : list Q :=
  match r with [] => [] | x :: xs => w_le x ps :: cn_bin_from x xs ps end.

Fixpoint diffs (l : list Q) : list Q :=
  match l with a :: ((b :: _) as t) => (b - a) :: diffs t | _ => [] end.
(* dispatch_counts *)
Definition dispatch (cum : bool) (c : list Q) : list Q := if cum then diffs c else tl c.

Fixpoint ascending (l : list Q) : Prop :=
  match l with a :: ((b :: _) as t) => a < b /\ ascending t | _ => True end.

Lemma w_in_split lo hi ps : lo <= hi -> w_le hi ps - w_le lo ps == w_in lo hi ps.
Proof.
  intros H. unfold w_le, w_in. induction ps as [|[d w] ps IH]; simpl; [ring|].
  destruct (Qle_bool d lo) eqn:E1, (Qle_bool d hi) eqn:E2; simpl.
  - rewrite <- IH. ring.
  - exfalso. apply Qle_bool_iff in E1. assert (d <= hi) by (eapply Qle_trans; eauto).
    apply Qle_bool_iff in H0. congruence.
  - rewrite <- IH. ring.
  - rewrite <- IH. ring.
Qed.

Lemma list_eqQ_refl (l : list Q) : Forall2 Qeq l l.
Proof. induction l; constructor; auto. reflexivity. Qed.

(* both branches of the code's dispatch produce the per-bin sums (lo,hi] *)
Lemma dispatch_bins cum r ps :
  ascending r -> Forall2 Qeq (dispatch cum (if cum then cn_cum r ps else cn_bin r ps))
                             (match r with [] => [] | x :: xs => cn_bin_from x xs ps end).
Proof.
  intros Ha. destruct cum; simpl.
  - destruct r as [|x xs]; simpl; [constructor|]. revert x Ha.
    induction xs as [|y ys IH]; intros x Ha; simpl; [constructor|].
    destruct Ha as [Hxy Ha]. constructor.
    + apply w_in_split. apply Qlt_le_weak. exact Hxy.
    + apply IH. exact Ha.
  - destruct r as [|x xs]; simpl; [constructor|]. apply list_eqQ_refl.
Qed.

Lemma ascending_nth_ge y ys n :
  ascending (y :: ys) -> y <= nth n (y :: ys) y.
Proof.
  revert y n. induction ys as [|z zs IH]; intros y n Ha.
  - destruct n as [|[|n]]; simpl; apply Qle_refl.
  - destruct n as [|n]; [simpl; apply Qle_refl|].
    destruct Ha as [Hyz Ha]. change (nth (S n) (y :: z :: zs) y) with (nth n (z :: zs) y).
    destruct (Nat.lt_ge_cases n (length (z :: zs))) as [Hlt|Hge].
    + rewrite (nth_indep (z :: zs) y z Hlt).
      apply Qle_trans with z; [apply Qlt_le_weak; exact Hyz | exact (IH z n Ha)].
    + rewrite (nth_overflow (z :: zs) y Hge). apply Qle_refl.
Qed.

(* summing consecutive bins telescopes: bins between edge 0 and edge n give (r_0, r_n] *)
Lemma bins_telescope x xs ps n :
  ascending (x :: xs) -> (n <= length xs)%nat ->
  qsum (firstn n (cn_bin_from x xs ps)) == w_in x (nth n (x :: xs) x) ps.
Proof.
  revert x n. induction xs as [|y ys IH]; intros x n Ha Hn.
  - simpl in Hn. assert (n = 0)%nat by lia. subst. simpl.
    rewrite <- (w_in_split x x ps) by apply Qle_refl. ring.
  - destruct n as [|n].
    + simpl. rewrite <- (w_in_split x x ps) by apply Qle_refl. ring.
    + destruct Ha as [Hxy Ha]. simpl in Hn.
      change (firstn (S n) (cn_bin_from x (y :: ys) ps))
        with (w_in x y ps :: firstn n (cn_bin_from y ys ps)).
      change (nth (S n) (x :: y :: ys) x) with (nth n (y :: ys) x).
      cbn [qsum]. rewrite (IH y n Ha) by lia.
      assert (Hd : nth n (y :: ys) x = nth n (y :: ys) y).
      { apply nth_indep. simpl. lia. }
      rewrite Hd.
      pose proof (ascending_nth_ge y ys n Ha) as Hyn.
      rewrite <- (w_in_split x y ps) by (apply Qlt_le_weak; exact Hxy).
      rewrite <- (w_in_split y _ ps) by exact Hyn.
      rewrite <- (w_in_split x _ ps) by (eapply Qle_trans; [apply Qlt_le_weak; exact Hxy | exact Hyn]).
      ring.
Qed.
Print Assumptions bins_telescope.
Print Assumptions dispatch_bins.
