From Coq Require Import List Arith Lia Bool.
Import ListNotations.

(* ---- abstract file system of one patch's tree cache ---- *)
Inductive path := PBin | PTrees.
Definition path_beq (a b : path) : bool :=
  match a, b with PBin, PBin => true | PTrees, PTrees => true | _, _ => false end.

(* binning ids: 0 = unbinned, n>0 = some binning (edges+closed side) *)
Inductive content :=
| Empty                       (* created / truncated, nothing written *)
| BinByte                     (* only the closed-side byte written *)
| BinC (b : nat)              (* byte + edges of binning b (b > 0) *)
| TreesC (b : nat).           (* complete pickle of trees built for binning b *)

Definition fs := path -> option content.
Inductive fop := Put (p : path) (c : content) | Del (p : path).
Definition apply1 (s : fs) (o : fop) : fs :=
  match o with
  | Put p c => fun q => if path_beq q p then Some c else s q
  | Del p => fun q => if path_beq q p then None else s q
  end.
Definition apply (s : fs) (ops : list fop) : fs := fold_left apply1 ops s.

(* what BinnedTrees.__init__ decodes from the binning file *)
Definition decode (c : option content) : option nat :=
  match c with
  | None => None                       (* FileNotFoundError -> rebuild *)
  | Some Empty => Some 0               (* read(1) = b"" , no edges -> unbinned *)
  | Some BinByte => Some 0
  | Some (BinC b) => Some b
  | Some (TreesC _) => Some 0          (* not reachable; total *)
  end.

Inductive outcome := Err | Used (b : nat).   (* trees for which binning end up in the measurement *)

(* BinnedTrees.build(patch, b, force=False) followed by loading the trees *)
Definition use_trees (s : fs) (b : nat) : outcome :=
  match decode (s PBin) with
  | None => Used b                                  (* rebuilt *)
  | Some b' =>
      if Nat.eqb b' b then
        match s PTrees with
        | Some (TreesC bt) =>
            if Nat.eqb bt b then Used b
            else if (Nat.eqb bt 0 || Nat.eqb b 0) then Err   (* tuple used as tree or vice versa *)
            else Used bt                                      (* silently the wrong binning *)
        | _ => Err                                            (* missing / truncated pickle *)
        end
      else Used b                                   (* marker differs -> rebuilt *)
  end.

(* the write order of the pinned commit and of the repair *)
Definition marker_ops (b : nat) : list fop :=
  if Nat.eqb b 0 then [Put PBin Empty; Put PBin BinByte]
  else [Put PBin Empty; Put PBin BinByte; Put PBin (BinC b)].
Definition build_cur (b : nat) : list fop := [Put PTrees Empty; Put PTrees (TreesC b)] ++ marker_ops b.
Definition build_fix (b : nat) : list fop := Del PBin :: build_cur b.

(* cache states a completed build can leave *)
Definition consistent (s : fs) : Prop :=
  match decode (s PBin) with None => True | Some b' => s PTrees = Some (TreesC b') end.

Definition safe (s : fs) : Prop := forall b, use_trees s b = Err \/ use_trees s b = Used b.

Lemma use_consistent s : consistent s -> safe s.
Proof.
  unfold consistent, safe, use_trees. intros H b. destruct (decode (s PBin)) as [b'|]; auto.
  destruct (Nat.eqb b' b) eqn:E; auto. rewrite H. apply Nat.eqb_eq in E. subst. rewrite Nat.eqb_refl. auto.
Qed.

(* all crash points of the repaired order, from any consistent state, for any later request *)
Local Arguments Nat.eqb : simpl never.

Ltac eqb_cases :=
  repeat match goal with
  | |- context [Nat.eqb ?x ?y] =>
      let E := fresh "E" in destruct (Nat.eqb x y) eqn:E; cbn;
      [apply Nat.eqb_eq in E | apply Nat.eqb_neq in E]
  end.

Ltac solve_safe H0 :=
  first [ apply use_consistent; exact H0
        | let b' := fresh "b'" in
          intros b'; unfold use_trees; cbn; eqb_cases; subst; cbn;
          try rewrite Nat.eqb_refl; cbn; auto; try lia; try congruence ].

Theorem crash_safe_fix s0 b k : consistent s0 -> safe (apply s0 (firstn k (build_fix b))).
Proof.
  intros H0. unfold build_fix, build_cur, marker_ops.
  destruct (Nat.eqb b 0) eqn:Eb; [apply Nat.eqb_eq in Eb; subst b | apply Nat.eqb_neq in Eb];
  destruct k as [|[|[|[|[|[|[|k]]]]]]]; cbn [firstn app apply fold_left apply1];
  solve_safe H0.
Qed.

(* the pinned order: rebuilding for binning 2 over a cache built for binning 1,
   crash after the pickle is complete and before the marker is rewritten *)
Definition s_old : fs := fun p => match p with PBin => Some (BinC 1) | PTrees => Some (TreesC 1) end.
Theorem stale_marker_refuted :
  consistent s_old /\ use_trees (apply s_old (firstn 2 (build_cur 2))) 1 = Used 2.
Proof. split; vm_compute; reflexivity. Qed.

Print Assumptions crash_safe_fix.
