From Coq Require Import Reals Lra Psatz.
Open Scope R_scope.

(* Gram determinant of three vectors = (triple product)^2 *)
Lemma gram_det (a1 a2 a3 b1 b2 b3 c1 c2 c3 : R) :
  let x := a1*b1+a2*b2+a3*b3 in let y := b1*c1+b2*c2+b3*c3 in let z := a1*c1+a2*c2+a3*c3 in
  let na := a1*a1+a2*a2+a3*a3 in let nb := b1*b1+b2*b2+b3*b3 in let nc := c1*c1+c2*c2+c3*c3 in
  na*nb*nc + 2*x*y*z - na*y*y - nb*z*z - nc*x*x =
  (a1*(b2*c3-b3*c2) - a2*(b1*c3-b3*c1) + a3*(b1*c2-b2*c1))^2.
Proof. intros; unfold x,y,z,na,nb,nc; ring. Qed.

Lemma dot_bound (a1 a2 a3 b1 b2 b3 : R) :
  a1*a1+a2*a2+a3*a3 = 1 -> b1*b1+b2*b2+b3*b3 = 1 -> -1 <= a1*b1+a2*b2+a3*b3 <= 1.
Proof.
  intros Ha Hb.
  pose proof (pow2_ge_0 (a1-b1)). pose proof (pow2_ge_0 (a2-b2)). pose proof (pow2_ge_0 (a3-b3)).
  pose proof (pow2_ge_0 (a1+b1)). pose proof (pow2_ge_0 (a2+b2)). pose proof (pow2_ge_0 (a3+b3)).
  split; nra.
Qed.

(* scalar core of the spherical triangle inequality *)
Lemma acos_triangle x y z :
  -1 <= x <= 1 -> -1 <= y <= 1 -> -1 <= z <= 1 ->
  0 <= 1 + 2*x*y*z - x*x - y*y - z*z ->
  acos z <= acos x + acos y.
Proof.
  intros Hx Hy Hz Hg.
  pose proof (acos_bound x) as Ba. pose proof (acos_bound y) as Bb. pose proof (acos_bound z) as Bc.
  destruct (Rle_dec (acos x + acos y) PI) as [Hle|Hgt]; [|lra].
  apply cos_decr_0; try lra.
  rewrite cos_plus, !cos_acos, !sin_acos by lra.
  set (sx := sqrt (1 - x²)). set (sy := sqrt (1 - y²)).
  assert (Hsx : 0 <= sx) by apply sqrt_pos. assert (Hsy : 0 <= sy) by apply sqrt_pos.
  assert (Hsx2 : sx * sx = 1 - x*x).
  { unfold sx. rewrite sqrt_sqrt; unfold Rsqr; nra. }
  assert (Hsy2 : sy * sy = 1 - y*y).
  { unfold sy. rewrite sqrt_sqrt; unfold Rsqr; nra. }
  (* (z - x y)^2 <= (sx sy)^2 and sx sy >= 0  ==>  x y - sx sy <= z *)
  assert (Hkey : (z - x*y) * (z - x*y) <= (sx*sy) * (sx*sy)).
  { replace ((sx*sy)*(sx*sy)) with ((sx*sx)*(sy*sy)) by ring. rewrite Hsx2, Hsy2. nra. }
  assert (Hp : 0 <= sx * sy) by (apply Rmult_le_pos; assumption).
  nra.
Qed.

(* great-circle angle between unit vectors is a metric: triangle inequality *)
Theorem sphere_triangle (a1 a2 a3 b1 b2 b3 c1 c2 c3 : R) :
  a1*a1+a2*a2+a3*a3 = 1 -> b1*b1+b2*b2+b3*b3 = 1 -> c1*c1+c2*c2+c3*c3 = 1 ->
  acos (a1*c1+a2*c2+a3*c3) <= acos (a1*b1+a2*b2+a3*b3) + acos (b1*c1+b2*c2+b3*c3).
Proof.
  intros Ha Hb Hc.
  apply acos_triangle; try (apply dot_bound; assumption).
  pose proof (gram_det a1 a2 a3 b1 b2 b3 c1 c2 c3) as G. cbv zeta in G.
  rewrite Ha, Hb, Hc in G.
  pose proof (pow2_ge_0 (a1*(b2*c3-b3*c2) - a2*(b1*c3-b3*c1) + a3*(b1*c2-b2*c1))) as P.
  nra.
Qed.

(* chord <-> angle: |u - v|^2 = 2 - 2 u.v = (2 sin(theta/2))^2 *)
Lemma chord_sq (a1 a2 a3 b1 b2 b3 : R) :
  a1*a1+a2*a2+a3*a3 = 1 -> b1*b1+b2*b2+b3*b3 = 1 ->
  (a1-b1)^2+(a2-b2)^2+(a3-b3)^2 = 2 - 2*(a1*b1+a2*b2+a3*b3).
Proof. intros; nra. Qed.

Lemma chord_of_angle t : (2 * sin (t/2))^2 = 2 - 2 * cos t.
Proof.
  replace t with (2 * (t/2)) at 2 by field. rewrite cos_2a_sin. ring.
Qed.

Lemma chord_mono s t : 0 <= s -> s < t -> t <= PI -> 2 * sin (s/2) < 2 * sin (t/2).
Proof.
  intros H0 Hst Ht. apply Rmult_lt_compat_l; [lra|].
  apply sin_increasing_1; lra.
Qed.

Lemma angle_of_chord_inv t : 0 <= t <= PI -> 2 * asin (2 * sin (t/2) / 2) = t.
Proof. intros H. replace (2 * sin (t/2) / 2) with (sin (t/2)) by field. rewrite asin_sin; lra. Qed.

Lemma chord_of_angle_inv d : 0 <= d <= 2 -> 2 * sin (2 * asin (d/2) / 2) = d.
Proof. intros H. replace (2 * asin (d/2) / 2) with (asin (d/2)) by field. rewrite sin_asin; lra. Qed.

Print Assumptions sphere_triangle.
