From Coq Require Import List Arith Lia QArith Qring Setoid Morphisms.
Import ListNotations.
Open Scope Q_scope.

Fixpoint qsum (l : list Q) : Q := match l with [] => 0 | x :: xs => x + qsum xs end.
Fixpoint remove_nth {A} (k : nat) (l : list A) : list A :=
  match l, k with
  | [], _ => []
  | _ :: xs, O => xs
  | x :: xs, S k' => x :: remove_nth k' xs
  end.

Definition rowsum (M : list (list Q)) (k : nat) : Q := qsum (nth k M []).
Definition colsum (M : list (list Q)) (k : nat) : Q := qsum (map (fun r => nth k r 0) M).
Definition diag (M : list (list Q)) (k : nat) : Q := nth k (nth k M []) 0.
Definition total (M : list (list Q)) : Q := qsum (map qsum M).
(* the code: sum_tiled - row_sum - col_sum + diag *)
Definition sample (M : list (list Q)) (k : nat) : Q := total M - rowsum M k - colsum M k + diag M k.
(* the spec: recompute the total with patch k removed from both catalogs *)
Definition loo (M : list (list Q)) (k : nat) : Q := total (map (remove_nth k) (remove_nth k M)).

Lemma qsum_remove (l : list Q) k : (k < length l)%nat -> qsum l == nth k l 0 + qsum (remove_nth k l).
Proof.
  revert k; induction l as [|x l IH]; intros k Hk; simpl in Hk; [lia|].
  destruct k as [|k]; simpl.
  - ring.
  - rewrite (IH k) by lia. ring.
Qed.

Lemma total_remove_row (M : list (list Q)) k :
  (k < length M)%nat -> total M == rowsum M k + total (remove_nth k M).
Proof.
  unfold total, rowsum. revert k; induction M as [|r M IH]; intros k Hk; simpl in Hk; [lia|].
  destruct k as [|k]; simpl.
  - ring.
  - rewrite (IH k) by lia. ring.
Qed.

Lemma total_remove_col (M : list (list Q)) k :
  Forall (fun r => (k < length r)%nat) M ->
  total M == colsum M k + total (map (remove_nth k) M).
Proof.
  unfold total, colsum. induction 1 as [|r M Hr HM IH]; simpl.
  - ring.
  - rewrite (qsum_remove r k Hr). rewrite IH. ring.
Qed.

Lemma colsum_remove_row (M : list (list Q)) k :
  (k < length M)%nat -> colsum M k == diag M k + colsum (remove_nth k M) k.
Proof.
  unfold colsum, diag. revert k. 
  (* generalise: column index c fixed, row index k varies *)
  assert (G : forall c k, (k < length M)%nat ->
     qsum (map (fun r => nth c r 0) M) == nth c (nth k M []) 0 + qsum (map (fun r => nth c r 0) (remove_nth k M))).
  { intros c. induction M as [|r M IH]; intros k Hk; simpl in Hk; [lia|].
    destruct k as [|k]; simpl; [ring|]. rewrite (IH k) by lia. ring. }
  intros k Hk. apply G. exact Hk.
Qed.

Lemma Forall_remove_nth {A} (P : A -> Prop) k l : Forall P l -> Forall P (remove_nth k l).
Proof.
  intros H; revert k; induction H as [|x l Hx Hl IH]; intros k.
  - destruct k; constructor.
  - destruct k; simpl; [exact Hl | constructor; auto].
Qed.

(* C03 core: for every square-or-not matrix with rows longer than k, every patch count *)
Theorem sample_is_loo (M : list (list Q)) k :
  (k < length M)%nat -> Forall (fun r => (k < length r)%nat) M -> sample M k == loo M k.
Proof.
  intros Hk Hrows. unfold sample, loo.
  rewrite (total_remove_row M k Hk).
  rewrite (total_remove_col (remove_nth k M) k) by (apply Forall_remove_nth; exact Hrows).
  rewrite (colsum_remove_row M k Hk). ring.
Qed.
Print Assumptions sample_is_loo.
