#!/venv/bin/python
"""C08 driver.  Two roles, one file (so that datasets/configurations are defined once):

  c08_driver.py worker                 long-lived recovery worker: one JSON request per line on stdin,
                                       one JSON answer per line on stdout (import yaw once).
  c08_driver.py workloads <spec.json>  run cache-writing workloads sequentially (this is what runs under
                                       strace); each workload is bracketed by 'BEGIN name' / 'END name'
                                       lines written with os.write to spec["marks"].

Nothing here decides pass/fail; it only runs the implementation in $VERIF_REPO_SRC (/repo/src).
"""
import hashlib
import json
import os
import sys
import traceback

import numpy as np

REPO_SRC = os.environ.get("VERIF_REPO_SRC", "/repo/src").rstrip("/")
if REPO_SRC not in [p.rstrip("/") for p in sys.path]:
    sys.path.insert(0, REPO_SRC)
os.environ.setdefault("YAW_NUM_THREADS", "1")

# ------------------------------------------------------------------ datasets / binnings (no yaw import)
BINNINGS = {
    # name: (edges, closed)      equal bin counts on purpose (stale trees are only silent then)
    "b1": ([0.125, 0.5, 1.0], "right"),
    "b2": ([0.125, 0.625, 1.0], "right"),      # other edges, same number of bins
    "b1L": ([0.125, 0.5, 1.0], "left"),        # other closed side
    "b3": ([0.125, 0.375, 1.0], "right"),      # a third request (written only by the generated rebuild workloads)
    "b4": ([0.125, 0.375, 0.625, 1.0], "right"),   # ANOTHER NUMBER of bins (3): stale trees are loud in one direction only
    "none": (None, "right"),                    # unbinned
}
ID_OFFSET = {"A": 0, "B": 100000, "U": 200000, "UR": 300000, "R0": 400000}
SEEDS = {"A": 11, "B": 22, "U": 33, "UR": 44, "R0": 55}


def centres(npatch):
    return [(30.0 + 40.0 * k, -20.0 + 25.0 * (k % 3)) for k in range(npatch)]


def no_redshifts(name):
    """dataset names with the suffix 'w' ("Aw") are the same points WITHOUT the redshift column: the catalog stores
    24-byte records (ra, dec, weights), which no power-of-two buffer block holds a whole number of"""
    return name.endswith("w")


def dataset(name, scale):
    """Deterministic clustered points.  Returns dict(ra, dec [deg], w, z, patch (row -> patch id)).
    Points come in pairs placed symmetrically about the patch centre with equal weights (so the
    centre recomputed from the data stays close to the given centre); every patch gets at least one
    pair; all values are dyadic rationals; z on multiples of 1/128 that avoid the bin edges.
    Optional scale keys (large scales): "n_fixed" = size of the catalogs no workload touches (U, UR, R0; default n),
    "wB_odd" = dataset B draws its weights from odd multiples of 1/8 (A: multiples of 1/4), so that no record of B
    has the bit pattern of a record of A however many there are."""
    if no_redshifts(name):
        name = name[:-1]
    npatch = int(scale["npatch"])
    base = int(scale.get("n_fixed", scale["n"])) if name in ("U", "UR", "R0") else int(scale["n"])
    n = base + (6 if name == "B" else 0) + (3 * base if name == "UR" else 0)
    odd_w = bool(scale.get("wB_odd")) and name == "B"
    npairs = n // 2
    rng = np.random.RandomState(SEEDS[name] + 1000 * npatch + n)
    cent = centres(npatch)
    kp = np.concatenate([np.arange(npatch), np.arange(npatch), rng.randint(0, npatch, npairs - 2 * npatch)])
    # the first two pairs of every patch carry redshifts that tell all binnings apart: one exactly on the
    # inner edge 0.5 (closed side matters), one in (0.375, 0.5), one in (0.5, 0.625)
    forced = {}
    for j in range(npatch):
        forced[j] = [64, 56]
        forced[npatch + j] = [72, None]
    seen = set()
    rows = []
    edges_forbidden = {16, 48, 64, 80, 128}
    for j, k in enumerate(kp):
        while True:
            dx, dy = rng.randint(1, 49) / 16.0, rng.randint(-48, 49) / 16.0
            if (k, dx, dy) not in seen:
                seen.add((k, dx, dy))
                seen.add((k, -dx, -dy))
                break
        wgt = rng.randint(1, 9) / 4.0
        if odd_w:
            wgt = (2 * int(round(wgt * 4)) + 1) / 8.0
        for t, sgn in enumerate((1.0, -1.0)):
            while True:
                q = rng.randint(17, 128)
                if q not in edges_forbidden:
                    break
            if forced.get(j, [None, None])[t] is not None:
                q = forced[j][t]
            rows.append((cent[k][0] + sgn * dx, cent[k][1] + sgn * dy, wgt, q / 128.0, int(k)))
    order = rng.permutation(len(rows))
    rows = [rows[i] for i in order]
    a = np.asarray(rows, dtype="f8")
    return dict(ra=a[:, 0].copy(), dec=a[:, 1].copy(), w=a[:, 2].copy(), z=a[:, 3].copy(), patch=a[:, 4].astype(int))


def stored_records(name, scale):
    """The 32-byte records (ra, dec in radian, weights, redshifts as float64) the catalog stores,
    by input row (24 bytes for a dataset without redshifts)."""
    d = dataset(name, scale)
    cols = [np.deg2rad(d["ra"]), np.deg2rad(d["dec"]), d["w"]] + ([] if no_redshifts(name) else [d["z"]])
    arr = np.column_stack(cols).astype("<f8")
    return [arr[i].tobytes() for i in range(len(arr))], d["patch"].tolist()


# ------------------------------------------------------------------ yaw-dependent part
_yaw = None


def Y():
    global _yaw
    if _yaw is None:
        import logging
        import warnings
        warnings.filterwarnings("ignore")
        import yaw
        assert os.path.realpath(yaw.__file__).startswith(os.path.realpath(REPO_SRC) + "/"), yaw.__file__
        logging.getLogger("yaw").setLevel(logging.CRITICAL)
        _yaw = yaw
    return _yaw


def chunksize(name, scale):
    """rows per chunk handed to the catalog writer; "cs_<dataset>" overrides "cs" (large scales: A and B are cut
    into pieces of different sizes)"""
    return int(scale.get("cs_" + name, scale["cs"]))


def make_catalog(path, name, scale, overwrite):
    import pandas as pd
    yaw = Y()
    from yaw.coordinates import AngularCoordinates
    d = dataset(name, scale)
    df = pd.DataFrame(dict(ra=d["ra"], dec=d["dec"], w=d["w"], z=d["z"]))
    cc = AngularCoordinates(np.deg2rad(np.asarray(centres(scale["npatch"]), dtype="f8")))
    if no_redshifts(name):
        df = df.drop(columns=["z"])
    return yaw.Catalog.from_dataframe(path, df, ra_name="ra", dec_name="dec", weight_name="w",
                                      redshift_name=None if no_redshifts(name) else "z",
                                      patch_centers=cc, overwrite=overwrite, max_workers=1,
                                      chunksize=chunksize(name, scale))


def config(bname):
    yaw = Y()
    edges, closed = BINNINGS[bname]
    if edges is None:
        edges, closed = BINNINGS["b1"]
    return yaw.Configuration.create(rmin=0.5, rmax=6.0, unit="deg", edges=edges, closed=closed, max_workers=1)


def build(cat, bname, force=False):
    edges, closed = BINNINGS[bname]
    cat.build_trees(edges, closed=closed, force=force, max_workers=1)


def _arr(a):
    a = np.ascontiguousarray(a)
    return a.dtype.str.encode() + repr(a.shape).encode() + a.tobytes()


def digest_counts(nc):
    h = hashlib.sha1()
    h.update(_arr(nc.counts.counts))
    h.update(_arr(nc.sum_weights.sum_weights1))
    h.update(_arr(nc.sum_weights.sum_weights2))
    h.update(_arr(nc.counts.binning.edges))
    h.update(str(nc.counts.binning.closed).encode())
    h.update(str(bool(nc.counts.auto)).encode())
    return h.hexdigest()


def digest_corrfunc(cf):
    h = hashlib.sha1()
    for kind in ("dd", "dr", "rd", "rr"):
        c = getattr(cf, kind)
        h.update(kind.encode() + b":" + (digest_counts(c).encode() if c is not None else b"-"))
    return h.hexdigest()


def digest_corrdata(cd):
    h = hashlib.sha1()
    h.update(_arr(cd.binning.edges))
    h.update(str(cd.binning.closed).encode())
    h.update(_arr(cd.data))
    h.update(_arr(cd.samples))
    return h.hexdigest()


def err(e):
    return "error:" + type(e).__name__


class Fixed:
    """catalogs that no workload touches: U (unknown), UR (its randoms), R0 (a reference)"""

    def __init__(self, root, scale):
        self.root, self.scale = root, scale
        self.cats = {}
        os.makedirs(root, exist_ok=True)
        for nm in ("U", "UR", "R0"):
            p = os.path.join(root, nm)
            if os.path.exists(os.path.join(p, "patch_ids.bin")):
                self.cats[nm] = Y().Catalog(p, max_workers=1)
            else:
                self.cats[nm] = make_catalog(p, nm, scale, True)


def measure(cat, req, fixed):
    """The later measurement for request `req` (a binning name).  Binned request: the recovered catalog is
    the reference sample (binned trees); request 'none': it is the unknown sample (unbinned trees)."""
    yaw = Y()
    if req == "none":
        cfs = yaw.crosscorrelate(config("b1"), fixed.cats["R0"], cat, unk_rand=fixed.cats["UR"], max_workers=1)
    else:
        cfs = yaw.crosscorrelate(config(req), cat, fixed.cats["U"], unk_rand=fixed.cats["UR"], max_workers=1)
    return digest_corrfunc(cfs[0])


def recover(path, requests, fixed):
    """Open the cache as the next user would, then measure.  Returns
    {"open": "error:T" | {"ids": [...], "data": {pid: sha1}, "meta": {pid: [hex...]}}, "measure": {req: digest|error}}"""
    yaw = Y()
    out = {"open": None, "measure": {}}
    try:
        cat = yaw.Catalog(path, max_workers=1)
        info = {"ids": [int(i) for i in cat.keys()], "data": {}, "meta": {}}
        for pid, patch in cat.items():
            info["data"][str(int(pid))] = hashlib.sha1(patch.load_data().tobytes()).hexdigest()
            m = patch.meta
            info["meta"][str(int(pid))] = [int(m.num_records), float(m.sum_weights).hex()] + \
                [float(x).hex() for x in np.ravel(m.center.data)] + [float(x).hex() for x in np.ravel(m.radius.data)]
        out["open"] = info
    except BaseException as e:  # noqa
        if isinstance(e, (KeyboardInterrupt, SystemExit)):
            raise
        out["open"] = err(e)
        out["open_msg"] = str(e)[:200]
        return out
    for req in requests:
        try:
            out["measure"][req] = measure(cat, req, fixed)
        except BaseException as e:  # noqa
            if isinstance(e, (KeyboardInterrupt, SystemExit)):
                raise
            out["measure"][req] = err(e)
            out.setdefault("measure_msg", {})[req] = str(e)[:200]
    return out


# ------------------------------------------------------------------ result products under user-given names
# what the user hands to to_files / to_file is a path of ANY shape (dots in the last component, a suffix
# that looks like an extension, nested / relative directories, str or pathlib.Path); nothing here knows
# which file names the implementation derives from it
TRIPLES = ("CorrData", "RedshiftData", "HistData")
SINGLES = ("CorrFunc", "Configuration")


def named_object(what, value, res_dir):
    """the product `what` holding value A / B (built from the reference results of the scale)"""
    yaw = Y()
    if what in TRIPLES:
        cd = yaw.CorrData.from_files(os.path.join(res_dir, "cd" + value))
        if what == "CorrData":
            return cd
        cls = yaw.RedshiftData if what == "RedshiftData" else yaw.HistData
        return cls(cd.binning, cd.data.copy(), cd.samples.copy())
    if what == "CorrFunc":
        return yaw.CorrFunc.from_file(os.path.join(res_dir, "cf%s.hdf5" % value))
    if what == "Configuration":
        return config({"A": "b1", "B": "b2"}[value])
    raise ValueError(what)


def user_path(arg, as_path):
    if as_path:
        from pathlib import Path
        return Path(arg)
    return arg


def write_named(what, obj, arg, as_path):
    if what in TRIPLES:
        obj.to_files(user_path(arg, as_path))
    else:
        obj.to_file(user_path(arg, as_path))


def read_named(what, arg, as_path):
    """-> digest of what the next user gets from the same path, or error:T"""
    yaw = Y()
    try:
        if what in TRIPLES:
            obj = getattr(yaw, what).from_files(user_path(arg, as_path))
            return type(obj).__name__ + ":" + digest_corrdata(obj)
        if what == "CorrFunc":
            return digest_corrfunc(yaw.CorrFunc.from_file(user_path(arg, as_path)))
        obj = yaw.Configuration.from_file(user_path(arg, as_path))
        return hashlib.sha1(json.dumps(obj.to_dict(), sort_keys=True, default=str).encode()).hexdigest()
    except BaseException as e:  # noqa
        if isinstance(e, (KeyboardInterrupt, SystemExit)):
            raise
        return err(e)


class in_dir:
    """relative user paths are resolved against the working directory"""

    def __init__(self, cwd):
        self.cwd = cwd

    def __enter__(self):
        self.back = os.getcwd()
        if self.cwd:
            os.chdir(self.cwd)

    def __exit__(self, *a):
        os.chdir(self.back)


# ------------------------------------------------------------------ worker
def worker():
    fixed = None
    out = sys.stdout
    sys.stdout = sys.stderr      # anything the library prints must not corrupt the protocol
    for line in sys.stdin:
        line = line.strip()
        if not line:
            continue
        rq = json.loads(line)
        cmd = rq["cmd"]
        try:
            if cmd == "ping":
                Y()
                rs = {"ok": True, "yaw": os.path.realpath(Y().__file__)}
            elif cmd == "setup":
                fixed = Fixed(rq["root"], rq["scale"])
                rs = {"ok": True}
            elif cmd == "make_catalog":
                make_catalog(rq["dir"], rq["dataset"], rq["scale"], rq.get("overwrite", False))
                rs = {"ok": True}
            elif cmd == "build":
                cat = Y().Catalog(rq["dir"], max_workers=1)
                build(cat, rq["binning"], rq.get("force", False))
                rs = {"ok": True}
            elif cmd == "recover":
                rs = recover(rq["dir"], rq.get("requests", []), fixed)
                rs["ok"] = True
            elif cmd == "make_results":
                # correlation function of a catalog -> HDF5 file and .dat/.smp/.cov triple (untraced helper)
                yaw = Y()
                cat = yaw.Catalog(rq["dir"], max_workers=1)
                cfs = yaw.crosscorrelate(config(rq["binning"]), cat, fixed.cats["U"], unk_rand=fixed.cats["UR"],
                                         ref_rand=fixed.cats["R0"] if rq.get("rd") else None, max_workers=1)
                cf = cfs[0]
                if rq.get("hdf"):
                    cf.to_file(rq["hdf"])
                if rq.get("prefix"):
                    # text files round; write the fixed point of read -> write so that a re-written copy is identical
                    cf.sample().to_files(rq["prefix"] + "_tmp")
                    yaw.CorrData.from_files(rq["prefix"] + "_tmp").to_files(rq["prefix"])
                    for ext in (".dat", ".smp", ".cov"):
                        os.unlink(rq["prefix"] + "_tmp" + ext)
                rs = {"ok": True, "corrfunc": digest_corrfunc(cf), "corrdata": digest_corrdata(cf.sample())}
            elif cmd == "read_corrfunc":
                try:
                    rs = {"ok": True, "result": digest_corrfunc(Y().CorrFunc.from_file(rq["path"]))}
                except BaseException as e:  # noqa
                    if isinstance(e, (KeyboardInterrupt, SystemExit)):
                        raise
                    rs = {"ok": True, "result": err(e), "msg": str(e)[:200]}
            elif cmd == "read_corrdata":
                try:
                    rs = {"ok": True, "result": digest_corrdata(Y().CorrData.from_files(rq["prefix"]))}
                except BaseException as e:  # noqa
                    if isinstance(e, (KeyboardInterrupt, SystemExit)):
                        raise
                    rs = {"ok": True, "result": err(e), "msg": str(e)[:200]}
            elif cmd == "write_named":
                obj = named_object(rq["what"], rq["value"], rq["res_dir"])
                with in_dir(rq.get("cwd")):
                    write_named(rq["what"], obj, rq["arg"], rq.get("as_path", False))
                rs = {"ok": True}
            elif cmd == "read_named":
                with in_dir(rq.get("cwd")):
                    rs = {"ok": True, "result": read_named(rq["what"], rq["arg"], rq.get("as_path", False))}
            elif cmd == "trees_info":
                # structural description of a trees.pkl (for the harness' abstraction; pickles of KDTrees with
                # inner nodes are not byte-reproducible): complete? single tree or tuple? records per tree
                import pickle
                Y()
                try:
                    with open(rq["path"], "rb") as fh:
                        obj = pickle.load(fh)
                    if isinstance(obj, tuple):
                        rs = {"ok": True, "complete": True, "binned": True, "counts": [int(t.num_records) for t in obj],
                              "sumw": [float(t.sum_weights).hex() for t in obj]}
                    else:
                        rs = {"ok": True, "complete": True, "binned": False, "counts": [int(obj.num_records)],
                              "sumw": [float(obj.sum_weights).hex()]}
                except BaseException as e:  # noqa
                    if isinstance(e, (KeyboardInterrupt, SystemExit)):
                        raise
                    rs = {"ok": True, "complete": False, "error": err(e)}
            elif cmd == "quit":
                out.write(json.dumps({"ok": True}) + "\n")
                out.flush()
                return
            else:
                rs = {"ok": False, "error": "unknown command " + cmd}
        except BaseException as e:  # noqa
            if isinstance(e, (KeyboardInterrupt, SystemExit)):
                raise
            rs = {"ok": False, "error": err(e), "traceback": traceback.format_exc()[-2000:]}
        out.write(json.dumps(rs) + "\n")
        out.flush()


# ------------------------------------------------------------------ workloads (run under strace)
def run_workload(w):
    yaw = Y()
    kind = w["kind"]
    if kind == "create":
        make_catalog(w["dir"], w["dataset"], w["scale"], False)
    elif kind == "overwrite":
        make_catalog(w["dir"], w["dataset"], w["scale"], True)
    elif kind == "metadata":
        yaw.Catalog(w["dir"], max_workers=1)
    elif kind == "build":
        build(w["_cat"], w["binning"], w.get("force", False))
    elif kind == "corrfunc":
        w["_obj"].to_file(w["path"])
    elif kind == "corrdata":
        w["_obj"].to_files(w["prefix"])
    elif kind == "product":
        write_named(w["what"], w["_obj"], w["arg"], w.get("as_path", False))
    else:
        raise ValueError(kind)


def prepare_workload(w):
    """everything that is not the operation under test happens before the BEGIN mark"""
    yaw = Y()
    if w["kind"] == "build":
        w["_cat"] = yaw.Catalog(w["dir"], max_workers=1)
    elif w["kind"] == "corrfunc":
        w["_obj"] = yaw.CorrFunc.from_file(w["source"])
    elif w["kind"] == "corrdata":
        w["_obj"] = yaw.CorrData.from_files(w["source"])
    elif w["kind"] == "product":
        w["_obj"] = named_object(w["what"], w["value"], w["res_dir"])


def workloads(spec_path):
    spec = json.load(open(spec_path))
    Y()
    import pandas  # noqa: F401  (imported before the first mark)
    fd = os.open(spec["marks"], os.O_WRONLY | os.O_CREAT | os.O_APPEND, 0o644)
    for w in spec["workloads"]:
        prepare_workload(w)
        with in_dir(w.get("cwd")):
            os.write(fd, ("BEGIN %s\n" % w["name"]).encode())
            run_workload(w)
            os.write(fd, ("END %s\n" % w["name"]).encode())
            if w["kind"] == "product":
                # the next user reads the complete product back from the same path: which names does the
                # reader derive from it?  (second segment of the trace; changes nothing on disk)
                os.write(fd, ("BEGIN %s#read\n" % w["name"]).encode())
                read_named(w["what"], w["arg"], w.get("as_path", False))
                os.write(fd, ("END %s#read\n" % w["name"]).encode())
    os.close(fd)


# ------------------------------------------------------------------ deaths by unwinding (one process per run)
# The process that runs ONE workload dies at a chosen position, not at a system call but the way processes
# usually die: an exception that is not an Exception travels up the stack (KeyboardInterrupt from SIGINT,
# SystemExit from a SIGTERM handler or sys.exit in a callback), an ordinary exception nobody catches, or a signal
# with its default action.  All except the last run the handlers / __exit__ / finally code on the way.
UNWINDING = ("KeyboardInterrupt", "SystemExit", "OSError", "SIGINT", "SIGTERM-exit", "SIGINT-group")
NOT_UNWINDING = ("SIGTERM-default",)
MODES = UNWINDING + NOT_UNWINDING


class Trigger:
    def __init__(self, mode, status_fd):
        import signal
        self.mode, self.fd, self.pid, self.fired = mode, status_fd, os.getpid(), False
        # handlers are installed first thing, as a job script does (children started later inherit them)
        if mode in ("SIGINT", "SIGINT-group"):
            signal.signal(signal.SIGINT, signal.default_int_handler)       # as in a foreground job
        elif mode == "SIGTERM-exit":
            signal.signal(signal.SIGTERM, lambda signum, frame: sys.exit(143))
        elif mode == "SIGTERM-default":
            signal.signal(signal.SIGTERM, signal.SIG_DFL)

    def fire(self):
        import signal
        if self.fired or os.getpid() != self.pid:
            return
        self.fired = True
        os.write(self.fd, b"fired\n")
        m = self.mode
        if m == "KeyboardInterrupt":
            raise KeyboardInterrupt
        if m == "SystemExit":
            raise SystemExit(3)
        if m == "OSError":
            raise OSError(5, "input source failed")
        if m == "SIGINT":
            os.kill(self.pid, signal.SIGINT)
        elif m == "SIGINT-group":
            os.killpg(os.getpgrp(), signal.SIGINT)          # ctrl-c: every process of the job
        elif m in ("SIGTERM-exit", "SIGTERM-default"):
            os.kill(self.pid, signal.SIGTERM)
        else:
            raise ValueError(m)


class FrameProxy:
    """the data frame handed to from_dataframe; the k-th request for a chunk (1-based) is where the process dies"""

    def __init__(self, frame, at, trigger):
        self.frame, self.at, self.trigger, self.n = frame, at, trigger, 0

    def __len__(self):
        return len(self.frame)

    def __getitem__(self, item):
        if isinstance(item, slice):
            self.n += 1
            if self.n == self.at:
                self.trigger.fire()
        return self.frame[item]


class CallHook:
    """the k-th call (1-based) of a python function defined in the yaw package, in the main thread of the process
    that runs the workload, is where the process dies (k = 0: count only)"""

    def __init__(self, at, trigger):
        self.at, self.trigger, self.n, self.pid = at, trigger, 0, os.getpid()
        self.prefix = os.path.realpath(REPO_SRC) + "/yaw/"

    def __call__(self, frame, event, arg):
        if event == "call" and os.getpid() == self.pid and frame.f_code.co_filename.startswith(self.prefix):
            self.n += 1
            if self.n == self.at:
                self.trigger.fire()

    def __enter__(self):
        sys.setprofile(self)
        return self

    def __exit__(self, *a):
        sys.setprofile(None)


def interrupted(spec_path):
    """spec: the workload item of driver_spec + {"workers", "mode", "hook": "reader"|"call", "at", "status"}.
    Lines appended to spec["status"]: 'armed', 'fired', 'calls N', 'completed' (the harness reads them)."""
    w = json.load(open(spec_path))
    workers = int(w["workers"])
    os.environ["YAW_NUM_THREADS"] = str(workers)
    fd = os.open(w["status"], os.O_WRONLY | os.O_CREAT | os.O_APPEND, 0o644)
    trig = Trigger(w["mode"], fd)
    yaw = Y()
    import pandas as pd
    from yaw.utils import parallel
    os.write(fd, ("workers %d\n" % parallel.get_size(workers)).encode())
    kind = w["kind"]
    hook = CallHook(int(w["at"]) if w["hook"] == "call" else -1, trig)
    if kind in ("create", "overwrite"):
        from yaw.coordinates import AngularCoordinates
        name, scale = w["dataset"], w["scale"]
        d = dataset(name, scale)
        df = pd.DataFrame(dict(ra=d["ra"], dec=d["dec"], w=d["w"], z=d["z"]))
        if no_redshifts(name):
            df = df.drop(columns=["z"])
        cc = AngularCoordinates(np.deg2rad(np.asarray(centres(scale["npatch"]), dtype="f8")))
        src = FrameProxy(df, int(w["at"]), trig) if w["hook"] == "reader" else df

        def job():
            yaw.Catalog.from_dataframe(w["dir"], src, ra_name="ra", dec_name="dec", weight_name="w",
                                       redshift_name=None if no_redshifts(name) else "z", patch_centers=cc,
                                       overwrite=(kind == "overwrite"), max_workers=workers, chunksize=chunksize(name, scale))
    elif kind == "metadata":
        def job():
            yaw.Catalog(w["dir"], max_workers=workers)
    elif kind == "build":
        cat = yaw.Catalog(w["dir"], max_workers=1)
        edges, closed = BINNINGS[w["binning"]]

        def job():
            cat.build_trees(edges, closed=closed, force=w.get("force", False), max_workers=workers)
    elif kind in ("corrfunc", "corrdata", "product"):
        prepare_workload(w)

        def job():
            run_workload(w)
    else:
        raise ValueError(kind)
    with in_dir(w.get("cwd")):
        os.write(fd, b"armed\n")
        with hook:
            job()
        os.write(fd, ("calls %d\ncompleted\n" % hook.n).encode())
    os.close(fd)


if __name__ == "__main__":
    if sys.argv[1] == "worker":
        worker()
    elif sys.argv[1] == "workloads":
        workloads(sys.argv[2])
    elif sys.argv[1] == "interrupted":
        interrupted(sys.argv[2])
    else:
        sys.exit("usage: c08_driver.py worker | workloads spec.json | interrupted spec.json")
