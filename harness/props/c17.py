"""C17 — pair-count and data containers obey their documented algebra and indexing.

Tie: random containers with small dyadic entries of all five classes (PatchedCounts,
PatchedSumWeights, NormalisedCounts, CorrFunc, CorrData) are built with the real constructors;
one operator / indexer call (+, sum(), -, * scalar, * bool, ==, is_compatible, .bins[...],
.patches[...], iteration, and the same followed by sampling) is executed on the real objects
and the result (or the fact that it raised) is compared inside Coq with Model/Containers.v:
  flag0  run  = the model of the (repaired) code path,
  flag1  spec = the other side of the law (index-wise sum / product, single-index selections,
                selection applied to the sample, leave-one-more-out totals, scaled / unchanged
                sample),
  flag3  an operand combination the model rejects must raise.
A call on valid operands that raises is a failure of the property; its signature is the
innermost yaw operator / indexer frame of the traceback plus the call shape.

The property does not depend on how the interpreter was started: every case (the fixed probes, a grid
with one demanded rejection per class x binary operator x kind of incompatible operand / impossible
selection / bool scalar, and the random cases) is also executed by evaluate() of this module in fresh
interpreters started with -O and with PYTHONOPTIMIZE=1 (assert statements and the calls inside them are
compiled away, __debug__ is False).  An outcome that is the outcome of the checking process has the same
Coq term and keeps its verdict; any other outcome is judged by the same c17_case term and reported with
the suffix ':optimised-interpreter' (e.g. a rejection the property demands that no longer happens).

Every call above is ONE use of a helper of a container.  Re-entrant and interleaved use of the iteration / indexing
helpers of the SAME container object (nested loops, zip(x.bins, x.bins), half-consumed generators, iter() taken twice,
list() / indexing / lengths in between, for all seven container classes incl. RedshiftData / HistData) is the family
of props/c17_cursors.py, judged by c17_cursor_case of Model/Cursors.v (signatures
c17-<class>-<axis>-[interleaved-]iteration-{wrong-item,ends-early,raises}[:shared-position], ...-index-during-iteration-
wrong-result, ...-item-wrong-class, ...-yielded-item-changed-later, ...-container-changed).

The containers above have at most 4 bins / patches and are indexed with python ints, slices and lists.  LARGE axes (100 .. 400,
thorough .. 2000 patches or bins) and every REPRESENTATION of the index values (numpy integer scalars, integer arrays of
all eight dtypes incl. strided / byte-swapped / read-only ones, lists of numpy scalars, boolean masks, slices with numpy
bounds; negative, repeated, unsorted, empty, out-of-range values) are the family of props/c17_wide.py, judged by
c17_wide_case of Model/ContainersWide.v on position-coded containers and by plain int64 numpy indexing of the raw
construction arrays (signatures c17-<class>-<axis>-{wrong-selection, counts-and-weights-select-different-patches,
selection-raises, not-rejected, rejects-with-<exception>, malformed-selection, selection-of-sum-differs,
selection-sample-differs, selection-mutates-container, selection-mutates-index}:<form>).
"""
import copy
import json
import traceback

import numpy as np

from lib import floatq as fq
from lib import impl  # noqa: F401  (asserts that yaw is imported from the tree under test)

from yaw.binning import Binning
from yaw.correlation.corrdata import CorrData, SampledData
from yaw.correlation.corrfunc import CorrFunc
from yaw.correlation.paircounts import NormalisedCounts, PatchedCounts, PatchedSumWeights

ALLOWED_AXIOMS = []
TRUSTED = [
    "numpy broadcasting / einsum / fancy indexing are exercised, not modelled: the model states what "
    "the documented container semantics require of their result (nested lists over Q)",
    "encoders of the five container classes into Coq records (harness/props/c17.py: enc_*), read from the "
    "attributes of the real objects after construction",
    "recorder of cursor operations (harness/props/c17_cursors.py: run_prog): it executes for / zip / map / list / generator "
    "constructs literally on the real helpers and notes each iter(), each yielded item and each end of a loop; the end of "
    "a zip() is attributed to its first argument (the arguments are ordered by length)",
    "wide selections (harness/props/c17_wide.py): the position-coded construction arrays (numpy arange + offset, exact in "
    "float64 below 2^53), the conversion of an index description into the python / numpy object handed to the library, "
    "the resolution of index values into positions with python integers, plain numpy indexing with int64 position arrays "
    "as the reference for results too large for Coq",
]
ASSUMPTIONS = [
    "container entries are finite (no NaN / inf); cases whose sampled ratios are non-finite "
    "(zero normalisation) are not compared and are counted as nonfinite_skipped",
    "index expressions are python ints, slices with a positive step, lists of python ints; in the wide family also integer "
    "arrays of the eight numpy integer dtypes (1-dimensional), lists of numpy integer scalars, boolean masks (arrays / lists) "
    "and slices with numpy integer bounds, all of which numpy documents as index values and which must select by VALUE; "
    "numpy integer scalars and 0-dimensional arrays are outside the documented TypeSliceIndex: rejecting them with "
    "ValueError / TypeError / IndexError is accepted (counted as wide-numpy-scalar-rejected), a returned container must be "
    "the selection of that single index",
    "wide family: 1 .. 2000 patches / bins; index values within [-n - 50, n + 50] and within the range of their dtype; "
    "CorrData accepts ints and slices only (arrays, lists and masks must be rejected, as in Model/Containers.v: sd_bins)",
    "sums / products of the generated dyadic entries are exact in float64 and compared exactly; "
    "normalised ratios and estimator values are compared with |impl - model| <= 2^-40 (1 + |model|)",
    "ValueError / TypeError / IndexError count as 'rejected with an error'; any other exception "
    "type is reported as a failure of the operator that raised it",
    "interleaved iteration: a cursor is obtained by iter() / for / zip / list on the helper READ FROM THE CONTAINER (x.bins, "
    "x.patches) for every iteration; an Indexer object kept in a variable is an Iterator by its declared type (iter(h) is h) "
    "and is not judged (counted as held-helper-is-its-own-iterator); iter() is not applied a second time to a cursor",
    "interpreter start-up modes explored: default, -O, PYTHONOPTIMIZE=1 (-OO cannot be run: the third-party "
    "dependency treecorr does not import with docstrings stripped)",
]
RULE = ("cases = (container class, shape (bins, patches), auto, members, operator / indexer, scalar or "
        "index expression or kind of second operand, data seed); distinct by that tuple; non-trivial "
        "when the call reaches array arithmetic / indexing on a container with >= 2 bins or >= 2 patches "
        "or is a rejected operand combination; cursor programs = (objects, program over for / zip / map / list / generators "
        "/ iter / next / index / len); non-trivial when at some moment >= 2 unfinished iterations over one helper exist; "
        "wide selections = (class, bins, patches, auto, members, coded / random values, axis, representation of the index, "
        "dtype, layout, index values); non-trivial when the indexed axis has >= 12 entries (from where on the 8-bit types "
        "cannot hold every flat position)")
HEADER = "From Verif Require Import Prelude Containers.\nOpen Scope Q_scope.\n"

REJECT = (ValueError, TypeError, IndexError)
CLS = {"pc": "PatchedCounts", "sw": "PatchedSumWeights", "nc": "NormalisedCounts", "cf": "CorrFunc", "sd": "CorrData"}


# ----------------------------------------------------------------------------------------
# plain-data descriptions (JSON-able) -> real objects
# ----------------------------------------------------------------------------------------
def build(d):
    if d is None:
        return None
    t = d["t"]
    if t == "bin":
        return Binning(d["edges"], closed=d["closed"])
    if t == "pc":
        return PatchedCounts(build(d["bin"]), np.array(d["counts"], dtype=float).reshape(d["shape"]), auto=d["auto"])
    if t == "sw":
        return PatchedSumWeights(build(d["bin"]), np.array(d["sw1"], dtype=float).reshape(d["shape"]),
                                 np.array(d["sw2"], dtype=float).reshape(d["shape"]), auto=d["auto"])
    if t == "nc":
        return NormalisedCounts(build(d["counts"]), build(d["sumw"]))
    if t == "cf":
        return CorrFunc(build(d["dd"]), dr=build(d["dr"]), rd=build(d["rd"]), rr=build(d["rr"]))
    if t == "sd":
        nb = len(d["bin"]["edges"]) - 1
        return CorrData(build(d["bin"]), np.array(d["data"], dtype=float),
                        np.array(d["samples"], dtype=float).reshape((d["nsamples"], nb)))
    raise ValueError(t)


# ----------------------------------------------------------------------------------------
# real objects -> Coq terms
# ----------------------------------------------------------------------------------------
class NonFinite(Exception):
    pass


def _q(x):
    x = float(x)
    if not np.isfinite(x):
        raise NonFinite()
    return fq.q(x)


def _l1(a):
    return fq.lst(a, _q)


def _l2(a):
    return fq.lst(a, _l1)


def _l3(a):
    return fq.lst(a, _l2)


def enc_bin(b):
    return "{| edges := %s; closed_right := %s |}" % (_l1(b.edges), fq.b(str(b.closed) == "right"))


def enc_pc(c):
    return "{| pc_bin := %s; pc_auto := %s; pc_counts := %s |}" % (enc_bin(c.binning), fq.b(bool(c.auto)), _l3(c.counts))


def enc_sw(s):
    return "{| sw_bin := %s; sw_auto := %s; sw1 := %s; sw2 := %s |}" % (
        enc_bin(s.binning), fq.b(bool(s.auto)), _l2(s.sum_weights1), _l2(s.sum_weights2))


def enc_nc(n):
    return "{| nc_counts := %s; nc_sumw := %s |}" % (enc_pc(n.counts), enc_sw(n.sum_weights))


def enc_cf(f):
    return "{| cf_dd := %s; cf_dr := %s; cf_rd := %s; cf_rr := %s |}" % (
        enc_nc(f.dd), fq.opt(f.dr, enc_nc), fq.opt(f.rd, enc_nc), fq.opt(f.rr, enc_nc))


def enc_sd(d):
    return "{| sd_bin := %s; sd_data := %s; sd_samples := %s |}" % (enc_bin(d.binning), _l1(d.data), _l2(d.samples))


def enc_val(o):
    if isinstance(o, PatchedCounts):
        return "(VPC %s)" % enc_pc(o)
    if isinstance(o, PatchedSumWeights):
        return "(VSW %s)" % enc_sw(o)
    if isinstance(o, NormalisedCounts):
        return "(VNC %s)" % enc_nc(o)
    if isinstance(o, CorrFunc):
        return "(VCF %s)" % enc_cf(o)
    if isinstance(o, SampledData):
        return "(VSD %s)" % enc_sd(o)
    raise TypeError("cannot encode %r" % type(o))


def enc_outcome(kind, value):
    if kind == "err":
        return "Err"
    if isinstance(value, (bool, np.bool_)):
        return "(Flag %s)" % fq.b(bool(value))
    if isinstance(value, list):
        return "(Vals %s)" % fq.lst(value, enc_val)
    return "(Val %s)" % enc_val(value)


def enc_sel(s):
    if s[0] == "int":
        return "(SInt %s)" % fq.z(s[1])
    if s[0] == "slice":
        return "(SSlice %s %s %s)" % (fq.opt(s[1], fq.z), fq.opt(s[2], fq.z), fq.nat(1 if s[3] is None else s[3]))
    return "(SList %s)" % fq.zlist(s[1])


def py_sel(s):
    if s[0] == "int":
        return int(s[1])
    if s[0] == "slice":
        return slice(s[1], s[2], s[3])
    return [int(i) for i in s[1]]


def enc_op(op, other_obj):
    k = op["op"]
    if k in ("add", "sum", "sub", "eq", "compat", "iadd", "isub", "accum"):
        # the augmented forms (y = x; y += o / total = 0; total += x; total += o) have the value of
        # the plain operators: the model's containers are immutable values
        return "(%s %s)" % ({"add": "OAdd", "sum": "OSum", "sub": "OSub", "eq": "OEq", "compat": "OCompat",
                             "iadd": "OAdd", "isub": "OSub", "accum": "OSum"}[k], enc_val(other_obj))
    if k in ("mul", "imul"):
        return "(OMul %s)" % fq.q(op["k"])
    if k == "mulbool":
        return "OMulBool"
    if k == "bins":
        return "(OBins %s)" % enc_sel(op["sel"])
    if k == "patches":
        return "(OPatches %s)" % enc_sel(op["sel"])
    if k == "iter_bins":
        return "OIterBins"
    if k == "iter_patches":
        return "OIterPatches"
    if k == "sample":
        return "OSample"
    if k == "bins_sample":
        return "(OBinsSample %s)" % enc_sel(op["sel"])
    if k == "patches_sample":
        return "(OPatchesSample %s)" % enc_sel(op["sel"])
    if k == "mul_sample":
        return "(OMulSample %s)" % fq.q(op["k"])
    raise ValueError(k)


# ----------------------------------------------------------------------------------------
# running one call on the real objects
# ----------------------------------------------------------------------------------------
def scalar(op):
    k, kt = op["k"], op.get("ktype", "float")
    return {"int": int, "float": float, "np.float64": np.float64, "np.int64": np.int64,
            "bool": bool, "np.bool_": np.bool_}[kt](k)


def do_sample(o):
    with np.errstate(all="ignore"):
        return o.sample() if isinstance(o, CorrFunc) else o.sample_patch_sum()


def execute(x, op, other):
    k = op["op"]
    if k == "add":
        return x + other
    if k == "sum":
        return sum([x, other])
    if k == "sub":
        return x - other
    if k == "iadd":
        y = x
        y += other
        return y
    if k == "isub":
        y = x
        y -= other
        return y
    if k == "imul":
        y = x
        y *= scalar(op)
        return y
    if k == "accum":     # the running total every user writes: it starts from 0 and never names x again
        total = 0
        total += x
        total += other
        return total
    if k in ("mul", "mulbool"):
        return x * scalar(op)
    if k == "eq":
        return x == other
    if k == "compat":
        return x.is_compatible(other)
    if k == "bins":
        return x.bins[py_sel(op["sel"])]
    if k == "patches":
        return x.patches[py_sel(op["sel"])]
    if k == "iter_bins":
        return list(x.bins)
    if k == "iter_patches":
        return list(x.patches)
    if k == "sample":
        return do_sample(x)
    if k == "bins_sample":
        return do_sample(x.bins[py_sel(op["sel"])])
    if k == "patches_sample":
        return do_sample(x.patches[py_sel(op["sel"])])
    if k == "mul_sample":
        return do_sample(x * scalar(op))
    raise ValueError(k)


SITE_NAMES = {"__add__", "__radd__", "__sub__", "__mul__", "__eq__", "_make_bin_slice", "_make_patch_slice",
              "is_compatible", "sample_patch_sum", "sample", "get_array", "__next__"}


def failing_site(exc):
    """qualified name of the innermost yaw operator / indexer frame of the traceback."""
    names = []
    tb = exc.__traceback__
    while tb is not None:
        code = tb.tb_frame.f_code
        if "/yaw/" in code.co_filename:
            names.append(getattr(code, "co_qualname", code.co_name))
        tb = tb.tb_next
    for qn in reversed(names):
        parts = qn.split(".")
        if parts[-1] in SITE_NAMES and parts[0] != "Indexer":
            return qn
    return names[-1] if names else "outside-yaw"


def shape_of(op):
    k = op["op"]
    if k in ("iter_bins", "iter_patches"):
        return "iter"
    if "sel" in op:
        return op["sel"][0]
    return ""


def raise_signature(x_t, op, exc):
    site = failing_site(exc)
    et = type(exc).__name__
    shp = shape_of(op)
    if site == "NormalisedCounts.__mul__" and et == "AttributeError":
        return "c17-normalisedcounts-mul-attributeerror"
    if site == "PatchedCounts._make_patch_slice" and et == "ValueError":
        if shp == "iter":
            return "c17-patches-iteration"
        if shp in ("int", "list"):
            return "c17-patchedcounts-patch-slice-" + shp
    if site in ("SampledData.__add__", "SampledData.__sub__") and et == "AttributeError":
        return "c17-sampleddata-%s-closed-kwarg" % site.split(".")[1].strip("_")
    cls, _, fn = site.rpartition(".")
    return "c17-%s-%s-%s%s" % ((cls or CLS[x_t]).lower(), fn.strip("_").replace("_make_", "").replace("_", "-"),
                               et.lower(), ("-" + shp) if shp else "")


# ----------------------------------------------------------------------------------------
# generators
# ----------------------------------------------------------------------------------------
def g_bin(rng, nb, closed=None):
    e = [rng.randrange(0, 8) / 8.0]
    for _ in range(nb):
        e.append(e[-1] + rng.choice([0.125, 0.25, 0.5, 1.0]))
    return dict(t="bin", edges=e, closed=closed or rng.choice(["right", "right", "left"]))


def g_pc(rng, b, P, auto):
    nb = len(b["edges"]) - 1
    zero = rng.random() < 0.15
    c = [0.0 if (zero and rng.random() < 0.6) else rng.randrange(0, 64) / 8.0 for _ in range(nb * P * P)]
    return dict(t="pc", bin=b, auto=auto, shape=[nb, P, P], counts=c)


def g_sw(rng, b, P, auto):
    nb = len(b["edges"]) - 1
    return dict(t="sw", bin=b, auto=auto, shape=[nb, P],
                sw1=[rng.randrange(1, 17) / 4.0 for _ in range(nb * P)],
                sw2=[rng.randrange(1, 17) / 4.0 for _ in range(nb * P)])


def g_nc(rng, b, P, auto, sumw=None):
    return dict(t="nc", counts=g_pc(rng, b, P, auto), sumw=sumw or g_sw(rng, b, P, auto))


MEMBERS = [("dr",), ("rd",), ("dr", "rd"), ("dr", "rr"), ("dr", "rd", "rr"), ("rr",), ("rd", "rr")]


def g_cf(rng, b, P, auto, members=None, like=None):
    members = members if members is not None else rng.choice(MEMBERS)
    d = dict(t="cf", dd=None, dr=None, rd=None, rr=None, members=list(members))
    for m in ("dd",) + tuple(members):
        sw = like[m]["sumw"] if (like is not None and like.get(m)) else None
        d[m] = g_nc(rng, b, P, auto, sumw=copy.deepcopy(sw))
    return d


def g_sd(rng, b, M):
    nb = len(b["edges"]) - 1
    return dict(t="sd", bin=b, nsamples=M, data=[rng.randrange(-64, 65) / 8.0 for _ in range(nb)],
                samples=[rng.randrange(-64, 65) / 8.0 for _ in range(nb * M)])


def g_container(rng, t, nb=None, P=None, auto=None, b=None, members=None):
    nb = nb if nb is not None else rng.choice([1, 2, 2, 3, 3, 4])
    P = P if P is not None else rng.choice([1, 2, 2, 3, 3, 4])
    auto = auto if auto is not None else rng.random() < 0.4
    b = b or g_bin(rng, nb)
    if t == "pc":
        return g_pc(rng, b, P, auto)
    if t == "sw":
        return g_sw(rng, b, P, auto)
    if t == "nc":
        return g_nc(rng, b, P, auto)
    if t == "cf":
        return g_cf(rng, b, P, auto, members)
    return g_sd(rng, b, P)


def dims(d):
    """(bins, patches/samples, auto, binning) of a description"""
    t = d["t"]
    if t == "pc":
        return d["shape"][0], d["shape"][1], d["auto"], d["bin"]
    if t == "sw":
        return d["shape"][0], d["shape"][1], d["auto"], d["bin"]
    if t == "nc":
        return dims(d["counts"])
    if t == "cf":
        return dims(d["dd"])
    return len(d["bin"]["edges"]) - 1, d["nsamples"], False, d["bin"]


def g_other(rng, x, kind):
    """second operand of a binary operator, by kind"""
    t = x["t"]
    nb, P, auto, b = dims(x)
    if kind == "same":
        return copy.deepcopy(x)
    if kind == "values":
        if t == "nc":
            return g_nc(rng, b, P, auto, sumw=copy.deepcopy(x["sumw"]))
        if t == "cf":
            return g_cf(rng, b, P, auto, members=x["members"], like=x)
        return g_container(rng, t, nb, P, auto, b)
    if kind == "auto":
        if t == "cf":
            return g_cf(rng, b, P, not auto, members=x["members"])
        return g_container(rng, t, nb, P, not auto, b)
    if kind == "edges":
        # another binning, from clearly different down to one unit in the last place of one edge
        b2 = copy.deepcopy(b)
        i = rng.randrange(len(b2["edges"]))
        how = rng.choice(["coarse", "1e-6", "1e-9", "ulp-up", "ulp-down"])
        e = b2["edges"][i]
        if how == "coarse":
            b2["edges"][i] = e + 1.0 / 32
        elif how == "1e-6":
            b2["edges"][i] = e + max(abs(e), 0.125) * 2.0 ** -20
        elif how == "1e-9":
            b2["edges"][i] = e + max(abs(e), 0.125) * 2.0 ** -30
        elif how == "ulp-up":
            b2["edges"][i] = float(np.nextafter(e, np.inf))
        else:
            b2["edges"][i] = float(np.nextafter(e, -np.inf))
        return g_container(rng, t, nb, P, auto, b2, members=x.get("members"))
    if kind == "closed":
        b2 = dict(b, closed="left" if b["closed"] == "right" else "right")
        return g_container(rng, t, nb, P, auto, b2, members=x.get("members"))
    if kind == "nbins":
        nb2 = nb + 1 if (nb == 1 or rng.random() < 0.5) else nb - 1
        b2 = dict(t="bin", edges=(b["edges"] + [b["edges"][-1] + 0.5])[:nb2 + 1], closed=b["closed"])
        return g_container(rng, t, nb2, P, auto, b2, members=x.get("members"))
    if kind == "patches":        # the patch axis (for CorrData: the number of samples)
        P2 = rng.choice([p for p in (1, 1, 2, 3, 4) if p != P])
        return g_container(rng, t, nb, P2, auto, b, members=x.get("members"))
    if kind == "sumw":
        if t == "nc":
            return g_nc(rng, b, P, auto)
        return g_cf(rng, b, P, auto, members=x["members"])
    if kind == "extra-member":
        more = [m for m in MEMBERS if set(m) > set(x["members"])]
        return g_cf(rng, b, P, auto, members=rng.choice(more), like=x)
    if kind == "missing-member":
        less = [m for m in MEMBERS if set(m) < set(x["members"])]
        return g_cf(rng, b, P, auto, members=rng.choice(less), like=x)
    if kind == "type":
        t2 = rng.choice([u for u in ("pc", "sw", "nc", "sd") if u != t])
        return g_container(rng, t2, nb, P, auto, b)
    raise ValueError(kind)


def other_kinds(x):
    t = x["t"]
    ks = ["same", "values", "values", "values", "edges", "closed", "nbins", "patches", "patches", "type"]
    if t in ("pc", "sw", "nc", "cf"):
        ks.append("auto")
    if t in ("nc", "cf"):
        ks.append("sumw")
    if t == "cf":
        if any(set(m) > set(x["members"]) for m in MEMBERS):
            ks += ["extra-member", "extra-member"]
        if any(set(m) < set(x["members"]) for m in MEMBERS):
            ks += ["missing-member"]
    return ks


def g_sel(rng, n, axis, t):
    r = rng.random()
    if r < 0.3:
        return ("int", rng.randrange(-n - 1, n + 1))
    if r < 0.7:
        pick = lambda: rng.choice([None, None] + list(range(-n - 1, n + 2)))  # noqa: E731
        return ("slice", pick(), pick(), rng.choice([None, None, None, 1, 2, 3]))
    m = rng.randrange(0, n + 2)
    if axis == "bins" and rng.random() < 0.7:       # increasing lists give a valid binning
        lst = sorted(rng.sample(range(n), min(m, n)))
        if rng.random() < 0.3:
            lst = [i - n for i in lst]
    else:
        lst = [rng.randrange(-n, n) if rng.random() < 0.9 else rng.choice([n, -n - 1]) for _ in range(m)]
    return ("list", lst)


def g_scalar(rng):
    kt = rng.choice(["int", "int", "float", "float", "np.float64", "np.int64"])
    if kt in ("int", "np.int64"):
        return dict(k=rng.choice([-3, -1, 0, 1, 2, 3, 5]), ktype=kt)
    return dict(k=rng.choice([-2.5, -0.5, 0.0, 0.25, 0.5, 1.5, 2.0, 3.0]), ktype=kt)


def g_nonzero_scalar(rng):
    while True:
        s = g_scalar(rng)
        if s["k"] != 0:
            return s


OPS = {
    "pc": ["add", "add", "sum", "mul", "mul", "mulbool", "eq", "compat", "bins", "bins", "patches", "patches",
           "iter_bins", "iter_patches", "sample", "bins_sample", "patches_sample", "mul_sample", "sub", "iadd", "accum", "accum", "imul"],
    "sw": ["add", "mul", "eq", "compat", "bins", "bins", "patches", "patches", "iter_bins", "iter_patches",
           "sample", "bins_sample", "patches_sample"],
    "nc": ["add", "add", "sum", "mul", "mul", "mulbool", "eq", "compat", "bins", "bins", "patches", "patches",
           "iter_bins", "iter_patches", "sample", "bins_sample", "patches_sample", "mul_sample", "iadd", "accum", "accum",
           "imul"],
    "cf": ["add", "add", "add", "mul", "mul", "mulbool", "eq", "compat", "bins", "bins", "patches", "patches",
           "iter_bins", "iter_patches", "sample", "bins_sample", "patches_sample", "mul_sample", "iadd", "imul"],
    "sd": ["add", "add", "sub", "sub", "eq", "compat", "bins", "bins", "bins", "iter_bins", "mul", "iadd", "isub"],
}


def g_case(rng):
    t = rng.choice(["pc", "pc", "sw", "nc", "nc", "cf", "cf", "sd"])
    opk = rng.choice(OPS[t])
    members = None
    if t == "cf" and opk in ("sample", "bins_sample", "patches_sample", "mul_sample"):
        members = rng.choice(MEMBERS[:5] if rng.random() < 0.9 else MEMBERS)
    P = None
    if opk in ("sample", "bins_sample", "mul_sample") and t in ("nc", "cf"):
        P = rng.choice([2, 2, 3, 3, 4])      # one patch: every jackknife normalisation is 0
    x = g_container(rng, t, P=P, members=members)
    nb, P, _, _ = dims(x)
    op = dict(op=opk)
    other = None
    if opk in ("add", "sum", "sub", "eq", "compat", "iadd", "isub", "accum"):
        kind = rng.choice(other_kinds(x))
        op["other_kind"] = kind
        other = g_other(rng, x, kind)
    elif opk in ("mul", "imul"):
        op.update(g_scalar(rng))
    elif opk == "mul_sample":
        op.update(g_nonzero_scalar(rng))
    elif opk == "mulbool":
        op.update(k=rng.choice([True, False]), ktype=rng.choice(["bool", "np.bool_"]))
    elif opk in ("bins", "bins_sample"):
        op["sel"] = g_sel(rng, nb, "bins", t)
    elif opk in ("patches", "patches_sample"):
        op["sel"] = g_sel(rng, P, "patches", t)
        if opk == "patches_sample" and t in ("nc", "cf") and rng.random() < 0.8:
            # mostly selections that keep >= 2 patches (finite jackknife ratios)
            lo = rng.randrange(0, max(1, P - 1))
            op["sel"] = ("slice", lo, rng.choice([None, min(P, lo + 2), P]), None)
    return dict(x=x, op=op, other=other)


def mk_fixed():
    """deterministic probes: one per known defect of the pinned commit, plus boundary cases"""
    b = dict(t="bin", edges=[0.0, 0.5, 1.0, 2.0], closed="right")
    pc = dict(t="pc", bin=b, auto=False, shape=[3, 3, 3], counts=[float(i % 7) + 0.5 * (i % 2) for i in range(27)])
    sw = dict(t="sw", bin=b, auto=False, shape=[3, 3], sw1=[1.0, 2.0, 0.5, 1.5, 1.0, 2.0, 3.0, 0.25, 1.0],
              sw2=[2.0, 1.0, 1.0, 0.5, 4.0, 1.0, 1.0, 2.0, 0.75])
    nc = dict(t="nc", counts=pc, sumw=sw)
    pc2 = dict(pc, counts=[float((3 * i) % 5) + 1.0 for i in range(27)])
    pc3 = dict(pc, counts=[float((5 * i) % 11) + 2.0 for i in range(27)])
    nc2 = dict(t="nc", counts=pc2, sumw=sw)
    nc3 = dict(t="nc", counts=pc3, sumw=sw)
    cf = dict(t="cf", dd=nc, dr=nc2, rd=None, rr=None, members=["dr"])
    cf3 = dict(t="cf", dd=nc, dr=nc2, rd=None, rr=nc3, members=["dr", "rr"])
    sd = dict(t="sd", bin=b, nsamples=3, data=[0.5, -1.0, 2.0], samples=[0.25, -1.0, 2.5, 0.5, -0.75, 2.0, 1.0, -1.25, 1.5])
    out = []
    for x in (nc, cf):
        out.append(dict(x=x, op=dict(op="mul", k=2, ktype="int"), other=None))             # F3
        out.append(dict(x=x, op=dict(op="mul_sample", k=2.0, ktype="float"), other=None))   # F3
    for x in (pc, nc, cf):
        out.append(dict(x=x, op=dict(op="patches", sel=("int", 1)), other=None))            # F4
        out.append(dict(x=x, op=dict(op="patches", sel=("list", [0, 2])), other=None))      # F4
        out.append(dict(x=x, op=dict(op="iter_patches"), other=None))                       # F4
        out.append(dict(x=x, op=dict(op="patches", sel=("slice", 0, 2, None)), other=None))
        out.append(dict(x=x, op=dict(op="patches_sample", sel=("slice", 1, None, None)), other=None))
    out.append(dict(x=sd, op=dict(op="add", other_kind="same"), other=copy.deepcopy(sd)))   # F5
    out.append(dict(x=sd, op=dict(op="sub", other_kind="same"), other=copy.deepcopy(sd)))   # F5
    out.append(dict(x=cf, op=dict(op="add", other_kind="extra-member"), other=cf3))         # members dropped
    out.append(dict(x=cf3, op=dict(op="add", other_kind="missing-member"), other=cf))
    # running totals and augmented assignments leave their operands alone
    out.append(dict(x=pc, op=dict(op="accum", other_kind="values"), other=pc2))
    out.append(dict(x=nc, op=dict(op="accum", other_kind="values"), other=nc2))
    out.append(dict(x=pc, op=dict(op="iadd", other_kind="values"), other=pc2))
    out.append(dict(x=nc, op=dict(op="iadd", other_kind="values"), other=nc2))
    out.append(dict(x=cf, op=dict(op="iadd", other_kind="same"), other=copy.deepcopy(cf)))
    out.append(dict(x=sd, op=dict(op="isub", other_kind="same"), other=copy.deepcopy(sd)))
    out.append(dict(x=nc, op=dict(op="imul", k=2.0, ktype="float"), other=None))
    # nearly equal binnings (one edge off by 2^-30 relative / by one unit in the last place) are other binnings
    def near(x, rel):
        y = copy.deepcopy(x)
        def bump(bd):
            bd["edges"][1] = bd["edges"][1] * (1.0 + rel) if rel else float(np.nextafter(bd["edges"][1], np.inf))
        def walk(d):
            if isinstance(d, dict):
                if d.get("t") == "bin":
                    bump(d)
                else:
                    for v in d.values():
                        walk(v)
        walk(y)
        return y
    for x in (pc, sw, nc, cf, sd):
        for rel in (2.0 ** -30, 0.0):
            out.append(dict(x=x, op=dict(op="eq", other_kind="edges"), other=near(x, rel)))
            out.append(dict(x=x, op=dict(op="compat", other_kind="edges"), other=near(x, rel)))
            out.append(dict(x=x, op=dict(op="add", other_kind="edges"), other=near(x, rel)))
    for x in (pc, sw, nc, cf, sd):
        out.append(dict(x=x, op=dict(op="eq", other_kind="same"), other=copy.deepcopy(x)))
        out.append(dict(x=x, op=dict(op="iter_bins"), other=None))
        out.append(dict(x=x, op=dict(op="bins", sel=("slice", 1, 1, None)), other=None))     # empty: rejected
        out.append(dict(x=x, op=dict(op="bins", sel=("int", 3)), other=None))               # out of range
        out.append(dict(x=x, op=dict(op="bins", sel=("int", -3)), other=None))
        # every single-index selection incl. the negative ones (the last bin as -1, the first as -n)
        for i in (0, 1, 2, -1, -2):
            out.append(dict(x=x, op=dict(op="bins", sel=("int", i)), other=None))
        out.append(dict(x=x, op=dict(op="bins", sel=("slice", -1, None, None)), other=None))
        out.append(dict(x=x, op=dict(op="bins", sel=("slice", -2, -1, None)), other=None))
    for x in (pc, sw, nc, cf):
        for i in (0, 2, -1, -3):
            out.append(dict(x=x, op=dict(op="patches", sel=("int", i)), other=None))
        out.append(dict(x=x, op=dict(op="bins_sample", sel=("int", -1)), other=None))
        out.append(dict(x=x, op=dict(op="patches_sample", sel=("int", -1)), other=None))
    return out


# ----------------------------------------------------------------------------------------
# one case
# ----------------------------------------------------------------------------------------
def canon(case):
    return json.dumps(case, sort_keys=True, default=str)


def evaluate(case):
    """one call on the real objects of the interpreter this runs in (the checking process itself, or a child
    started with other interpreter options: see optimised_probe).  Plain data only:
    dict(kind 'val'/'err', term (Coq term of the case or None when a non-finite value cannot be encoded),
    raised, mutated, restype)"""
    x_d, op, other_d = case["x"], case["op"], case["other"]
    t = x_d["t"]
    x = build(x_d)
    other = build(other_d) if other_d is not None else None
    info = dict(raised=None, mutated=[])
    try:
        before = (enc_val(x), enc_val(other) if other is not None else None)
    except NonFinite:
        before = None
    try:
        res = execute(x, op, other)
        kind = "val"
    except REJECT as e:
        res, kind = None, "err"
        info["raised"] = dict(type=type(e).__name__, msg=str(e)[:200], site=failing_site(e),
                              sig=raise_signature(t, op, e), rejecting=True)
    except Exception as e:  # any other exception type is never a documented rejection
        res, kind = None, "err"
        info["raised"] = dict(type=type(e).__name__, msg=str(e)[:200], site=failing_site(e),
                              sig=raise_signature(t, op, e), rejecting=False,
                              tb=traceback.format_exc()[-1200:])
    exact = not (t in ("nc", "cf") and op["op"] in ("sample", "bins_sample", "patches_sample", "mul_sample"))
    # containers are values: no operator, indexer or sampler may change an operand (the in-place forms
    # x += o may update x itself, never o; a running total started from 0 must not change x either)
    if before is not None:
        try:
            after = (enc_val(x), enc_val(other) if other is not None else None)
        except NonFinite:
            after = (None, None)
        if after[0] != before[0] and op["op"] not in ("iadd", "isub", "imul"):
            info["mutated"].append("first")
        if after[1] != before[1]:
            info["mutated"].append("second")
        x_term, other_term = build(x_d), (build(other_d) if other_d is not None else None)
    else:
        x_term, other_term = x, other
    try:
        term = "c17_case %s %s %s %s" % (fq.b(exact), enc_val(x_term), enc_op(op, other_term), enc_outcome(kind, res))
    except NonFinite:
        term = None
    info.update(kind=kind, term=term, restype=type(res).__name__)
    return info


def one_case(ctx, case, idx):
    """returns (term or None, info)"""
    x_d, op, other_d = case["x"], case["op"], case["other"]
    t = x_d["t"]
    info = evaluate(case)
    info.update(idx=idx, t=t, op=op, case=case)
    term, kind = info["term"], info["kind"]
    if term is None:
        ctx.bump("nonfinite_skipped")
    nb, P, _, _ = dims(x_d)
    nontrivial = (nb >= 2 or P >= 2)
    ctx.count(key=canon(case), nontrivial=nontrivial, kind="%s/%s" % (t, op["op"]))
    if "sel" in op:
        ctx.bump("selector:" + op["sel"][0])
    if "other_kind" in op:
        ctx.bump("other:" + op["other_kind"])
    ctx.bump("impl:" + ("returned" if kind == "val" else "raised:" + info["raised"]["type"]))
    if idx % 97 == 0:
        ctx.sample(dict(x=x_d, op=op, other=other_d,
                        impl=("raised " + info["raised"]["type"]) if kind == "err" else info["restype"]), limit=3)
    return term, info


def judge(ctx, info, c, mode=None):
    """interpret the status code of one case.  mode: None = the outcome observed in the checking process itself;
    '-O' / 'PYTHONOPTIMIZE=1' = the outcome of the same call in an interpreter started that way (judged only
    when it is another outcome than the one of the checking process)"""
    idx, t, op = info["idx"], info["t"], info["op"]
    replay = dict(case=info["case"], code=c, raised=info["raised"])
    sfx, pre = "", ""
    if mode is not None:
        idx = ("optimised", mode, idx)
        replay.update(mode=mode, normal_interpreter=info.get("normal"))
        sfx = ":optimised-interpreter"
        pre = ("in an interpreter started with %s (assert statements are compiled away, __debug__ is False; the same "
               "call in a normal interpreter %s): " % (mode, info.get("normal")))
    cls = CLS[t].lower()
    opn = op["op"].replace("_", "-")
    raised = info["raised"]
    for which in info.get("mutated", []):
        ctx.fail("c17-%s-%s-mutates-%s-operand%s" % (cls, opn, which, sfx),
                 pre + "%s %s changed its %s operand (containers are values; a later use of that operand sees other counts)"
                 % (CLS[t], opn, which), replay, case=idx)
    if raised is not None and not raised["rejecting"]:
        # AttributeError & co.: a defect of the operator, whatever the model expects
        ctx.fail(raised["sig"] + sfx, pre + "%s %s raised %s at %s: %s" % (CLS[t], opn, raised["type"], raised["site"], raised["msg"]),
                 replay, case=idx)
        if c:
            ctx.disagree("Cases_C17", idx, dict(code=c))
        return
    if c == 0:
        return
    if c & 4:
        if raised is None and (c & 3) == 3:
            ctx.fail("c17-%s-%s-malformed-result%s" % (cls, opn, sfx),
                     pre + "%s %s returned a container with inconsistent shapes" % (CLS[t], opn), replay, case=idx)
        ctx.disagree("Cases_C17", idx, dict(code=c, note="well-formedness flag"))
        return
    if c & 8:
        # the model rejects the operands, the implementation returned a result
        if op.get("other_kind") == "extra-member":
            sig = "c17-corrfunc-add-extra-member-dropped"
        else:
            sig = "c17-%s-%s-not-rejected%s" % (cls, opn, (":" + op["other_kind"]) if "other_kind" in op else "")
        ctx.fail(sig + sfx, pre + "%s %s on operands that must be rejected (%s) returned a result"
                 % (CLS[t], opn, op.get("other_kind") or op.get("sel") or op.get("ktype")), replay, case=idx)
        ctx.disagree("Cases_C17", idx, dict(code=c))
        return
    if raised is not None:
        # valid operands (the model and the law give a value) but the call raised
        ctx.fail(raised["sig"] + sfx, pre + "%s %s on valid operands raised %s at %s: %s"
                 % (CLS[t], opn, raised["type"], raised["site"], raised["msg"]), replay, case=idx)
        ctx.disagree("Cases_C17", idx, dict(code=c))
        return
    if c & 2:
        ctx.fail("c17-%s-%s-wrong-result%s" % (cls, opn, sfx),
                 pre + "%s %s: the result differs from what the documented law requires (code %d)" % (CLS[t], opn, c), replay, case=idx)
    ctx.disagree("Cases_C17", idx, dict(code=c))


def run_cases(ctx, cases):
    """-> list of (info, code) of the cases that could be encoded, in order (info['idx'] = position in cases)"""
    terms, infos = [], []
    for idx, case in enumerate(cases):
        term, info = one_case(ctx, case, idx)
        if term is None:
            continue
        terms.append(term)
        infos.append(info)
    codes = ctx.shards("Cases_C17", HEADER, terms, shard=40)
    for info, c in zip(infos, codes):
        if c is None:
            continue
        judge(ctx, info, c)
    return list(zip(infos, codes))


# ----------------------------------------------------------------------------------------
# the rejections the property demands, one per (class, binary operator, kind of incompatible operand), per
# kind of impossible selection and per bool scalar: deterministic structure, contents from the seed
# ----------------------------------------------------------------------------------------
def g_like(rng, x, nb2, P2):
    """a container of the class / auto / members of x with nb2 bins (a prefix / extension of x's edges) and P2 patches"""
    nb, _, auto, b = dims(x)
    e = list(b["edges"])
    while len(e) < nb2 + 1:
        e.append(e[-1] + 0.5)
    return g_container(rng, x["t"], nb2, P2, auto, dict(t="bin", edges=e[:nb2 + 1], closed=b["closed"]), members=x.get("members"))


def rebinned(x, how, i):
    """x itself (same counts, weights, samples) on another binning: edge i moved / the other closed side"""
    y = copy.deepcopy(x)
    done = set()        # a binning shared by the members of a container is one object: moved once

    def walk(d):
        if isinstance(d, dict):
            if d.get("t") == "bin":
                if id(d) in done:
                    return
                done.add(id(d))
                if how == "closed":
                    d["closed"] = "left" if d["closed"] == "right" else "right"
                else:
                    d["edges"][i] = d["edges"][i] + 1.0 / 32
            else:
                for v in d.values():
                    walk(v)
    walk(y)
    return y


def mk_reject_grid(rng):
    out = []
    for t in ("pc", "sw", "nc", "cf", "sd"):
        for opk in [k for k in ("add", "sum", "sub", "iadd", "isub", "accum") if k in OPS[t]]:
            nb, P = rng.choice([2, 3, 4]), rng.choice([2, 3, 4])
            x = g_container(rng, t, nb=nb, P=P, members=rng.choice([("dr", "rd"), ("dr", "rr"), ("rd", "rr")]) if t == "cf" else None)
            add = lambda kind, a, o: out.append(dict(x=a, op=dict(op=opk, other_kind=kind), other=o))  # noqa: E731
            for kind in dict.fromkeys(other_kinds(x)):
                if kind not in ("same", "values"):
                    add(kind, x, g_other(rng, x, kind))
            # the same contents on another binning (nothing but the binning tells the operands apart)
            add("edges", x, rebinned(x, "edges", rng.randrange(nb + 1)))
            add("closed", x, rebinned(x, "closed", 0))
            # shapes numpy would broadcast: one patch / one sample / one bin on either side
            add("patches", x, g_like(rng, x, nb, 1))
            add("patches", g_like(rng, x, nb, 1), x)
            add("nbins", x, g_like(rng, x, 1, P))
            add("nbins", g_like(rng, x, 1, P), x)
    for t in ("pc", "sw", "nc", "cf", "sd"):
        nb, P = rng.choice([2, 3, 4]), rng.choice([2, 3, 4])
        x = g_container(rng, t, nb=nb, P=P)
        for axis, n in (("bins", nb), ("patches", P)):
            if axis == "patches" and t == "sd":
                continue
            k = rng.randrange(n + 1)
            for sel in (("int", n), ("int", -n - 1), ("slice", k, k, None), ("slice", n, None, None), ("slice", None, -n, None),
                        ("list", [n]), ("list", [0, -n - 1]), ("list", [])):
                out.append(dict(x=x, op=dict(op=axis, sel=sel), other=None))
    for t in ("pc", "sw", "nc", "cf", "sd"):
        if "mulbool" in OPS[t]:
            x = g_container(rng, t, nb=rng.choice([2, 3]), P=rng.choice([2, 3]))
            for k in (True, False):
                for kt in ("bool", "np.bool_"):
                    out.append(dict(x=x, op=dict(op="mulbool", k=k, ktype=kt), other=None))
    return out


# ----------------------------------------------------------------------------------------
# the interpreter's optimisation mode: python -O / PYTHONOPTIMIZE=1 compile assert statements (and whatever is
# called inside them) away and set __debug__ to False.  The property does not depend on how the interpreter was
# started: the same calls run in such an interpreter, and every outcome that is not the outcome observed in the
# checking process is judged by the same Coq case.
# ----------------------------------------------------------------------------------------
OPT_SCRIPT = r"""
import json, os, sys, traceback
spec = json.loads(sys.stdin.read())
from props import c17
import yaw
root = os.path.realpath(os.environ["VERIF_REPO_SRC"]) + "/"
out = dict(debug=__debug__, optimize=sys.flags.optimize, tree_ok=os.path.realpath(yaw.__file__).startswith(root), evals=[])
for case in spec["cases"]:
    try:
        out["evals"].append(c17.evaluate(case))
    except Exception:
        out["evals"].append(dict(harness_error=traceback.format_exc()[-1500:]))
print(json.dumps(out))
"""

OPT_MODES = (("-O", ("-O",), {}), ("PYTHONOPTIMIZE=1", (), {"PYTHONOPTIMIZE": "1"}))


def outcome_key(ev):
    r = ev.get("raised")
    return (ev.get("kind"), ev.get("term"), tuple(ev.get("mutated") or ()),
            None if r is None else (r["type"], r["sig"], r["rejecting"]))


def outcome_text(ev):
    r = ev.get("raised")
    return "returned a %s" % ev.get("restype") if r is None else "raised %s at %s" % (r["type"], r["site"])


def optimised_probe(ctx, cases, results, modes=None):
    """cases: case descriptions; results: (info, code) of the same cases in the checking process (run_cases)"""
    import os
    from lib import optmode
    normal = {info["idx"]: (info, c) for info, c in results}
    picked = sorted(normal)
    harness = os.path.dirname(os.path.dirname(os.path.abspath(__file__)))
    env = {"PYTHONPATH": os.environ["VERIF_REPO_SRC"] + os.pathsep + harness, "PYTHONDONTWRITEBYTECODE": "1"}
    for label, flags, extra in OPT_MODES:
        if modes is not None and label not in modes:
            continue
        evs, why = [], ""
        for k in range(0, len(picked), 1500):
            part = picked[k:k + 1500]
            r = optmode.run(OPT_SCRIPT, dict(cases=[cases[i] for i in part]), flags=flags, env_extra=dict(env, **extra), timeout=900)
            res = r.get("result")
            if not (res is not None and res.get("debug") is False and res.get("optimize", 0) >= 1 and res.get("tree_ok")
                    and len(res.get("evals", [])) == len(part)):
                evs, why = None, "rc=%s result=%s %s" % (r.get("rc"), str(res)[:300], r.get("stderr"))
                break
            evs.extend(res["evals"])
        ctx.obligation("optimised-interpreter probe ran (%s)" % label, evs is not None, why)
        if evs is None:
            continue
        terms, infos = [], []
        for i, ev in zip(picked, evs):
            info_n, code_n = normal[i]
            if "harness_error" in ev:
                ctx.obligation("harness:c17-optimised-evaluate(%s, case %d)" % (label, i), False, ev["harness_error"])
                continue
            rejection = info_n["raised"] is not None
            ctx.count(key=("optimised", label, canon(cases[i])), nontrivial=True,
                      kind="optimised-interpreter/%s/%s" % (label, "rejection" if rejection else "result"))
            if outcome_key(ev) == outcome_key(info_n):
                continue        # the same Coq term: the verdict of the checking process stands
            ctx.bump("optimised-interpreter:other-outcome")
            ev.update(idx=i, t=info_n["t"], op=info_n["op"], case=cases[i], normal=outcome_text(info_n))
            if ev.get("term") is None:
                ctx.disagree("Cases_C17_optimised", ("optimised", label, i),
                             dict(note="outcome differs from the normal interpreter on a case with non-finite values",
                                  normal=outcome_text(info_n), optimised=outcome_text(ev)))
                continue
            terms.append(ev["term"])
            infos.append(ev)
        if terms:
            codes = ctx.shards("Cases_C17_opt%d" % [m[0] for m in OPT_MODES].index(label), HEADER, terms, shard=40)
            for ev, c in zip(infos, codes):
                if c is not None:
                    judge(ctx, ev, c, mode=label)


def run(ctx):
    cases = mk_fixed()
    nfixed = len(cases)
    seen = {canon(c) for c in cases}
    for _ in range(ctx.n(1, 4)):
        for c in mk_reject_grid(ctx.rng):
            if canon(c) not in seen:
                seen.add(canon(c))
                cases.append(c)
    ngrid = len(cases) - nfixed
    n = ctx.n(400, 6000) + ngrid
    tries = 0
    while len(cases) < n and tries < 20 * n:
        tries += 1
        c = g_case(ctx.rng)
        k = canon(c)
        if k in seen:
            continue
        seen.add(k)
        cases.append(c)
    ctx.log("cases: %d (fixed probes %d, rejection grid %d)" % (len(cases), nfixed, ngrid))
    results = run_cases(ctx, cases)
    # re-entrant / interleaved use of the helpers of one container object (Model/Cursors.v)
    from props import c17_cursors
    c17_cursors.run(ctx)
    # many patches / bins, index values in every representation (Model/ContainersWide.v)
    from props import c17_wide
    c17_wide.run(ctx)
    ctx.log("checking process done; the same calls with -O / PYTHONOPTIMIZE=1")
    optimised_probe(ctx, cases, results)


def replay(ctx, body):
    rp = body.get("replay", body)
    if rp.get("cursors"):
        from props import c17_cursors
        c17_cursors.replay(ctx, rp)
        return
    if rp.get("wide"):
        from props import c17_wide
        c17_wide.replay(ctx, rp)
        return
    results = run_cases(ctx, [rp["case"]])
    if rp.get("mode"):
        optimised_probe(ctx, [rp["case"]], results, modes=[rp["mode"]])
