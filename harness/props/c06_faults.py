"""C06 (v) - jobs that fail TRANSIENTLY and the NUMBER OF TIMES a job is executed.

Shared by harness/props/c06.py (plans, expectations, single-process reference), harness/props/c06_common.py (the entry
points of the library with a fault plan) and harness/props/c06_driver.py (the same under the fake MPI world).

What is varied here: the EXCEPTION a job raises (every errno of the platform as OSError - Python maps errno to its
subclass: EAGAIN -> BlockingIOError, ETIMEDOUT -> TimeoutError, ECONNRESET -> ConnectionResetError ... -, the exception
classes without errno a "resilient" implementation might treat specially, classes of the standard library, own subclasses of
all of these) and WHEN an execution of a task fails: on the first execution of the task only (`first`), on every execution
(`always`), on given ranks only (`ranks`); before the job body runs or after it has run (`where`).

Every execution of a job is recorded: (episode = number of the iter_unordered call, item = position in its iterable, rank,
how many executions of this item came before, failed?).  The statement that is checked: no item is executed twice; the ranks
raise iff some execution failed, and then the exception (class, errno) that execution raised; without an error every item
was executed; where failing does not depend on the rank the outcome is the single-process one.  Model/DispatchRetry.v."""
import errno
import importlib
import os
import pickle
import re
import threading

MSG = re.compile(r"c06-fault ep=(\d+) item=(\d+) exec=(\d+) rank=(\d+)")


# ------------------------------------------------------------------------------------------
# exception classes of our own (module level: pickled by reference, as a user's job module would be)
# ------------------------------------------------------------------------------------------
class TransientIOError(OSError):
    pass


class StaleFileHandle(OSError):
    pass


class RetryLater(TimeoutError):
    pass


class LostConnection(ConnectionError):
    pass


class OutOfMemory(MemoryError):
    pass


class TryAgain(BlockingIOError):
    pass


class Interrupted(InterruptedError):
    pass


class TemporaryFailure(Exception):
    transient = True
    retry = True


class TransientError(RuntimeError):
    transient = True
    temporary = True


OWN = ["TransientIOError", "StaleFileHandle", "RetryLater", "LostConnection", "OutOfMemory", "TryAgain", "Interrupted",
       "TemporaryFailure", "TransientError"]
# own OSError subclasses also with an errno
OWN_ERRNO = {"TransientIOError": "EIO", "StaleFileHandle": "ESTALE", "RetryLater": "ETIMEDOUT", "LostConnection": "ECONNRESET",
             "TryAgain": "EAGAIN", "Interrupted": "EINTR"}

# the exception types an implementation that wants to be robust against flaky file systems / networks / memory pressure
# would single out (the catalogue is wider than this list; these are guaranteed to be used in every run)
NAMED = ["os:EIO", "os:EAGAIN", "os:ESTALE", "os:EBUSY", "os:ETIMEDOUT", "os:EINTR", "os:ENOMEM", "os:ECONNRESET", "os:EPIPE",
         "os:ENOLCK", "os:ENOSPC", "os:EDEADLK", "os:EMFILE", "os:ENFILE", "os:ETXTBSY", "os:EREMOTEIO", "os:EHOSTUNREACH",
         "os:ENETDOWN", "os:ENOTCONN", "os:ECONNABORTED", "os:ECONNREFUSED", "os:EWOULDBLOCK", "os:EINPROGRESS", "os:EALREADY",
         "os:ENOBUFS", "os:ENOENT", "os:EACCES", "os:EEXIST", "osf:ESTALE", "osf:EIO", "os:noerrno",
         "cls:TimeoutError", "cls:ConnectionError", "cls:ConnectionResetError", "cls:ConnectionAbortedError",
         "cls:ConnectionRefusedError", "cls:BrokenPipeError", "cls:MemoryError", "cls:BlockingIOError", "cls:InterruptedError",
         "cls:EOFError", "cls:BufferError", "cls:RuntimeError", "cls:RecursionError",
         "own:TransientIOError", "own:StaleFileHandle", "own:RetryLater", "own:LostConnection", "own:OutOfMemory",
         "own:TryAgain", "own:Interrupted", "own:TemporaryFailure", "own:TransientError",
         "owne:TransientIOError", "owne:StaleFileHandle", "owne:RetryLater", "owne:TryAgain"]
BUILTIN = ["OSError", "PermissionError", "FileNotFoundError", "FileExistsError", "IsADirectoryError", "NotADirectoryError",
           "ProcessLookupError", "ChildProcessError", "ValueError", "KeyError", "IndexError", "LookupError", "AssertionError",
           "ArithmeticError", "ZeroDivisionError", "OverflowError", "FloatingPointError", "NotImplementedError", "TypeError",
           "AttributeError", "NameError", "ImportError", "ModuleNotFoundError", "UnicodeError", "ReferenceError", "SystemError",
           "ResourceWarning", "UserWarning", "RuntimeWarning", "BytesWarning", "Exception", "EnvironmentError", "IOError"]
DOTTED = ["socket.timeout", "socket.gaierror", "socket.herror", "queue.Empty", "queue.Full", "multiprocessing.TimeoutError",
          "multiprocessing.ProcessError", "multiprocessing.BufferTooShort", "multiprocessing.AuthenticationError",
          "concurrent.futures.TimeoutError", "concurrent.futures.CancelledError", "concurrent.futures.BrokenExecutor",
          "concurrent.futures.process.BrokenProcessPool", "pickle.PicklingError", "pickle.UnpicklingError", "pickle.PickleError",
          "shutil.Error", "shutil.SameFileError", "shutil.ReadError", "zlib.error", "struct.error", "asyncio.TimeoutError",
          "asyncio.CancelledError", "http.client.HTTPException", "http.client.RemoteDisconnected", "ssl.SSLError",
          "numpy.linalg.LinAlgError", "select.error", "binascii.Error", "lzma.LZMAError",
          "subprocess.SubprocessError", "zipfile.BadZipFile", "tarfile.ReadError", "gzip.BadGzipFile", "csv.Error",
          "configparser.Error", "locale.Error", "signal.ItimerError"]


def _resolve(kind):
    """kind -> (class, errno number or None, with filename?) or None"""
    how, _, name = kind.partition(":")
    if how in ("os", "osf"):
        if name == "noerrno":
            return OSError, None, False
        code = getattr(errno, name, None)
        return None if code is None else (OSError, code, how == "osf")
    if how == "cls":
        import builtins
        cls = getattr(builtins, name, None)
    elif how in ("own", "owne"):
        cls = globals().get(name)
        if how == "owne":
            code = getattr(errno, OWN_ERRNO.get(name, ""), None)
            return None if cls is None or code is None else (cls, code, False)
    elif how == "mod":
        mod, _, attr = name.rpartition(".")
        try:
            cls = getattr(importlib.import_module(mod), attr, None)
        except Exception:
            cls = None
    else:
        cls = None
    if not (isinstance(cls, type) and issubclass(cls, Exception)):
        return None       # (BaseExceptions that are not Exceptions - KeyboardInterrupt, SystemExit - are not job errors)
    if issubclass(cls, (StopIteration, StopAsyncIteration, GeneratorExit)):
        return None       # not errors: they END an iteration (also in the single-process run, PEP 479)
    return cls, None, False


def message(ep, item, attempt, rank):
    return "c06-fault ep=%d item=%d exec=%d rank=%d" % (ep, item, attempt, rank)


def make_exc(kind, ep=0, item=0, attempt=0, rank=0):
    """the exception instance a job raises for `kind`; its message names the execution"""
    res = _resolve(kind)
    if res is None:
        raise KeyError("unknown exception kind " + kind)
    cls, code, with_file = res
    msg = message(ep, item, attempt, rank)
    if code is not None:
        text = msg + ": " + os.strerror(code)
        return cls(code, text, "/shared/cache/patch_%d/data.bin" % item) if with_file else cls(code, text)
    return cls(msg)


def describe(err):
    """[class name, message (cut), errno or None] of an exception as a rank sees it"""
    return [type(err).__name__, str(err)[:200], getattr(err, "errno", None) if isinstance(err, OSError) else None]


def planned_class(kind):
    d = describe(make_exc(kind))
    return [d[0], d[2]]


_usable = {}


def usable(kind):
    """the kind exists on this platform, can be constructed, survives pickling (the MPI transport of an exception) with its
    class, arguments and errno, and its message still names the execution afterwards"""
    if kind not in _usable:
        ok = False
        try:
            e = make_exc(kind, 3, 2, 1, 4)
            e2 = pickle.loads(pickle.dumps(e, protocol=pickle.HIGHEST_PROTOCOL))
            m = MSG.search(str(e2))
            ok = (type(e2) is type(e) and describe(e2) == describe(e) and m is not None
                  and [int(x) for x in m.groups()] == [3, 2, 1, 4])
        except Exception:
            ok = False
        _usable[kind] = ok
    return _usable[kind]


def all_kinds():
    """every exception kind of the catalogue that is usable here (deterministic order)"""
    kinds = list(NAMED)
    kinds += ["os:" + errno.errorcode[c] for c in sorted(errno.errorcode)]
    kinds += ["cls:" + n for n in BUILTIN] + ["mod:" + n for n in DOTTED]
    out = []
    for k in kinds:
        if k not in out and usable(k):
            out.append(k)
    return out


def draw_kind(rng, i=None):
    """one exception kind: i given -> the i-th of the named list (so that a run uses all of them), else random over the
    whole catalogue with weight on errno-carrying OSErrors"""
    named = [k for k in NAMED if usable(k)]
    if i is not None:
        return named[i % len(named)]
    r = rng.random()
    if r < 0.35:
        return rng.choice(named)
    if r < 0.6:
        return rng.choice([k for k in all_kinds() if k.startswith("os")])
    return rng.choice(all_kinds())


# ------------------------------------------------------------------------------------------
# plans
# ------------------------------------------------------------------------------------------
class Plan:
    """JSON: {ep: int | None (every iter_unordered call), items: [positions, taken modulo the number of items] | "all",
    kinds: [exception kind per planned item, cyclic], when: first | always | ranks, ranks: [...], where: before | after}"""

    def __init__(self, d):
        self.d = dict(d)
        self.ep = d.get("ep")
        self.items = "all" if d.get("items") == "all" else [int(i) for i in d.get("items", [])]
        self.kinds = list(d.get("kinds") or ["os:EIO"])
        self.when = d.get("when", "first")
        self.ranks = [int(r) for r in d.get("ranks") or []]
        self.where = d.get("where", "before")

    def hits(self, ep, n):
        """positions of the items of episode ep (n items) the plan is about -> {position: kind}"""
        if n <= 0 or (self.ep is not None and ep != self.ep):
            return {}
        out = {}
        for k, i in enumerate(range(n) if self.items == "all" else self.items):
            out.setdefault(i % n, self.kinds[k % len(self.kinds)])
        return out

    def decide(self, ep, item, n, attempt, rank):
        """(does this execution fail?, exception kind)"""
        kind = self.hits(ep, n).get(item)
        if kind is None:
            return False, None
        if self.when == "first":
            return attempt == 0, kind
        if self.when == "always":
            return True, kind
        if self.when == "ranks":
            return rank in self.ranks, kind
        return False, kind

    def rank_independent(self):
        return self.when in ("first", "always")


def draw_plan(rng, size, max_ep=None, kind_index=None):
    how = rng.choice(["one", "one", "one", "first", "last", "some", "all"])
    if how == "one":
        items = [rng.randrange(0, 64)]
    elif how == "first":
        items = [0]
    elif how == "last":
        items = [-1]
    elif how == "some":
        items = sorted(set(rng.randrange(0, 64) for _ in range(rng.choice([2, 3]))))
    else:
        items = "all"
    when = rng.choice(["first", "first", "first", "always", "always", "ranks"])
    ranks = []
    if when == "ranks":
        pool = list(range(size))
        ranks = sorted(rng.sample(pool, rng.randint(1, max(1, size - 1))))
    kinds = [draw_kind(rng, kind_index)] + [draw_kind(rng) for _ in range(rng.choice([0, 0, 0, 1, 2]))]
    ep = None if max_ep is None else rng.randrange(0, max_ep + 1)
    return dict(ep=ep, items=items, kinds=kinds, when=when, ranks=ranks, where=rng.choice(["before", "before", "after"]))


# ------------------------------------------------------------------------------------------
# injection: the job function of an iter_unordered call, wrapped
# ------------------------------------------------------------------------------------------
TAG = "c06-item"


class Injector:
    """per rank a plan (armed for the duration of one request), shared execution counters and log"""

    def __init__(self):
        self.lock = threading.Lock()
        self.plans = {}
        self.count = {}
        self.reset()

    def reset(self):
        with self.lock:
            self.nexec = {}
            self.xlog = []

    def arm(self, rank, plan):
        self.plans[rank] = plan if isinstance(plan, Plan) else Plan(plan)
        self.count[rank] = 0

    def disarm(self, rank):
        self.plans.pop(rank, None)

    def execute(self, plan, ep, item, n, rank, body, on_exec=None):
        """one execution of a job: record it, fail as planned (before or after the body), else return the body's result"""
        with self.lock:
            a = self.nexec.get((ep, item), 0)
            self.nexec[(ep, item)] = a + 1
            failed, kind = plan.decide(ep, item, n, a, rank)
            self.xlog.append([ep, item, rank, a, bool(failed)])
        if on_exec is not None:
            on_exec(rank, ep, item, a, bool(failed))
        if failed and plan.where != "after":
            raise make_exc(kind, ep, item, a, rank)
        res = body()
        if failed:
            raise make_exc(kind, ep, item, a, rank)
        return res

    def wrap(self, func, iterable, kwargs, rank, ep, rank_fn, on_exec=None):
        """(job function, iterable, keyword arguments) of an iter_unordered call with the plan of `rank` in place, or None.
        Items are tagged with their position (the worker ranks get unpickled copies: identity is lost); the binding of
        func_args / func_kwargs / unpack (utils.parallel.ParallelJob) is done here instead."""
        plan = self.plans.get(rank)
        if plan is None:
            return None
        fa = tuple(kwargs.get("func_args") or ())
        fk = dict(kwargs.get("func_kwargs") or {})
        unpack = bool(kwargs.get("unpack", False))
        items = list(iterable) if rank == 0 else []       # (only the root's iterable is consumed under MPI)
        n = len(items)
        tagged = [(TAG, ep, i, n, it) for i, it in enumerate(items)]
        inj = self

        def job(tag):
            _, ep_, i, n_, item = tag
            if unpack:
                body = lambda: func(*item, *fa, **fk)      # noqa: E731
            else:
                body = lambda: func(item, *fa, **fk)       # noqa: E731
            return inj.execute(plan, ep_, i, n_, rank_fn(), body, on_exec)

        kw2 = {k: v for k, v in kwargs.items() if k not in ("func_args", "func_kwargs", "unpack")}
        return job, tagged, kw2


FAULTS = Injector()


def ensure_installed(parallel):
    """single-process runs (the harness process, no MPI): route parallel.iter_unordered through the injector while a plan is
    armed for rank 0.  In the driver process IterTracer (c06_driver) has replaced the attribute already and does the same."""
    cur = parallel.iter_unordered
    if getattr(cur, "_c06_traced", False):
        return
    orig = cur

    def traced(func, iterable, **kwargs):
        if FAULTS.plans.get(0) is None:
            yield from orig(func, iterable, **kwargs)
            return
        ep = FAULTS.count.get(0, 0)
        FAULTS.count[0] = ep + 1
        job, items, kw2 = FAULTS.wrap(func, iterable, kwargs, 0, ep, lambda: 0)
        yield from orig(job, items, **kw2)

    traced._c06_traced = True
    parallel.iter_unordered = traced


def parse_raised(desc):
    """[class name, message, errno] -> (episode, item, execution, rank) named in the message, or None"""
    if not desc or len(desc) < 2:
        return None
    m = MSG.search(str(desc[1]))
    return None if m is None else tuple(int(x) for x in m.groups())
