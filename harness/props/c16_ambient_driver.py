"""C16, ambient state of the interpreter: run in an own interpreter (python -O / -X dev / -W ... / variables set before
the library is imported) by props/c16_ambient.py.  Reads a JSON list of requests (a case of c16_ambient plus one
in-process ambient setting) from stdin, produces the records of the reader route and of the catalog route under that
setting and prints their bit patterns; the parent lays them next to the reference stream of the seed."""
import json
import os
import shutil
import sys


class MiniCtx:
    def __init__(self, workdir):
        self.workdir = workdir


def main():
    reqs = json.load(sys.stdin)
    scratch = os.environ["C16_AMBIENT_SCRATCH"]
    os.makedirs(scratch, exist_ok=True)
    real_stdout = sys.stdout
    try:
        import yaw  # noqa: F401
    except Exception as e:
        real_stdout.write("C16AMB-UNUSABLE %s: %s\n" % (type(e).__name__, str(e)[:200]))
        return
    from props import c16_ambient as amb
    from props import c16 as base
    from yaw.randoms import BoxRandoms
    ctx = MiniCtx(scratch)
    out = []
    for i, req in enumerate(reqs):
        res = {}
        setting = req.get("setting") or {}
        for route in ("reader", "catalog"):
            try:
                with amb.Ambient(setting, os.path.join(scratch, "ambient")):
                    gen = base.new_gen(BoxRandoms, dict(window=req["window"], attrs=req["attrs"], m=req["m"]), req["seed"])
                    chunks = amb.run_route(ctx, req, setting, route, gen, "int_%d_%s" % (i, route))
                names, rows = amb.rows_of(chunks)
                if amb.needs_sort(req, setting, route):
                    rows = sorted(rows)
                res[route] = dict(names=names, rows=amb.hexed(rows))
            except Exception as e:
                import traceback
                res[route] = dict(raised=type(e).__name__, msg=str(e)[:300], traceback=traceback.format_exc()[-1200:],
                                  warning=isinstance(e, Warning), fpe=isinstance(e, FloatingPointError))
        out.append(res)
    shutil.rmtree(scratch, ignore_errors=True)
    real_stdout.write("C16AMB " + json.dumps(out) + "\n")
    real_stdout.flush()


if __name__ == "__main__":
    main()
