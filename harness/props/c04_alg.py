"""C04 on the container algebra (helper of props/c04.py): the estimator applied to the RESULT of CorrFunc arithmetic.

Every other family of c04.py samples a CorrFunc exactly as it was constructed or measured (the call histories make
derived objects, but compare only the container the calls were made ON).  Programs combine first: the CorrFuncs of several
scales are added (cf1 + cf2, sum(cfs[1:], cfs[0]), +=), multiplied by a scalar, restricted with .bins[...] / .patches[...],
written to a file and read back, pickled, copied - and only the result is handed to sample() /
RedshiftData.from_corrfuncs().  The property then speaks about the result: it must hold the same pair-count terms in
the same ROLES (dd stays dd, rr stays rr, missing stays missing) and the documented estimator (Landy-Szalay iff rr is
held, else Davis-Peebles with rd, else dr) must be applied to the role-wise combined counts.

  * expressions: random trees (depth 1-3 quick, up to 4 thorough) over 2-3 leaf CorrFuncs that share binning, patches and
    sums of weights, with the nodes  a + b | sum([b, c], a) | a += b | a * c | a *= c (c a python int / float or a numpy
    float64 / float32 / int64 scalar, values +-2^k, 3, 1.5, rarely 0) | .bins[int | negative int | slice | list | array |
    mask | iteration] | .patches[list in any order | array | slice with any step | mask] | to_file + from_file | pickle |
    copy.copy | copy.deepcopy | from_dict(to_dict());  generated top-down from the selection the root holds, so both
    operands of every sum are compatible; every single node kind once per combination of roles (deterministic part);
  * leaves: hand-built CorrFuncs with dd and EVERY non-empty subset of {dr, rd, rr} (also those for which no estimator
    is defined: the result must still hold the same roles, and sample() must still refuse), auto and cross, the plain /
    magnitude / weight profiles of c04.py; and the CorrFuncs yaw.crosscorrelate / yaw.autocorrelate return for two or
    three scales of one measurement (c04_meas.py catalogs; autocorrelations with RR hold dd+dr+rr), whole or restricted
    to some of their pair counts;
  * refusals: operands that hold different roles, or different sums of weights, must be refused (an exception), never
    silently completed;
  * oracle: the expression itself is handed to Coq with the RAW arrays of the leaves (Model/CorrAlgebra.v: cexpr, eval -
    every operation role by role on counts and weights); c04_alg_case compares sample().data / .samples with the model
    of the code and the documented estimator on the model value (bits 0, 1, 2, 4 as c04_corr_case_x), the arrays the
    result stores with the role-wise combined ones (bit 3) and the roles held (bit 5); c04_alg_nz_case compares
    RedshiftData.from_corrfuncs(cross, ref, unk) of three expressions with w_sp / sqrt(dz^2 w_ss w_pp) of the exact
    model values.  Python-side, after every node the roles the implementation holds are compared with the roles of
    the leaves (which the harness assigned by keyword), which names the operation that re-bound them.
  Props: C04_algebra_expression_keeps_roles, C04_algebra_sum_refuses_mismatch, C04_sample_of_sum, C04_sample_of_multiple,
  C04_term_of_sum / _multiple / _bin_selection, C04_positional_rebinding_id_iff_prefix / _agrees_prefix / _refuted.
"""
import copy as _copy
import os
import pickle as _pickle

import numpy as np

from lib import floatq as fq
from props import _jk_common as jk

HEADER = "From Verif Require Import Prelude Jackknife Estimators CorrAlgebra.\nOpen Scope Q_scope.\n"
ROLES = jk.ALLK
SCALARS = [(2.0, "float"), (0.5, "float"), (3, "int"), (0.25, "float"), (8.0, "np.float64"), (1.5, "float"), (2, "np.int64"),
           (0.5, "np.float32"), (-1.0, "float"), (-2, "int"), (1, "int"), (4.0, "np.float64"), (0.125, "np.float64")]
COPIES = ("file", "pickle", "deepcopy", "copy", "dict")
SINGLE_OPS = ("add", "sum", "iadd", "mul", "imul", "bins", "patches") + COPIES


class Batch(jk.Batch):
    """jk.Batch with the header that knows Model/CorrAlgebra.v"""

    def run(self):
        if not self.items:
            return
        codes = self.ctx.shards(self.name, HEADER, [t for t, _, _ in self.items], shard=self.shard)
        for idx, ((term, handler, replay), c) in enumerate(zip(self.items, codes)):
            if c is None:
                continue
            if c != 0:
                handler(c, "%s#%d" % (self.name, idx), replay)


class OpRaised(Exception):
    def __init__(self, label, err):
        super().__init__("%s: %s: %s" % (label, type(err).__name__, err))
        self.label, self.err = label, err


# ----------------------------------------------------------------------------- index expressions
def py_item(it):
    tag = it[0]
    if tag == "int":
        return int(it[1])
    if tag == "slice":
        return slice(it[1], it[2], it[3])
    if tag == "list":
        return [int(i) for i in it[1]]
    if tag == "array":
        return np.array(it[1], dtype=np.int64)
    if tag == "mask":
        return np.array(it[1], dtype=bool)
    raise KeyError(tag)


def resolve(it, n):
    """the positions an index expression selects on an axis of length n (numpy's own reading of it)"""
    if it[0] == "iter":
        return [int(it[1])]
    return [int(i) for i in np.atleast_1d(np.arange(n)[py_item(it)])]


def item_for(rng, pos, n, single_ok=False, iter_ok=False):
    """an index expression on an axis of length n that selects exactly the positions `pos` (in this order)"""
    m = len(pos)
    cands = [["list", list(pos)], ["array", list(pos)],
             ["list", [p - n if rng.random() < 0.5 else p for p in pos]]]
    if m == 1 and single_ok:
        cands += [["int", pos[0]], ["int", pos[0] - n], ["slice", pos[0], pos[0] + 1, None]]
        if iter_ok:
            cands.append(["iter", pos[0]])
    if m >= 2:
        step = pos[1] - pos[0]
        if step != 0 and all(pos[i + 1] - pos[i] == step for i in range(m - 1)):
            stop = pos[-1] + step
            if step > 0:
                cands += [["slice", pos[0] if (pos[0] or rng.random() < 0.5) else None,
                           stop if (stop < n or rng.random() < 0.5) else None, step if (step != 1 or rng.random() < 0.3) else None]] * 3
            else:
                cands += [["slice", pos[0] if (pos[0] != n - 1 or rng.random() < 0.5) else None, stop if stop >= 0 else None, step]] * 3
    if pos == sorted(set(pos)):
        cands.append(["mask", [i in pos for i in range(n)]])
    rng.shuffle(cands)
    for it in cands:
        try:
            if resolve(it, n) == list(pos):
                return it
        except Exception:  # noqa: BLE001
            continue
    return ["list", list(pos)]


def item_kind(it):
    if it[0] == "slice":
        return "slice" if it[3] in (None, 1) else "slice-step"
    return it[0]


# ----------------------------------------------------------------------------- expression trees
def leaf_wrapped(rng, fam, bins, patches):
    """a leaf restricted to the wanted selection (patches and bins in either order)"""
    B, N = fam["B"], fam["N"]
    node = dict(op="leaf", i=rng.randrange(len(fam["leaves"])))
    steps = []
    if patches != list(range(N)):
        steps.append(("patches", patches, N))
    if bins != list(range(B)):
        steps.append(("bins", bins, B))
    rng.shuffle(steps)
    for op, pos, n in steps:
        node = dict(op=op, item=item_for(rng, pos, n, single_ok=(op == "bins"), iter_ok=(op == "bins")), a=node)
    return node


def gen_tree(rng, fam, depth, bins, patches, budget, force=None):
    """a tree whose value holds the leaf bins `bins` (contiguous, ascending) and the leaf patches `patches` (in this order)"""
    B, N = fam["B"], fam["N"]
    if depth <= 0 or budget[0] <= 0:
        budget[0] -= 1
        return leaf_wrapped(rng, fam, bins, patches)
    op = force or rng.choice(["add", "add", "add", "sum", "iadd", "mul", "mul", "imul", "copy", "copy", "bins", "patches", "leaf"])
    if op == "leaf":
        budget[0] -= 1
        return leaf_wrapped(rng, fam, bins, patches)

    def sub(d=depth - 1, b=bins, p=patches):
        return gen_tree(rng, fam, d if force is None else 0, b, p, budget)
    budget[0] -= 1
    if op in ("add", "iadd"):
        return dict(op=op, a=sub(), b=sub())
    if op == "sum":
        return dict(op="sum", args=[sub() for _ in range(rng.choice([2, 2, 3]))])
    if op in ("mul", "imul"):
        c, ctype = rng.choice(SCALARS) if rng.random() < 0.97 else (0, "int")
        return dict(op=op, c=c, ctype=ctype, a=sub())
    if op in COPIES or op == "copy":
        return dict(op="copy", how=op if op in COPIES else rng.choice(COPIES), a=sub())
    if op == "bins":
        lo, hi = bins[0], bins[-1] + 1
        lo2 = rng.randint(0, lo) if rng.random() < 0.8 else lo
        hi2 = rng.randint(hi, B) if rng.random() < 0.8 else hi
        child = list(range(lo2, hi2))
        pos = [b - lo2 for b in bins]
        return dict(op="bins", item=item_for(rng, pos, len(child), single_ok=True, iter_ok=True), a=sub(b=child))
    if op == "patches":
        extra = [p for p in range(N) if p not in patches]
        rng.shuffle(extra)
        child = list(patches) + extra[:rng.randint(0, len(extra))]
        rng.shuffle(child)
        if child == list(patches) and len(child) > 1 and rng.random() < 0.7:
            child = child[::-1]
        pos = [child.index(p) for p in patches]
        return dict(op="patches", item=item_for(rng, pos, len(child)), a=sub(p=child))
    raise KeyError(op)


def gen_root(rng, fam, plain=False):
    B, N = fam["B"], fam["N"]
    bins, patches = list(range(B)), list(range(N))
    if not plain and B > 1 and rng.random() < 0.35:
        a = rng.randrange(B)
        bins = list(range(a, rng.randint(a + 1, B)))
    if not plain and rng.random() < 0.35:
        patches = rng.sample(range(N), rng.randint(2, N))
    return bins, patches


def node_label(node):
    op = node["op"]
    if op == "copy":
        return "copy:" + node["how"]
    if op in ("bins", "patches"):
        return "%s:%s" % (op, item_kind(node["item"]))
    if op in ("mul", "imul"):
        return "%s:%s" % (op, node["ctype"])
    return op


def tree_ops(node, out=None):
    out = [] if out is None else out
    if node["op"] == "leaf":
        return out
    out.append(node_label(node))
    for ch in ([node["a"]] if "a" in node else []) + ([node["b"]] if "b" in node else []) + node.get("args", []):
        tree_ops(ch, out)
    return out


def tree_text(node):
    op = node["op"]
    if op == "leaf":
        return "cf%d" % node["i"]
    if op == "add":
        return "(%s + %s)" % (tree_text(node["a"]), tree_text(node["b"]))
    if op == "iadd":
        return "(%s += %s)" % (tree_text(node["a"]), tree_text(node["b"]))
    if op == "sum":
        return "sum([%s], %s)" % (", ".join(tree_text(a) for a in node["args"][1:]), tree_text(node["args"][0]))
    if op in ("mul", "imul"):
        return "(%s %s %s(%r))" % (tree_text(node["a"]), "*" if op == "mul" else "*=", node["ctype"], node["c"])
    if op in ("bins", "patches"):
        it = node["item"]
        shown = "iteration #%d" % it[1] if it[0] == "iter" else repr(py_item(it)).replace("\n", "")
        return "%s.%s[%s]" % (tree_text(node["a"]), op, shown)
    inner = tree_text(node["a"])
    return {"file": "from_file(to_file(%s))", "dict": "from_dict(to_dict(%s))", "pickle": "pickle(%s)", "deepcopy": "deepcopy(%s)",
            "copy": "copy(%s)"}[node["how"]] % inner


# ----------------------------------------------------------------------------- the implementation
def scalar(c, ctype):
    return {"float": float, "int": int, "np.float64": np.float64, "np.float32": np.float32, "np.int64": np.int64}[ctype](c)


def held(cf):
    return tuple(k for k in ROLES if getattr(cf, k, None) is not None)


def run_tree(node, leaves, env, note):
    """evaluate the expression with the real containers; note(node label, operands, result) after every operation"""
    from yaw import CorrFunc
    op = node["op"]
    if op == "leaf":
        return leaves[node["i"]]
    if op == "sum":
        args = [run_tree(a, leaves, env, note) for a in node["args"]]
    else:
        a = run_tree(node["a"], leaves, env, note)
        b = run_tree(node["b"], leaves, env, note) if "b" in node else None
    label = node_label(node)
    operands = args if op == "sum" else [x for x in (a, b) if x is not None]
    before = [held(x) for x in operands]
    try:
        if op == "add":
            out = a + b
        elif op == "iadd":
            out = a
            out += b
        elif op == "sum":
            out = sum(args[1:], args[0])
        elif op == "mul":
            out = a * scalar(node["c"], node["ctype"])
        elif op == "imul":
            out = a
            out *= scalar(node["c"], node["ctype"])
        elif op in ("bins", "patches"):
            it = node["item"]
            if it[0] == "iter":
                out = list(a.bins)[it[1]]
            else:
                out = getattr(a, op)[py_item(it)]
        elif node["how"] == "file":
            env["nfile"] = env.get("nfile", 0) + 1
            path = os.path.join(env["dir"], "alg%d.hdf" % env["nfile"])
            try:
                a.to_file(path)
                out = CorrFunc.from_file(path)
            finally:
                if os.path.exists(path):
                    os.remove(path)
        elif node["how"] == "pickle":
            out = _pickle.loads(_pickle.dumps(a))
        elif node["how"] == "deepcopy":
            out = _copy.deepcopy(a)
        elif node["how"] == "copy":
            out = _copy.copy(a)
        else:
            out = CorrFunc.from_dict(a.to_dict())
    except Exception as e:  # noqa: BLE001
        raise OpRaised(label, e) from e
    note(label, before, out)
    return out


# ----------------------------------------------------------------------------- Coq terms
def terms_term(kinds):
    return "(mk_terms %s %s %s %s)" % tuple(jk.opt_pc(kinds.get(k)) for k in ROLES)


def expr_term(node, n_of):
    """n_of(node) -> (number of bins, number of patches) of the operand of a selection"""
    op = node["op"]
    if op == "leaf":
        return "(X_leaf l%d)" % node["i"]
    if op in ("add", "iadd"):
        return "(X_add %s %s)" % (expr_term(node["a"], n_of), expr_term(node["b"], n_of))
    if op == "sum":
        t = expr_term(node["args"][0], n_of)
        for a in node["args"][1:]:
            t = "(X_add %s %s)" % (t, expr_term(a, n_of))
        return t
    if op in ("mul", "imul"):
        return "(X_scale %s %s)" % (fq.q(float(scalar(node["c"], node["ctype"]))), expr_term(node["a"], n_of))
    if op == "bins":
        return "(X_bins %s %s)" % (fq.nlist(resolve(node["item"], n_of(node["a"])[0])), expr_term(node["a"], n_of))
    if op == "patches":
        return "(X_patches %s %s)" % (fq.nlist(resolve(node["item"], n_of(node["a"])[1])), expr_term(node["a"], n_of))
    return "(X_copy %d %s)" % (COPIES.index(node["how"]), expr_term(node["a"], n_of))


def shape_of(fam):
    """node -> (bins, patches) held by its value, from the leaves' shape and numpy's reading of the index expressions"""
    def n_of(node):
        op = node["op"]
        if op == "leaf":
            return fam["B"], fam["N"]
        if op == "sum":
            return n_of(node["args"][0])
        b, n = n_of(node["a"])
        if op == "bins":
            return len(resolve(node["item"], b)), n
        if op == "patches":
            return b, len(resolve(node["item"], n))
        return b, n
    return n_of


def bins_of(fam, node):
    """the leaf bins the value of the expression holds, in order"""
    op = node["op"]
    if op == "leaf":
        return list(range(fam["B"]))
    if op == "sum":
        return bins_of(fam, node["args"][0])
    inner = bins_of(fam, node["a"])
    if op == "bins":
        return [inner[j] for j in resolve(node["item"], len(inner))]
    return inner


def lets(fam):
    return "".join("let l%d := %s in " % (i, terms_term(k)) for i, k in enumerate(fam["leaves"]))


def impl_term(cd):
    return "None" if cd is None else "(Some (%s, %s))" % (jk.oqlist(cd.data), jk.oqmat(cd.samples))


# ----------------------------------------------------------------------------- handlers
def h_alg(ctx):
    def h(c, case, replay):
        sub, text = "+".join(replay["roles"]), replay["text"]
        if c & 64:
            if replay.get("raised_in"):
                ctx.fail("c04-algebra-raises:%s" % replay["raised_in"].split(":")[0], "the expression %s over CorrFuncs holding {%s} raises (%s) "
                         "although every operand is compatible: the role-wise algebra defines its value" % (text, sub, replay["raised"]),
                         replay, case=case)
            else:
                ctx.disagree("c04_alg_case:model-undefined", case, dict(code=c, replay=replay))
            return
        if c & 32:
            ctx.fail("c04-algebra-roles-changed", "the CorrFunc that results from %s holds the pair counts {%s} but its operands hold {%s}: "
                     "the algebra must keep every term in its role (dd stays dd, rr stays rr, missing stays missing)"
                     % (text, "+".join(replay["held"] or []), sub), replay, case=case)
        if c & 8:
            ctx.fail("c04-algebra-stored-counts", "the arrays stored in the CorrFunc that results from %s are not the role-wise combined "
                     "counts / sums of weights of its operands (Model/CorrAlgebra.v: eval)" % text, replay, case=case)
        if not est_defined(replay["roles"]):
            if replay["raised"] is None:
                ctx.fail("c04-algebra-sample-defined-without-terms", "sample() of the result of %s returns a value although its operands hold "
                         "{%s}, for which sample() of a CorrFunc as constructed raises (no estimator is defined)" % (text, sub), replay, case=case)
            return
        if replay["raised"] is not None:
            ctx.fail("c04-algebra-sample-raises", "sample() of the result of %s raises %s; the operands hold {%s}, for which the documented "
                     "estimator is defined" % (text, replay["raised"], sub), replay, case=case)
            return
        if c & 16:
            ctx.fail("c04-algebra-estimator-ignores-rr", "sample().data of the result of %s: the operands hold rr but the value is the estimator "
                     "applied when rr is absent (code %d)" % (text, c), replay, case=case)
        elif c & 2:
            ctx.fail("c04-algebra-estimator-value", "sample().data of the result of %s is not the documented estimator (%s) of the role-wise "
                     "combined counts of operands holding {%s} (code %d)"
                     % (text, "Landy-Szalay (DD-DR-RD+RR)/RR" if "rr" in replay["roles"] else "Davis-Peebles DD/RD-1, else DD/DR-1", sub, c),
                     replay, case=case)
        if c & 4:
            ctx.fail("c04-algebra-estimator-samples", "sample().samples of the result of %s are not the documented estimator of the role-wise "
                     "combined counts without one patch (code %d)" % (text, c), replay, case=case)
        if c & 1 and not c & (2 | 4 | 8 | 16 | 32):
            ctx.disagree("c04_alg_case", case, dict(code=c, replay=replay))
    return h


def est_defined(roles):
    return ("dr" in roles) if "rr" in roles else ("dr" in roles or "rd" in roles)


def h_refusal(ctx):
    def h(c, case, replay):
        if c & 64:
            ctx.disagree("c04_alg_refusal_case:model-defines", case, dict(code=c, replay=replay))
        elif c & 1:
            ctx.fail("c04-algebra-mismatch-accepted:%s" % replay["why"], "%s of CorrFuncs that hold %s returns a CorrFunc holding {%s} instead of "
                     "raising: a missing or incompatible term was silently completed or dropped"
                     % (replay["text"], replay["why_text"], "+".join(replay["held"] or [])), replay, case=case)
    return h


def h_nz(ctx):
    def h(c, case, replay):
        if c & 64:
            ctx.disagree("c04_alg_nz_case:model-undefined", case, dict(code=c, replay=replay))
        elif c & 1:
            ctx.fail("c04-algebra-nz-value", "RedshiftData.from_corrfuncs(%s).data is not w_sp / sqrt(dz^2 w_ss w_pp) of the documented estimators of "
                     "the role-wise combined counts (code %d)" % (replay["text"], c), replay, case=case)
        elif c & 2:
            ctx.fail("c04-algebra-nz-samples", "RedshiftData.from_corrfuncs(%s).samples are not the formula of the value on the jackknife samples "
                     "of the role-wise combined counts (code %d)" % (replay["text"], c), replay, case=case)
    return h


# ----------------------------------------------------------------------------- cases
def role_noter(ctx, fam, tree, replay):
    """after every operation: the roles held must be the roles the harness gave the leaves"""
    want = tuple(fam["roles"])
    seen = set()

    def note(label, before, out):
        ctx.bump("alg-op/%s" % label)
        got = held(out)
        if got != want and any(b == want for b in before) and label not in seen:     # this operation changed them
            seen.add(label)
            op = label.split(":")[0]
            ctx.fail("c04-algebra-roles-changed:%s" % op, "the CorrFunc returned by the operation '%s' inside %s holds the pair counts {%s}; its "
                     "operands hold {%s}: terms were re-bound to other roles (dd stays dd, rr stays rr, missing stays missing)"
                     % (label, tree_text(tree), "+".join(got), "+".join(want)), dict(replay, failed_op=label, held=list(got)))
    return note


def build_leaves(fam):
    return [jk.build_corrfunc(fam["edges"], kinds) for kinds in fam["leaves"]]


def case_alg(ctx, batch, fam, tree, real_leaves=None, origin="built"):
    """one expression: evaluate it with the real containers, sample the result, hand expression + observations to Coq"""
    replay = dict(kind="alg", family=fam_plain(fam), tree=tree, text=tree_text(tree), roles=list(fam["roles"]), raised=None,
                  raised_in=None, held=None, origin=origin)
    leaves = real_leaves if real_leaves is not None else build_leaves(fam)
    env = dict(dir=ctx.workdir)
    os.makedirs(ctx.workdir, exist_ok=True)
    ops = tree_ops(tree)
    kind = "alg/%s/%s/%s/%s" % (origin, "auto" if fam["auto"] else "cross", "+".join(fam["roles"][1:]), fam.get("profile", "plain"))
    try:
        result = jk.quiet(run_tree, tree, leaves, env, role_noter(ctx, fam, tree, replay))
    except OpRaised as e:
        replay["raised_in"], replay["raised"] = e.label, "%s: %s" % (type(e.err).__name__, e.err)
        batch.add("%sc04_alg_refusal_case %s true" % (lets(fam), expr_term(tree, shape_of(fam))), h_alg_refused(ctx), replay)
        ctx.count(key=("alg-raised", repr(replay["family"]), repr(tree)), kind=kind + "/raised")
        return None
    replay["held"] = list(held(result))
    cd = None
    try:
        cd = jk.quiet(result.sample)
    except Exception as e:  # noqa: BLE001
        replay["raised"] = type(e).__name__
    after = jk.cf_state_plain(result)
    term = "%sc04_alg_case %s %s %s" % (lets(fam), expr_term(tree, shape_of(fam)),
                                         "None" if after is None else "(Some %s)" % terms_term(after), impl_term(cd))
    batch.add(term, h_alg(ctx), replay)
    full = cd is not None and jk.all_finite(cd.data) and jk.all_finite(cd.samples)
    ctx.count(key=("alg", repr(replay["family"]), repr(tree)), nontrivial=full or not est_defined(fam["roles"]),
              kind=kind + ("/raises" if cd is None else ""))
    ctx.bump("alg-depth/%d" % depth_of(tree))
    for o in set(ops):
        ctx.bump("alg-tree-with/%s" % o)
    if cd is not None:
        ctx.sample(dict(kind="alg", roles=fam["roles"], expression=replay["text"], data=np.asarray(cd.data).tolist()), limit=9)
    return result


def h_alg_refused(ctx):
    """the implementation raised inside the expression: fine only if the model refuses it too"""
    def h(c, case, replay):
        if c & 64:
            ctx.fail("c04-algebra-raises:%s" % replay["raised_in"].split(":")[0], "the operation '%s' inside %s over CorrFuncs holding {%s} raises "
                     "(%s) although its operands are compatible: the role-wise algebra defines the value"
                     % (replay["raised_in"], replay["text"], "+".join(replay["roles"]), replay["raised"]), replay, case=case)
    return h


def depth_of(node):
    kids = ([node["a"]] if "a" in node else []) + ([node["b"]] if "b" in node else []) + node.get("args", [])
    return 0 if node["op"] == "leaf" else 1 + max(depth_of(k) for k in kids)


def case_refusal(ctx, batch, fam, other, why, how):
    """cf + other where other holds different roles (or different sums of weights): must raise"""
    why_text = {"roles": "different pair counts ({%s} and {%s})" % ("+".join(fam["roles"]), "+".join(k for k in ROLES if other.get(k) is not None)),
                "weights": "the same pair counts but different sums of weights"}[why]
    fam2 = dict(fam, leaves=[fam["leaves"][0], other])
    tree = dict(op=how, a=dict(op="leaf", i=0), b=dict(op="leaf", i=1)) if how != "sum" else \
        dict(op="sum", args=[dict(op="leaf", i=0), dict(op="leaf", i=1)])
    replay = dict(kind="alg-refusal", family=fam_plain(fam2), tree=tree, text=tree_text(tree), why=why, why_text=why_text, how=how, held=None)
    a = jk.build_corrfunc(fam["edges"], fam["leaves"][0])
    b = jk.build_corrfunc(fam["edges"], other)
    raised = True
    try:
        out = jk.quiet(run_tree, tree, [a, b], dict(dir=ctx.workdir), lambda label, before, o: None)
        raised = False
        replay["held"] = list(held(out))
    except OpRaised as e:
        replay["raised"] = "%s: %s" % (type(e.err).__name__, e.err)
        ctx.bump("alg-refusal/%s/%s" % (why, type(e.err).__name__))
    batch.add("%sc04_alg_refusal_case %s %s" % (lets(fam2), expr_term(tree, shape_of(fam2)), fq.b(raised)), h_refusal(ctx), replay)
    ctx.count(key=("alg-refusal", repr(replay["family"]), how), kind="alg-refusal/%s/%s" % (why, how))


def case_alg_nz(ctx, batch, fams, trees, real=None, origin="built"):
    """RedshiftData.from_corrfuncs of three expressions (cross, ref, unk; the latter two optional) with one root selection"""
    names = [n for n in ("cross", "ref", "unk") if fams.get(n) is not None]
    text = ", ".join("%s=%s" % (n, tree_text(trees[n])) for n in names)
    replay = dict(kind="alg-nz", families={n: fam_plain(fams[n]) for n in names}, trees={n: trees[n] for n in names}, text=text, origin=origin)
    os.makedirs(ctx.workdir, exist_ok=True)
    res = {}
    try:
        for n in names:
            leaves = real[n] if real is not None else build_leaves(fams[n])
            res[n] = jk.quiet(run_tree, trees[n], leaves, dict(dir=ctx.workdir), role_noter(ctx, fams[n], trees[n], dict(replay, which=n)))
        nz = jk.quiet(jk.RedshiftData.from_corrfuncs, res["cross"], res.get("ref"), res.get("unk"))
    except Exception as e:  # noqa: BLE001
        err = e.err if isinstance(e, OpRaised) else e
        ctx.count(key=("alg-nz-raised", repr(replay["families"]), repr(replay["trees"])), kind="alg-nz/raised")
        ctx.fail("c04-algebra-nz-raises:%s" % type(err).__name__, "RedshiftData.from_corrfuncs(%s) raised %s: %s" % (text, type(err).__name__, err), replay)
        return
    fam = fams["cross"]
    bins = bins_of(fam, trees["cross"])
    dz = [fam["edges"][b + 1] - fam["edges"][b] for b in bins]

    def let_fam(n):
        return "".join("let %s%d := %s in " % (n[0], i, terms_term(k)) for i, k in enumerate(fams[n]["leaves"]))

    def ex(n):
        if n not in names:
            return "None"
        t = _rename(expr_term(trees[n], shape_of(fams[n])), n[0])
        return t if n == "cross" else "(Some %s)" % t
    term = "%sc04_alg_nz_case %s %s %s %s %s %s" % ("".join(let_fam(n) for n in names), fq.qlist(dz), ex("cross"), ex("ref"), ex("unk"),
                                                    jk.oqlist(nz.data), jk.oqmat(nz.samples))
    batch.add(term, h_nz(ctx), replay)
    ctx.count(key=("alg-nz", repr(replay["families"]), repr(replay["trees"])), nontrivial=jk.all_finite(nz.data),
              kind="alg-nz/%s/%s" % (origin, "+".join(names)))
    ctx.sample(dict(kind="alg-nz", expression=text, nz=np.asarray(nz.data).tolist()), limit=11)


def _rename(term, prefix):
    """leaf variables l<i> -> <prefix><i> (the three families of an n(z) case have their own leaves)"""
    import re
    return re.sub(r"\bl(\d+)\b", lambda m: "%s%s" % (prefix, m.group(1)), term)


# ----------------------------------------------------------------------------- families of leaves
def fam_plain(fam):
    return dict(edges=list(fam["edges"]), B=fam["B"], N=fam["N"], auto=bool(fam["auto"]), roles=list(fam["roles"]),
                profile=fam.get("profile", "plain"), leaves=fam["leaves"], meas=fam.get("meas"))


def more_leaves(rng, base, n, mode):
    """further leaves with the roles and the sums of weights of `base`: counts multiplied entry-wise by small integers (exact for
    every magnitude), or drawn afresh"""
    out = [base]
    some = next(p for p in base.values() if p is not None)
    B, N = len(some["counts"]), len(some["w1"][0])
    for _ in range(n - 1):
        kinds = {}
        for k in ROLES:
            p = base.get(k)
            if p is None:
                kinds[k] = None
                continue
            if mode == "fresh":
                cnt = jk.gen_counts(rng, B, N, rng.choice(["dense", "dyadic", "sparse"]), bool(p["auto"]))
            else:
                mult = np.array([[[rng.choice([0, 1, 1, 2, 3]) for _ in range(N)] for _ in range(N)] for _ in range(B)], dtype=float)
                cnt = np.array(p["counts"], dtype=float) * mult
            kinds[k] = dict(auto=bool(p["auto"]), counts=jk.tolist(cnt), w1=p["w1"], w2=p["w2"])
        out.append(kinds)
    return out


def family_of(rng, spec, nleaves, profile):
    roles = [k for k in ROLES if spec["kinds"][k] is not None]
    mode = "fresh" if profile == "plain" and rng.random() < 0.6 else "multiples"
    return dict(edges=spec["edges"], B=len(spec["edges"]) - 1, N=spec["N"], auto=bool(spec["kinds"]["dd"]["auto"]), roles=roles,
                profile=profile, leaves=more_leaves(rng, spec["kinds"], nleaves, mode))


def gen_family(rng, sub, auto, small, profile=None, shape=None, edges=None):
    from props import c04
    profile = profile or rng.choice(["plain", "plain", "plain", "mag", "weights"])
    if shape is None:
        shape = jk.pick_shape(rng, small)
        if rng.random() < 0.5 and shape[0] == 1:
            shape = (rng.choice([2, 3]), shape[1])
    if edges is None:
        edges = jk.gen_binning(rng, shape[0])
    if profile == "mag":
        spec = c04.gen_corr_mag(rng, sub, auto, shape=shape, edges=edges)
        profile = "mag:" + spec["mag"]["profile"]
    elif profile == "weights":
        spec = c04.gen_corr_wts(rng, sub, auto, shape=shape, edges=edges)
        profile = spec["mag"]["profile"]
    else:
        mode = rng.choice(["dense", "dense", "sparse", "dyadic", "binary"])
        spec = jk.corr_plain(edges, shape[1], jk.gen_corrfunc(rng, shape[0], shape[1], auto, mode, sub))
    return family_of(rng, spec, rng.choice([2, 2, 3]), profile)


# ----------------------------------------------------------------------------- the synthetic part
def single_op_tree(rng, fam, op):
    bins, patches = gen_root(rng, fam, plain=op not in ("bins", "patches"))
    if op == "bins" and fam["B"] > 1:
        a = rng.randrange(fam["B"])
        bins = list(range(a, rng.randint(a + 1, fam["B"])))
        if len(bins) == fam["B"]:
            bins = bins[:-1] if rng.random() < 0.5 else bins[1:]
    if op == "patches":
        patches = rng.sample(range(fam["N"]), rng.randint(2, fam["N"]))
        if patches == list(range(fam["N"])):
            patches.reverse()
    return gen_tree(rng, fam, 1, bins, patches, [8], force=op)


def run_built(ctx):
    """expressions over hand-built CorrFuncs; evaluated in Coq before anything else runs"""
    rng = ctx.rng
    b_alg = Batch(ctx, "Cases_C04_alg", shard=ctx.n(20, 40))
    b_ref = Batch(ctx, "Cases_C04_alg_refusal", shard=60)
    b_nz = Batch(ctx, "Cases_C04_alg_nz", shard=ctx.n(8, 20))
    # every kind of node once for every combination of roles (auto / cross alternating in the quick tier)
    for idx, sub in enumerate(jk.SUBSETS):
        for auto in ((False, True) if not ctx.quick() else (bool(idx % 2),)):
            fam = gen_family(rng, sub, auto, True, profile="plain")
            for op in SINGLE_OPS:
                case_alg(ctx, b_alg, fam, single_op_tree(rng, fam, op))
        fam = gen_family(rng, sub, not bool(idx % 2), True, profile="plain")
        for op in rng.sample(SINGLE_OPS, ctx.n(3, len(SINGLE_OPS))):
            case_alg(ctx, b_alg, fam, single_op_tree(rng, fam, op))
    # random trees: every combination of roles, auto and cross, all profiles
    for rep in range(ctx.n(2, 40)):
        for sub in jk.SUBSETS:
            for auto in (False, True):
                fam = gen_family(rng, sub, auto, ctx.quick() or rng.random() < 0.7)
                depth = rng.choice([1, 2, 2, 3] if ctx.quick() else [1, 2, 2, 3, 3, 4])
                bins, patches = gen_root(rng, fam)
                case_alg(ctx, b_alg, fam, gen_tree(rng, fam, depth, bins, patches, [ctx.n(9, 16)]))
    # refusals: other roles, other sums of weights
    for rep in range(ctx.n(1, 12)):
        for sub in jk.SUBSETS:
            auto = rng.random() < 0.5
            fam = gen_family(rng, sub, auto, True, profile="plain")
            other_sub = rng.choice([s for s in jk.SUBSETS if s != sub])
            mode = rng.choice(["dense", "dyadic"])
            other = jk.corr_plain(fam["edges"], fam["N"], jk.gen_corrfunc(rng, fam["B"], fam["N"], auto, mode, other_sub))["kinds"]
            for k in ROLES:      # the roles both hold share their sums of weights: only the set of roles differs
                if other[k] is not None and fam["leaves"][0][k] is not None:
                    other[k] = dict(other[k], w1=fam["leaves"][0][k]["w1"], w2=fam["leaves"][0][k]["w2"])
            case_refusal(ctx, b_ref, fam, other, "roles", rng.choice(["add", "iadd", "sum"]))
            k = rng.choice(fam["roles"])
            other = {r: (None if p is None else dict(p)) for r, p in fam["leaves"][0].items()}
            w = np.array(other[k]["w1"], dtype=float)
            w[rng.randrange(w.shape[0]), rng.randrange(w.shape[1])] += 1.0
            other[k]["w1"] = jk.tolist(w)
            if other[k]["auto"] and other[k]["w1"] != other[k]["w2"] and fam["leaves"][0][k]["w1"] == fam["leaves"][0][k]["w2"]:
                other[k]["w2"] = other[k]["w1"]
            case_refusal(ctx, b_ref, fam, other, "weights", rng.choice(["add", "sum"]))
    # n(z) of three expressions
    defined = [s for s in jk.SUBSETS if est_defined(s)]
    for rep in range(ctx.n(14, 200)):
        B, N = jk.pick_shape(rng, ctx.quick() or rng.random() < 0.7)
        edges = jk.gen_binning(rng, B)
        profile = rng.choice(["plain", "plain", "plain", "mag"])
        fams = dict(cross=gen_family(rng, rng.choice(defined), False, True, profile=profile, shape=(B, N), edges=edges),
                    ref=gen_family(rng, rng.choice(defined), True, True, profile=profile, shape=(B, N), edges=edges) if rng.random() < 0.75 else None,
                    unk=gen_family(rng, rng.choice(defined), True, True, profile=profile, shape=(B, N), edges=edges) if rng.random() < 0.5 else None)
        bins, patches = gen_root(rng, fams["cross"])
        trees = {n: gen_tree(rng, f, rng.choice([1, 1, 2, 2, 3]), bins, patches, [8]) for n, f in fams.items() if f is not None}
        case_alg_nz(ctx, b_nz, fams, trees)
    ctx.log("algebra: %d expressions over hand-built CorrFuncs, %d refusals, %d redshift estimates; evaluating in Coq"
            % (len(b_alg.items), len(b_ref.items), len(b_nz.items)))
    for b in (b_alg, b_ref, b_nz):
        b.run()
    ctx.log("algebra: hand-built part evaluated")


# ----------------------------------------------------------------------------- measured CorrFuncs
def meas_families(ctx, rng, spec, idx):
    """-> list of (family, real leaves) of one measurement with several scales: per role (cross / ref / unk) the measured
    CorrFuncs of all scales, whole and restricted to some of their pair counts"""
    from yaw import CorrFunc
    from props import c04_meas
    obs = c04_meas.observe(ctx, spec, idx)
    if obs.get("refused") or obs.get("error") or len(obs["scales"]) < 2:
        ctx.bump("alg-meas:refused")
        return []
    out = []
    for role in ("cross", "ref", "unk"):
        cfs = [sc[role] for sc in obs["scales"]]
        if any(c is None for c in cfs):
            continue
        have = [k for k in jk.KINDS if getattr(cfs[0], k) is not None]
        subsets = [tuple(have)]
        smaller = sorted({tuple(k for i, k in enumerate(have) if m & (1 << i)) for m in range(1, 2 ** len(have) - 1)})
        rng.shuffle(smaller)
        subsets += smaller[:2]
        for members in subsets:
            real = [c if tuple(members) == tuple(have) else CorrFunc(c.dd, **{k: getattr(c, k) for k in members}) for c in cfs]
            leaves = [{k: (c04_meas.stored_pc(getattr(c, k)) if k == "dd" or k in members else None) for k in ROLES} for c in cfs]
            leaves = [{k: (None if p is None else jk.pc_plain(p)) for k, p in kinds.items()} for kinds in leaves]
            if not all(jk.all_finite(p["counts"]) and jk.all_finite(p["w1"]) and jk.all_finite(p["w2"]) for kd in leaves for p in kd.values() if p):
                continue
            fam = dict(edges=list(spec["edges"]), B=len(spec["edges"]) - 1, N=int(cfs[0].num_patches), auto=bool(cfs[0].auto),
                       roles=["dd"] + list(members), profile="meas:%s%s" % (role, "" if tuple(members) == tuple(have) else ":subset"),
                       leaves=leaves, meas=dict(spec=spec, role=role, members=list(members)))
            out.append((fam, real, role))
    return out


def meas_spec(rng):
    from props import c04_meas
    spec = c04_meas.random_spec(rng, weights=rng.random() < 0.25)
    rmin = spec["scales"]["rmin"][0]
    rmax = max(spec["scales"]["rmax"])
    k = rng.choice([2, 2, 3])
    spec["scales"] = dict(rmin=[rmin] * k, rmax=[rmax / 4.0, rmax / 2.0, rmax][3 - k:])
    if "ref_rand" in spec["samples"] and (spec.get("ref_auto") is None or rng.random() < 0.5):
        spec["ref_auto"] = dict(count_rr=rng.random() < 0.7)
    spec["subsets"] = []
    spec["tag"] = "alg:" + spec.get("tag", "")
    return spec


def run_measured(ctx):
    """expressions over the CorrFuncs of several scales of real measurements"""
    rng = ctx.rng
    b_alg = Batch(ctx, "Cases_C04_alg_meas", shard=ctx.n(12, 30))
    b_nz = Batch(ctx, "Cases_C04_alg_meas_nz", shard=ctx.n(6, 15))
    nmeas = 0
    for idx in range(ctx.n(8, 80)):
        spec = meas_spec(rng)
        try:
            fams = meas_families(ctx, rng, spec, 9000 + idx)
        except Exception as e:  # noqa: BLE001  a catalog that cannot be created is c04_meas' subject
            ctx.bump("alg-meas:refused:%s" % type(e).__name__)
            continue
        if not fams:
            continue
        nmeas += 1
        whole = {}
        for fam, real, role in fams:
            for rep in range(2 if ":subset" not in fam["profile"] else 1):
                bins, patches = gen_root(rng, fam)
                tree = gen_tree(rng, fam, rng.choice([1, 2, 2, 3]), bins, patches, [8], force=rng.choice(["add", "sum", "mul", None, None]))
                case_alg(ctx, b_alg, fam, tree, real_leaves=real, origin="measured")
            if ":subset" not in fam["profile"] and est_defined(fam["roles"]):
                whole[role] = (fam, real)
        if "cross" in whole:
            fams3 = {n: whole[n][0] if n in whole else None for n in ("cross", "ref", "unk")}
            real3 = {n: whole[n][1] for n in whole}
            bins, patches = gen_root(rng, fams3["cross"])
            trees = {n: gen_tree(rng, f, rng.choice([1, 2]), bins, patches, [6], force=rng.choice(["add", "sum", "mul", None]))
                     for n, f in fams3.items() if f is not None}
            case_alg_nz(ctx, b_nz, fams3, trees, real=real3, origin="measured")
    ctx.log("algebra: %d measurements with several scales, %d expressions, %d redshift estimates" % (nmeas, len(b_alg.items), len(b_nz.items)))
    return b_alg, b_nz


# ----------------------------------------------------------------------------- replay
def replay(ctx, r):
    kind = r["kind"]
    b = Batch(ctx, "Replay_C04_alg")
    if kind == "alg-refusal":
        fam = r["family"]
        case_refusal(ctx, b, dict(fam, leaves=[fam["leaves"][0]]), fam["leaves"][1], r["why"], r["how"])
    elif kind == "alg":
        fam = r["family"]
        real = None
        if fam.get("meas"):
            m = fam["meas"]
            for f, rl, role in meas_families(ctx, ctx.rng, m["spec"], 0):
                if role == m["role"] and f["roles"] == fam["roles"]:
                    fam, real = f, rl
                    break
        case_alg(ctx, b, fam, r["tree"], real_leaves=real, origin=r.get("origin", "built"))
    elif kind == "alg-nz":
        fams = {n: r["families"].get(n) for n in ("cross", "ref", "unk")}
        real = None
        if fams["cross"].get("meas"):
            got = {role: (f, rl) for f, rl, role in meas_families(ctx, ctx.rng, fams["cross"]["meas"]["spec"], 0) if ":subset" not in f["profile"]}
            fams = {n: got[n][0] if fams.get(n) is not None else None for n in fams}
            real = {n: got[n][1] for n in fams if fams[n] is not None}
        case_alg_nz(ctx, b, fams, r["trees"], real=real, origin=r.get("origin", "built"))
    b.run()
