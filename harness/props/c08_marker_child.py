"""Child interpreter of c08_marker.py (runs with PYTHONPATH=$VERIF_REPO_SRC under /venv/bin/python).

    c08_marker_child.py create <spec.json>   build a catalog with spec["n_patches"] patches in spec["dir"]
    c08_marker_child.py open   <spec.json>   open spec["dir"] as the next user would and report what it holds

create: spec = {dir, n_patches, rpp (max records per patch: 1 or 2), seed, overwrite, limit (bytes or null)}.
With a limit the soft RLIMIT_FSIZE is lowered to it immediately before CatalogWriter.finalize runs (the
marker is the last file finalize writes; the patch data files it closes first are a few dozen bytes) and
SIGXFSZ gets its default action back (CPython ignores it at start-up, which would turn the death into an
OSError(EFBIG) inside the library): the write that would make a file longer than the limit kills this process.
One JSON line on stdout: {"ok": true, "finalize_called": k, ...} when the creation returns.
"""
import json
import os
import sys

import numpy as np


def frame(n_patches, rpp, seed):
    """Deterministic data: patch ids 0..n-1, one record each plus (rpp == 2) a second record for a random
    half of the patches; rows in shuffled order."""
    import pandas as pd
    rng = np.random.default_rng(int(seed))
    ids = np.arange(n_patches, dtype=np.int64)
    if rpp >= 2:
        extra = ids[rng.random(n_patches) < 0.5]
        ids = np.concatenate([ids, extra])
    rng.shuffle(ids)
    m = len(ids)
    return pd.DataFrame(dict(ra=rng.uniform(0.0, 360.0, m), dec=rng.uniform(-60.0, 60.0, m),
                             w=rng.uniform(0.5, 2.0, m), patch=ids))


def expected_counts(n_patches, rpp, seed):
    df = frame(n_patches, rpp, seed)
    return np.bincount(df["patch"].to_numpy(), minlength=n_patches).tolist()


def create(spec):
    import logging
    import resource
    import signal
    import yaw
    from yaw.catalog import catalog as ycat
    logging.getLogger("yaw").setLevel(logging.CRITICAL)
    src = os.path.realpath(os.environ.get("PYTHONPATH", "").split(":")[0] or "/")
    assert os.path.realpath(yaw.__file__).startswith(src + "/"), (yaw.__file__, src)

    state = {"finalize": 0}
    limit = spec.get("limit")
    orig = ycat.CatalogWriter.finalize

    def finalize(self):
        state["finalize"] += 1
        if limit is None:
            return orig(self)
        soft, hard = resource.getrlimit(resource.RLIMIT_FSIZE)
        signal.signal(signal.SIGXFSZ, signal.SIG_DFL)
        resource.setrlimit(resource.RLIMIT_FSIZE, (int(limit), hard))
        try:
            return orig(self)
        finally:
            resource.setrlimit(resource.RLIMIT_FSIZE, (soft, hard))
            signal.signal(signal.SIGXFSZ, signal.SIG_IGN)

    ycat.CatalogWriter.finalize = finalize
    df = frame(spec["n_patches"], spec["rpp"], spec["seed"])
    yaw.Catalog.from_dataframe(spec["dir"], df, ra_name="ra", dec_name="dec", weight_name="w",
                               patch_name="patch", overwrite=bool(spec.get("overwrite")), max_workers=1,
                               progress=False, chunksize=len(df) + 1)
    return {"ok": True, "finalize_called": state["finalize"], "rows": len(df)}


def open_(spec):
    import logging
    import yaw
    logging.getLogger("yaw").setLevel(logging.CRITICAL)
    try:
        cat = yaw.Catalog(spec["dir"], max_workers=1)
        ids = [int(i) for i in cat]
        nrec = [int(k) for k in cat.get_num_records()]
        out = {"opened": True, "ids": ids, "num_records": nrec}
        if "n_patches" in spec:  # what the complete catalog of this spec holds, per patch id
            out["expected"] = expected_counts(spec["n_patches"], spec["rpp"], spec["seed"])
        return out
    except BaseException as e:  # noqa: any refusal to open is an outcome
        if isinstance(e, (KeyboardInterrupt, SystemExit)):
            raise
        return {"opened": False, "error": "%s: %s" % (type(e).__name__, str(e)[:300])}


def main():
    mode = sys.argv[1]
    with open(sys.argv[2]) as f:
        spec = json.load(f)
    out = create(spec) if mode == "create" else open_(spec)
    sys.stdout.write(json.dumps(out) + "\n")
    sys.stdout.flush()


if __name__ == "__main__":
    main()
