"""C07, option histories: what a measurement uses must be a function of ITS configuration, not of the configurations
measured before in the same process.

The cache histories of props/c07.py vary binnings and cache contents; here the OPTIONS vary from one measurement to the
next while ONE process stays alive (the harness process itself, which by then has run all other C07 histories):
rmin / rmax (scalar, list, several scales), unit (omitted = kpc, all eight units), rweight (omitted, explicit None,
positive, negative, zero), resolution (omitted, explicit None, 1 ... 200, the documented default 50 spelled out),
cosmology (omitted, None, named, astropy object, custom class), max_workers of the configuration and of the call,
closed side (omitted, right, left), binning (edges, zmin / zmax / num_bins with a method), entry point and roles.
Histories are built from the moves the statement is about: "explicit value, then unset", "one option changed",
"the same value spelled differently", "something else entirely"; the measuring process builds a configuration with
Configuration.create or with modify() on the configuration of the previous step.  Executors: the calling process
itself (YAW_NUM_THREADS=1, whatever max_workers says), the simulated pool of sim/pool.py (in-process workers, pickled
transport, random completion order) and a real forked pool.

Oracle (the statement itself): every measurement is compared bit for bit with the SAME measurement made by a process
that has done nothing else, on caches created for it alone.  That process is a child forked for that one request from
a server interpreter (this file run as a script) which imports the library and never creates a configuration, a
catalog or a measurement itself.  Nothing recorded earlier is used.

Model tie (coq/Model/EffOptions.v, c07_ocase): the options of every step as written (slot = None when unset) and the
result classes of both processes go to Coq, which evaluates (bit 1) lived = fresh at every step and (bit 2) that the
fresh results are a function of the model's effective options `result_key (fill c07_defaults conf)` - unset = default
(resolution 50, kpc, Planck15, right), resolution irrelevant without weighting, worker counts irrelevant.  The model's
`alias_exposed` says at which steps a shared record updated only with the options that are set (AliasShared, refuted
in Proofs/EffOptionsP.v) would use other options: histories with such a step are the non-trivial ones.

When a step differs, the difference is reproduced in processes without history (prefix of the history; the shortest
pair "earlier step, this step") and the option is named by measuring - again in a process without history - this step
with one option replaced by the earlier step's value: if that equals the wrong result, that option of the earlier
measurement was still applied."""
import hashlib
import json
import os
import random
import shutil
import sys
import traceback

os.environ.setdefault("YAW_NUM_THREADS", "1")

import numpy as np  # noqa: E402

CATS = ["D", "U", "R"]
UNITS = ["kpc", "Mpc", "rad", "deg", "arcmin", "arcsec", "kpc/h", "Mpc/h"]          # number 0 = the documented default
FAMILY = {"kpc": "phys", "Mpc": "phys", "kpc/h": "com", "Mpc/h": "com", "rad": "ang", "deg": "ang", "arcmin": "ang",
          "arcsec": "ang"}
# how a template value (kpc for lengths, degrees for angles) is written in a unit
FACTOR = {"kpc": 1.0, "Mpc": 1e-3, "kpc/h": 1.0, "Mpc/h": 1e-3, "deg": 1.0, "rad": float(np.pi / 180.0), "arcmin": 60.0,
          "arcsec": 3600.0}
EDGE_SETS = [[0.2, 0.5, 0.75, 1.0], [0.2, 0.6, 1.0], [0.25, 0.5, 0.75, 1.0], [0.15, 0.4, 0.6, 0.95]]
Z_ON_EDGE = [0.2, 0.25, 0.5, 0.6, 0.75, 1.0]
RWEIGHTS = [-1.0, -0.5, -2.0, 1.0, 0.5, 2.0, 0.0, -1.0, 1.0]
RESOLUTIONS = [1, 2, 3, 5, 8, 12, 20, 33, 49, 50, 51, 100, 200]
COSMOLOGIES = [                      # value number 0 = the documented default (Planck15), however it is spelled
    dict(kind="name", name="Planck15"), dict(kind="object", name="Planck15"),
    dict(kind="name", name="WMAP9"), dict(kind="object", name="Planck18"), dict(kind="name", name="WMAP5"),
    dict(kind="flat", H0=70.0, Om0=0.3), dict(kind="flat", H0=60.0, Om0=0.25), dict(kind="custom", dh=4000.0, q=0.6),
]
SLOT_NAMES = ["rweight", "resolution", "max_workers(configuration)", "max_workers(call)", "unit", "cosmology", "closed",
              "rmin/rmax", "binning", "entry", "data"]
HEADER = "From Verif Require Import Prelude EffOptions.\nOpen Scope Q_scope.\n"


# ---------------------------------------------------------------- shared by both kinds of process
class ToyCosmology:
    """placeholder replaced below by a subclass of yaw's CustomCosmology (kept importable for pickling)"""


def _define_custom():
    global ToyCosmology
    from yaw.cosmology import CustomCosmology

    class ToyCosmology(CustomCosmology):      # noqa: F811
        """a closed-form stand-in: D_C = dh * z / (1 + q z) Mpc, D_A = D_C / (1 + z)"""

        def __init__(self, dh, q):
            self.dh, self.q = float(dh), float(q)

        def comoving_distance(self, z):
            z = np.asarray(z, dtype=np.float64)
            return self.dh * z / (1.0 + self.q * z)

        def angular_diameter_distance(self, z):
            z = np.asarray(z, dtype=np.float64)
            return self.comoving_distance(z) / (1.0 + z)

    ToyCosmology.__module__ = __name__
    ToyCosmology.__qualname__ = "ToyCosmology"


def cosmology_object(spec):
    import astropy.cosmology as ac
    if spec["kind"] == "name":
        return spec["name"]
    if spec["kind"] == "object":
        return getattr(ac, spec["name"])
    if spec["kind"] == "flat":
        return ac.FlatLambdaCDM(H0=spec["H0"], Om0=spec["Om0"])
    if spec["kind"] == "custom":
        if not hasattr(ToyCosmology, "comoving_distance"):
            _define_custom()
        return ToyCosmology(spec["dh"], spec["q"])
    raise ValueError(spec)


def gen_data(dseed):
    """three catalogs on one small field (about 1 x 1 degree, anywhere on the sky) cut into 2 - 4 patches by a grid;
    redshifts generic or exactly on bin edges; optional weights.  Pure function of dseed (python's random only)."""
    prng = random.Random(dseed)
    nx, ny = prng.choice([(2, 1), (2, 2), (3, 1), (2, 2)])
    ra0, dec0 = prng.uniform(5.0, 350.0), prng.uniform(-50.0, 50.0)
    width = 1.0 / max(0.5, float(np.cos(np.deg2rad(dec0))))
    data = {}
    for name, lo, hi in (("D", 110, 170), ("U", 130, 200), ("R", 220, 320)):
        n = prng.randrange(lo, hi)
        cols = dict(ra=[], dec=[], pid=[], z=[], w=[])
        for _ in range(n):
            fx, fy = prng.random(), prng.random()
            cols["ra"].append(ra0 + fx * width)
            cols["dec"].append(dec0 + fy - 0.5)
            cols["pid"].append(min(int(fx * nx), nx - 1) + nx * min(int(fy * ny), ny - 1))
            cols["z"].append(prng.choice(Z_ON_EDGE) if prng.random() < 0.25 else prng.uniform(0.12, 1.08))
            cols["w"].append(prng.uniform(0.5, 2.0))
        data[name] = dict(cols=cols, weights=prng.random() < 0.5)
    return data


def create_catalogs(root, data):
    import pandas as pd
    from yaw import Catalog
    cats = {}
    os.makedirs(root, exist_ok=True)
    for name in CATS:
        d = data[name]
        kw = dict(ra_name="ra", dec_name="dec", redshift_name="z", patch_name="pid", max_workers=1)
        if d["weights"]:
            kw["weight_name"] = "w"
        path = os.path.join(root, name)
        shutil.rmtree(path, ignore_errors=True)
        cats[name] = Catalog.from_dataframe(path, pd.DataFrame({k: np.asarray(v) for k, v in d["cols"].items()}), **kw)
    return cats


def config_kwargs(step):
    """keywords of Configuration.create for the options of a step AS WRITTEN: an omitted option is not passed"""
    kw = dict(step["scales"])          # rmin, rmax [, unit] [, rweight] [, resolution]  (None = explicit None)
    kw.update(step["binning"])         # edges | zmin, zmax, num_bins [, method]
    if "closed" in step:
        kw["closed"] = step["closed"]
    if "cosmology" in step:
        kw["cosmology"] = None if step["cosmology"] is None else cosmology_object(step["cosmology"])
    if "cfg_workers" in step:
        kw["max_workers"] = step["cfg_workers"]
    return kw


def make_config(step):
    from yaw import Configuration
    return Configuration.create(**config_kwargs(step))


def measure(cfg, cats, step):
    import yaw
    e = step["entry"]
    kw = {}
    if "call_workers" in step:
        kw["max_workers"] = step["call_workers"]
    if e["kind"] == "auto":
        return yaw.autocorrelate(cfg, cats[e["data"]], cats[e["rand"]], count_rr=e.get("count_rr", True), **kw)
    kw[e["rand_role"]] = cats[e["rand"]]
    return yaw.crosscorrelate(cfg, cats[e["ref"]], cats[e["unk"]], **kw)


def _bits(a):
    return np.ascontiguousarray(np.asarray(a, dtype="f8")).view("u8").tolist()


def result_bits(cfs):
    out = []
    for cf in cfs:
        for kind in ("dd", "dr", "rd", "rr"):
            nc = getattr(cf, kind)
            out.append(None if nc is None else (list(np.asarray(nc.counts.counts).shape), _bits(nc.counts.counts),
                                                _bits(nc.sum_weights.sum_weights1), _bits(nc.sum_weights.sum_weights2)))
    return out


def digest(obj):
    return hashlib.sha1(json.dumps(obj, sort_keys=True).encode()).hexdigest()[:20]


def outcome(cfg_fn, cats, step):
    """(digest, sum of the DD counts | None, raised type | None): an exception of the library is an outcome like any other"""
    try:
        res = measure(cfg_fn(), cats, step)
        return digest(result_bits(res)), float(sum(np.asarray(cf.dd.counts.counts).sum() for cf in res)), None
    except Exception as e:   # noqa: BLE001
        return digest(["raised", type(e).__name__]), None, "%s: %s" % (type(e).__name__, str(e)[:200])


# ---------------------------------------------------------------- the process without history (server side)
def answer(req):
    """executed by a child forked for this request alone: fresh caches, the given steps one after the other in this
    process (1 worker), nothing else"""
    data = gen_data(req["dseed"])
    root = req["root"]
    try:
        cats = create_catalogs(root, data)
        out = [outcome(lambda s=step: make_config(s), cats, step) for step in req["steps"]]
    finally:
        shutil.rmtree(root, ignore_errors=True)
    return dict(digests=[o[0] for o in out], totals=[o[1] for o in out], raised=[o[2] for o in out])


def serve():
    os.environ["YAW_NUM_THREADS"] = "1"
    real = sys.stdout
    sys.stdout = sys.stderr
    import logging
    import warnings
    warnings.simplefilter("ignore")
    import pandas  # noqa: F401
    import yaw
    logging.getLogger("yaw").setLevel(logging.CRITICAL)
    src = os.environ.get("VERIF_REPO_SRC", "/repo/src")
    assert os.path.realpath(yaw.__file__).startswith(os.path.realpath(src) + "/"), yaw.__file__
    real.write("C07FRESH ready\n")
    real.flush()
    for line in sys.stdin:
        line = line.strip()
        if not line:
            continue
        req = json.loads(line)
        r, w = os.pipe()
        pid = os.fork()
        if pid == 0:        # the process without history
            code = 0
            try:
                os.close(r)
                try:
                    res = dict(id=req["id"], ok=True, pid=os.getpid(), **answer(req))
                except BaseException as e:   # noqa: BLE001
                    res = dict(id=req["id"], ok=False, error=type(e).__name__ + ": " + str(e)[:300],
                               traceback=traceback.format_exc()[-1500:])
                with os.fdopen(w, "w") as fh:
                    fh.write(json.dumps(res))
            except BaseException:   # noqa: BLE001
                code = 1
            finally:
                os._exit(code)
        os.close(w)
        with os.fdopen(r, "r") as fh:
            body = fh.read()
        os.waitpid(pid, 0)
        real.write("C07FRESH " + (body or json.dumps(dict(id=req["id"], ok=False, error="no answer from the child"))) + "\n")
        real.flush()


# ---------------------------------------------------------------- harness side: the farm of reference servers
class Farm:
    def __init__(self, ctx, n):
        import subprocess
        import threading
        from lib import impl
        env = dict(os.environ)
        env["PYTHONPATH"] = os.pathsep.join([impl.REPO_SRC, os.path.dirname(os.path.dirname(os.path.abspath(__file__)))])
        env["VERIF_REPO_SRC"] = impl.REPO_SRC
        env["YAW_NUM_THREADS"] = "1"
        self.ctx = ctx
        self.cv = threading.Condition()
        self.answers, self.errs, self.dead = {}, [], 0
        import queue
        self.procs, self.queues = [], []
        self.next = 0
        self.serial = 0
        for _ in range(n):
            p = subprocess.Popen([sys.executable, "-u", os.path.abspath(__file__)], stdin=subprocess.PIPE, stdout=subprocess.PIPE,
                                 stderr=subprocess.PIPE, text=True, env=env)
            q = queue.Queue()
            self.procs.append(p)
            self.queues.append(q)
            threading.Thread(target=self._pump_out, args=(p,), daemon=True).start()
            threading.Thread(target=self._pump_err, args=(p,), daemon=True).start()
            threading.Thread(target=self._pump_in, args=(p, q), daemon=True).start()

    @staticmethod
    def _pump_in(p, q):
        # requests are written by a thread of their own: a full pipe never holds up the long-lived process
        while True:
            line = q.get()
            try:
                if line is None:
                    p.stdin.close()
                    return
                p.stdin.write(line)
                p.stdin.flush()
            except Exception:   # noqa: BLE001
                return

    def _pump_out(self, p):
        for line in p.stdout:
            if not line.startswith("C07FRESH "):
                continue
            body = line[len("C07FRESH "):].strip()
            if body == "ready":
                continue
            try:
                ans = json.loads(body)
            except ValueError:
                continue
            with self.cv:
                self.answers[ans["id"]] = ans
                self.cv.notify_all()
        with self.cv:
            self.dead += 1
            self.cv.notify_all()

    def _pump_err(self, p):
        for line in p.stderr:
            self.errs.append(line)
            del self.errs[:-40]

    def ask(self, dseed, steps):
        """queue a request: the steps, in this order, in ONE process without history on fresh caches; returns its id"""
        from lib import impl
        self.serial += 1
        rid = "q%d" % self.serial
        root = impl.fresh_dir(self.ctx, "ofresh_%s" % rid)
        q = self.queues[self.next % len(self.queues)]
        self.next += 1
        q.put(json.dumps(dict(id=rid, root=root, dseed=dseed, steps=[reference_step(s) for s in steps])) + "\n")
        return rid

    def get(self, rid, timeout=600):
        import time
        end = time.time() + timeout
        with self.cv:
            while rid not in self.answers:
                if self.dead >= len(self.procs) or time.time() > end:
                    raise RuntimeError("no answer from the reference processes: " + "".join(self.errs[-20:]))
                self.cv.wait(1.0)
            ans = self.answers.pop(rid)
        if not ans.get("ok"):
            raise RuntimeError("reference process failed: %s\n%s" % (ans.get("error"), ans.get("traceback", "")))
        return ans

    def close(self):
        for q in self.queues:
            q.put(None)
        for p in self.procs:
            try:
                p.wait(timeout=30)
            except Exception:   # noqa: BLE001
                p.kill()


def reference_step(step):
    """the measurement of a step by value: who executes it and how the configuration object is obtained is not part of it"""
    return {k: v for k, v in step.items() if k not in ("exec", "maker", "sched")}


# ---------------------------------------------------------------- the options of a step, by value
def slot_values(step):
    """the options of a step as written: one entry per slot of Model/EffOptions.v, None = not set (omitted or None);
    values without a natural number are returned as canonical python values to be numbered by the caller"""
    sc = step["scales"]
    cos = step.get("cosmology")
    if cos is None:
        cosv = None
    elif cos.get("name") == "Planck15":
        cosv = ("default",)
    else:
        cosv = tuple(sorted((k, v) for k, v in cos.items() if k != "kind" or v in ("flat", "custom")))
    b = step["binning"]
    if "edges" in b:
        bv = ("edges", tuple(float(x) for x in b["edges"]))
    else:
        bv = ("range", float(b["zmin"]), float(b["zmax"]), int(b["num_bins"]), b.get("method", "linear"))
    return [
        sc.get("rweight"), sc.get("resolution"), step.get("cfg_workers"), step.get("call_workers"),
        sc.get("unit"), cosv, step.get("closed"),
        (tuple(float(x) for x in np.atleast_1d(sc["rmin"])), tuple(float(x) for x in np.atleast_1d(sc["rmax"]))),
        bv, tuple(sorted(step["entry"].items())), 0,
    ]


def coq_steps(steps):
    from lib import floatq as fq
    tables = {}

    def number(slot, v, first=None):
        t = tables.setdefault(slot, {} if first is None else {first: 0})
        return t.setdefault(v, len(t))

    rows = []
    for step in steps:
        v = slot_values(step)
        row = []
        for k, x in enumerate(v):
            if x is None:
                row.append("None")
            elif k in (0,):
                row.append("(Some (Some %s))" % fq.q(float(x)))
            elif k in (1, 2, 3):
                row.append("(Some (Some %s))" % fq.q(int(x)))
            elif k == 4:
                row.append("(Some (Some %s))" % fq.q(UNITS.index(x)))
            elif k == 5:
                row.append("(Some (Some %s))" % fq.q(number(k, x, ("default",))))
            elif k == 6:
                row.append("(Some (Some %s))" % fq.q({"right": 0, "left": 1}[x]))
            else:
                row.append("(Some (Some %s))" % fq.q(number(k, x)))
        rows.append(fq.lst(row))
    return fq.lst(rows)


def classes(*digest_lists):
    table = {}
    return [[table.setdefault(d, len(table)) for d in lst] for lst in digest_lists]


# ---------------------------------------------------------------- generators
def rand_scales_values(rng, unit):
    """rmin / rmax numbers that make sense in the unit (field of about one degree, redshifts 0.2 - 1)"""
    fam = FAMILY[unit or "kpc"]
    n = rng.choice([1, 1, 1, 2, 3])
    if fam == "ang":
        lo = [rng.uniform(0.002, 0.02) for _ in range(n)]
        hi = [rng.uniform(0.06, 0.3) for _ in range(n)]
    else:
        lo = [float(rng.choice([50, 100, 200, 300, 500])) * rng.choice([1.0, 1.0, 1.25]) for _ in range(n)]
        hi = [float(rng.choice([1000, 2000, 3000, 5000])) * rng.choice([1.0, 1.0, 1.5]) for _ in range(n)]
    f = FACTOR[unit or "kpc"]
    lo, hi = [x * f for x in lo], [x * f for x in hi]
    if n == 1 and rng.random() < 0.7:
        return dict(rmin=lo[0], rmax=hi[0])
    return dict(rmin=lo, rmax=hi)


def rand_unit(rng):
    r = rng.random()
    if r < 0.35:
        return None                      # omitted: kpc
    return rng.choice(UNITS)


def rand_binning(rng):
    if rng.random() < 0.75:
        return dict(edges=list(rng.choice(EDGE_SETS)))
    b = dict(zmin=rng.choice([0.2, 0.25]), zmax=rng.choice([0.9, 1.0]), num_bins=rng.choice([2, 3, 4]))
    m = rng.choice([None, "linear", "comoving", "logspace"])
    if m is not None:
        b["method"] = m
    return b


def rand_entry(rng):
    if rng.random() < 0.5:
        e = dict(kind="auto", data=rng.choice(["D", "U"]), rand="R")
        if rng.random() < 0.25:
            e["count_rr"] = False
        return e
    ref = rng.choice(["D", "U"])
    return dict(kind="cross", ref=ref, unk="U" if ref == "D" else "D", rand="R", rand_role=rng.choice(["ref_rand", "unk_rand"]))


def put(d, key, value, rng, p_explicit_none=0.3):
    """set an optional keyword: a value, an explicit None (sometimes) or nothing at all"""
    d.pop(key, None)
    if value is not None:
        d[key] = value
    elif rng.random() < p_explicit_none:
        d[key] = None


def rand_step(rng):
    unit = rand_unit(rng)
    sc = rand_scales_values(rng, unit)
    if unit is not None:
        sc["unit"] = unit
    put(sc, "rweight", rng.choice(RWEIGHTS) if rng.random() < 0.7 else None, rng)
    put(sc, "resolution", rng.choice(RESOLUTIONS) if rng.random() < 0.5 else None, rng)
    step = dict(entry=rand_entry(rng), scales=sc, binning=rand_binning(rng))
    if rng.random() < 0.5:
        step["closed"] = rng.choice(["left", "right"])
    if rng.random() < 0.5:
        put(step, "cosmology", rng.choice(COSMOLOGIES) if rng.random() < 0.85 else None, rng, 1.0)
    if rng.random() < 0.4:
        put(step, "cfg_workers", rng.choice([1, 2, 3]) if rng.random() < 0.85 else None, rng, 1.0)
    if rng.random() < 0.3:
        put(step, "call_workers", rng.choice([1, 2, 3]) if rng.random() < 0.85 else None, rng, 1.0)
    return step


OPTION_MOVES = ["rweight", "resolution", "unit", "cosmology", "closed", "cfg_workers", "call_workers", "scales", "binning",
                "entry"]


def copy_step(step):
    return json.loads(json.dumps(step))


def explicit_options(step):
    """the options of a step that are set to a value"""
    out = [k for k in ("rweight", "resolution", "unit") if step["scales"].get(k) is not None]
    out += [k for k in ("cosmology", "closed", "cfg_workers", "call_workers") if step.get(k) is not None]
    return out


def unset(step, key, rng):
    """the same step with one option left unset (omitted, or an explicit None where the signature allows None)"""
    s = copy_step(step)
    if key in ("rweight", "resolution"):
        put(s["scales"], key, None, rng, 0.4)
    elif key == "unit":
        # the numbers are re-drawn for the default unit: a length written in degrees is not a sensible length in kpc
        s["scales"].pop("unit", None)
        keep = {k: s["scales"][k] for k in ("rweight", "resolution") if k in s["scales"]}
        s["scales"] = dict(rand_scales_values(rng, None), **keep)
    elif key == "closed":
        s.pop("closed", None)
    else:
        put(s, key, None, rng, 0.4)
    return s


def change_one(step, key, rng):
    """the same step with ONE option drawn again (the unit takes the scale numbers with it)"""
    s = copy_step(step)
    if key == "rweight":
        put(s["scales"], key, rng.choice([w for w in RWEIGHTS if w != s["scales"].get(key)]), rng)
    elif key == "resolution":
        put(s["scales"], key, rng.choice([r for r in RESOLUTIONS if r != s["scales"].get(key)]), rng)
    elif key == "unit":
        unit = rng.choice([u for u in UNITS if u != s["scales"].get("unit")])
        keep = {k: s["scales"][k] for k in ("rweight", "resolution") if k in s["scales"]}
        s["scales"] = dict(rand_scales_values(rng, unit), unit=unit, **keep)
    elif key == "scales":
        unit = s["scales"].get("unit")
        keep = {k: s["scales"][k] for k in ("rweight", "resolution", "unit") if k in s["scales"]}
        s["scales"] = dict(rand_scales_values(rng, unit), **keep)
    elif key == "cosmology":
        s["cosmology"] = rng.choice([c for c in COSMOLOGIES if c != s.get("cosmology")])
    elif key == "closed":
        s["closed"] = {"left": "right", "right": "left"}.get(s.get("closed"), "left")
    elif key in ("cfg_workers", "call_workers"):
        s[key] = rng.choice([w for w in (1, 2, 3) if w != s.get(key)])
    elif key == "binning":
        s["binning"] = rand_binning(rng)
    elif key == "entry":
        s["entry"] = rand_entry(rng)
    return s


def respell(step, rng):
    """the same VALUE written differently: defaults spelled out, a scalar as a list of one, Planck15 by name / object"""
    s = copy_step(step)
    sc = s["scales"]
    k = rng.randrange(6)
    if k == 0 and sc.get("resolution") is None:
        sc["resolution"] = 50
    elif k == 1 and "unit" not in sc:
        sc["unit"] = "kpc"
    elif k == 2 and s.get("cosmology") is None:
        s["cosmology"] = rng.choice(COSMOLOGIES[:2])
    elif k == 3 and "closed" not in s:
        s["closed"] = "right"
    elif k == 4 and not isinstance(sc["rmin"], list):
        sc["rmin"], sc["rmax"] = [sc["rmin"]], [sc["rmax"]]
    else:
        for key in ("rweight", "resolution"):
            if key in sc and sc[key] is None:
                del sc[key]              # explicit None -> omitted
            elif key not in sc:
                sc[key] = None           # omitted -> explicit None
    return s


def with_executor(rng, step, p_here=0.6):
    r = rng.random()
    s = dict(step)
    if r < p_here:
        s["exec"] = "here"
    elif r < p_here + 0.65 * (1 - p_here):
        s["exec"], s["sched"] = "simpool", rng.randrange(10 ** 6)
    else:
        s["exec"] = "realpool"
    s["maker"] = "modify" if rng.random() < 0.3 else "create"
    return s


def rand_history(rng):
    steps = [rand_step(rng)]
    if rng.random() < 0.6 and steps[0]["scales"].get("rweight") is None:
        put(steps[0]["scales"], "rweight", rng.choice(RWEIGHTS), rng)     # weighting on: the resolution matters
    for _ in range(rng.choice([1, 2, 3, 3, 4, 5])):
        prev = steps[-1]
        r = rng.random()
        ex = explicit_options(prev)
        if r < 0.35 and ex:                          # explicit value, then unset
            nxt = unset(prev, rng.choice(ex), rng)
            if rng.random() < 0.3 and explicit_options(nxt):
                nxt = unset(nxt, rng.choice(explicit_options(nxt)), rng)
        elif r < 0.7:                                # one option changed
            nxt = change_one(prev, rng.choice(OPTION_MOVES), rng)
        elif r < 0.8:                                # same value, other spelling
            nxt = respell(prev, rng)
        elif r < 0.9 and len(steps) >= 2:            # back to an earlier configuration
            nxt = copy_step(rng.choice(steps[:-1]))
        else:
            nxt = rand_step(rng)
        steps.append(nxt)
    return [with_executor(rng, reference_step(s)) for s in steps]


def corpus():
    """hand-written two- and three-step histories, one per option: explicit then unset; differing in one option"""
    E = EDGE_SETS[0]
    auto = dict(kind="auto", data="D", rand="R")
    cross = dict(kind="cross", ref="D", unk="U", rand="R", rand_role="ref_rand")

    def st(entry=auto, edges=E, **kw):
        sc = dict(rmin=kw.pop("rmin", 200.0), rmax=kw.pop("rmax", 3000.0))
        for k in ("unit", "rweight", "resolution"):
            if k in kw:
                sc[k] = kw.pop(k)
        return dict(entry=entry, scales=sc, binning=dict(edges=list(edges)), exec=kw.pop("exec", "here"),
                    maker=kw.pop("maker", "create"), **kw)

    return [
        # resolution: explicit, then unset (weighting on) / unset, explicit, unset / two explicit values / explicit None
        [st(cross, rweight=-0.5, resolution=9), st(cross, rweight=-0.5)],
        [st(rweight=1.0), st(rweight=1.0, resolution=3), st(rweight=1.0)],
        [st(rweight=-0.5, resolution=200), st(rweight=-0.5, resolution=5), st(rweight=-0.5, resolution=None)],
        [st(resolution=8), st(cross, rweight=2.0, rmin=[100.0, 400.0], rmax=[1500.0, 4000.0])],   # set without weighting first
        # rweight: set, then unset / negative, positive, unset
        [st(rweight=-1.0), st()],
        [st(cross, rweight=-2.0, resolution=20), st(cross, rweight=0.5, resolution=20), st(cross, resolution=20)],
        # unit: explicit angular, then the default
        [st(unit="arcmin", rmin=0.3, rmax=12.0), st(rmin=300.0, rmax=4000.0)],
        [st(unit="Mpc/h", rmin=0.2, rmax=3.0, rweight=-1.0), st(unit="Mpc", rmin=0.2, rmax=3.0, rweight=-1.0)],
        # cosmology: explicit, then unset (physical scales and a comoving binning depend on it)
        [st(cosmology=dict(kind="name", name="WMAP9")), st()],
        [dict(st(cross, cosmology=dict(kind="flat", H0=60.0, Om0=0.25)), binning=dict(zmin=0.2, zmax=1.0, num_bins=3, method="comoving")),
         dict(st(cross), binning=dict(zmin=0.2, zmax=1.0, num_bins=3, method="comoving"))],
        [st(cosmology=dict(kind="custom", dh=4000.0, q=0.6), unit="kpc/h"), st(unit="kpc/h", cosmology=None)],
        # closed side: left, then unset (redshifts on the edges)
        [st(closed="left"), st()],
        # scales: a list, then a scalar; worker counts: set, then unset (simulated pool, then the process itself)
        [st(rmin=[100.0, 500.0], rmax=[1000.0, 5000.0], rweight=1.0), st(rmin=500.0, rmax=5000.0, rweight=1.0)],
        [st(cfg_workers=2, call_workers=3, exec="simpool", sched=5, rweight=-1.0, resolution=33), st(rweight=-1.0),
         st(cfg_workers=3, exec="realpool", rweight=-1.0)],
        # modify() on the previous configuration
        [st(rweight=2.0, resolution=7), st(rweight=2.0, maker="modify"), st(maker="modify")],
    ]


def histories(ctx, rng):
    out = [dict(dseed=7000 + i, steps=h, origin="corpus/options") for i, h in enumerate(corpus())]
    for _ in range(ctx.n(14, 220)):
        out.append(dict(dseed=rng.randrange(10 ** 6), steps=rand_history(rng), origin="random/options"))
    return out


# ---------------------------------------------------------------- the long-lived process
MAX_POOL = 3


def lived_config(prev, step, ctx):
    """the configuration of a step in the long-lived process: Configuration.create, or modify() on the configuration of
    the previous step when only scale options differ (all five scale options are then passed, unset ones as None)"""
    from lib import impl
    if step.get("maker") == "modify" and prev is not None:
        pstep, pcfg = prev
        same = all(pstep.get(k) == step.get(k) for k in ("binning", "closed", "cosmology", "cfg_workers"))
        if same:
            sc = step["scales"]
            want = impl.Configuration.create(**config_kwargs(step))
            try:      # (the value of a configuration is compared with ==: to_dict() is not defined for custom cosmologies)
                cfg = pcfg.modify(rmin=sc["rmin"], rmax=sc["rmax"], unit=sc.get("unit", "kpc"), rweight=sc.get("rweight"),
                                  resolution=sc.get("resolution"))
                same_value = bool(cfg == want) and cfg.max_workers == want.max_workers
            except Exception:   # noqa: BLE001   what modify() does is C15's subject, not this one's
                ctx.bump("options:modify_raised(create used instead)")
                return want
            if same_value:
                ctx.bump("options:configuration_by_modify")
                return cfg
            ctx.bump("options:modify_gave_another_value(create used instead)")
            return want
    return impl.Configuration.create(**config_kwargs(step))


def lived_outcome(ctx, cats, step, prev):
    from lib import impl
    from sim import pool as simpool
    how = step.get("exec", "here")
    box = {}

    def cfg_fn():
        box["cfg"] = lived_config(prev, step, ctx)
        return box["cfg"]

    try:
        if how == "here":
            impl.set_threads(1)                 # every job of the measurement runs in this process
            out = outcome(cfg_fn, cats, step)
        elif how == "simpool":
            impl.set_threads(MAX_POOL)
            with simpool.patched(simpool.Schedule("random", seed=step.get("sched", 0))):
                out = outcome(cfg_fn, cats, step)
        else:
            impl.set_threads(MAX_POOL)
            out = outcome(cfg_fn, cats, step)
    finally:
        impl.set_threads(1)
    return out, box.get("cfg")


def run_lived(ctx, tag, hist):
    from lib import impl
    root = impl.fresh_dir(ctx, "olived_%s" % tag)
    try:
        cats = create_catalogs(root, gen_data(hist["dseed"]))
        outs, prev = [], None
        for step in hist["steps"]:
            out, cfg = lived_outcome(ctx, cats, step, prev)
            outs.append(out)
            prev = (step, cfg) if cfg is not None else None
    finally:
        shutil.rmtree(root, ignore_errors=True)
    return outs


# ---------------------------------------------------------------- diagnosis of a differing step
NAMED_OPTIONS = [("rweight", "scales"), ("resolution", "scales"), ("unit", "scales"), ("cosmology", None), ("closed", None),
                 ("cfg_workers", None), ("call_workers", None), ("rmin/rmax", "scales"), ("binning", None)]
_MISSING = "<unset>"


def option_value(step, name, where):
    if name == "rmin/rmax":
        return (step["scales"]["rmin"], step["scales"]["rmax"])
    d = step["scales"] if where == "scales" else step
    return d.get(name, _MISSING) if d.get(name) is not None else _MISSING


def with_option(step, name, where, value):
    s = copy_step(reference_step(step))
    if name == "rmin/rmax":
        s["scales"]["rmin"], s["scales"]["rmax"] = value
        return s
    d = s["scales"] if where == "scales" else s
    if value == _MISSING:
        d.pop(name, None)
    else:
        d[name] = value
    return s


def explain(ctx, farm, hist, i, lived_digest, fresh_digest, before=()):
    """reproduce the difference at step i in processes WITHOUT history and name the option that was carried over;
    `before` = the steps the long-lived process ran in EARLIER histories of this family (their options are applied to
    this history's catalogs); returns (signature, text, extra replay fields)"""
    steps, dseed = hist["steps"], hist["dseed"]
    target = steps[i]
    info = {}
    # (1) the whole prefix, every step by the process itself
    pre = farm.get(farm.ask(dseed, steps[:i + 1]))["digests"][-1]
    info["prefix_in_one_fresh_process_differs"] = pre != fresh_digest
    # (2) the shortest history: one earlier step, then this one (latest first)
    witness = None
    earlier, seen = [], set()
    for s_ in list(reversed(steps[:i])) + list(reversed(list(before))):      # latest first
        key = json.dumps(reference_step(s_), sort_keys=True)
        if key not in seen:
            seen.add(key)
            earlier.append(s_)
    for s_ in earlier[:10]:
        try:
            d = farm.get(farm.ask(dseed, [s_, target]))["digests"][-1]
        except RuntimeError:
            continue
        if d != fresh_digest:
            witness = (s_, d)
            break
    if witness is None:
        sig = "c07-measurement-differs-from-fresh-process:after-option-history"
        text = ("none of the last %d distinct earlier steps of the process reproduces the difference as a two-step history in "
                "a process without history (whole prefix of this history in one fresh process %s): the state was left by "
                "older measurements or by the way the steps were executed (%s)" % (len(earlier[:10]), "differs as well" if info["prefix_in_one_fresh_process_differs"] else "agrees with the reference",
                                              [s.get("exec", "here") for s in steps[:i + 1]]))
        return sig, text, info
    first, wrong = witness
    info["two_step_history"] = [reference_step(first), reference_step(target)]
    # (3) which option: this step with ONE option replaced by the earlier step's value, in a process without history
    named = []
    for name, where in NAMED_OPTIONS:
        a, b = option_value(first, name, where), option_value(target, name, where)
        if a == b or a == _MISSING:
            continue
        try:
            d = farm.get(farm.ask(dseed, [with_option(target, name, where, a)]))["digests"][-1]
        except RuntimeError:
            continue
        if d == wrong or d == lived_digest:
            named.append((name, a, b))
    info["options_of_the_earlier_step_still_applied"] = named
    if named:
        what = "+".join(n for n, _, _ in named)
        sig = "c07-option-of-earlier-measurement-still-applied:%s" % what
        text = ("two measurements in one process without other history reproduce it: after a measurement with %s, the "
                "measurement that %s gives bit for bit the result of a fresh process measuring with the EARLIER value(s)"
                % (", ".join("%s=%r" % (n, a) for n, a, _ in named),
                   ", ".join("leaves %s unset (default)" % n if b == _MISSING else "sets %s=%r" % (n, b) for n, _, b in named)))
        return sig, text, info
    sig = "c07-measurement-differs-from-fresh-process:after-one-earlier-measurement"
    text = ("two measurements in one process without other history reproduce it (an earlier step, then this one; see "
            "two_step_history in the replay file), but no single option of the earlier step explains the result")
    return sig, text, info


# ---------------------------------------------------------------- entry points
def run_histories(ctx, hists):
    from lib import impl
    farm = Farm(ctx, ctx.n(3, 6))
    try:
        # every reference is asked for before the long-lived process does anything with the history
        for h in hists:
            h["rids"] = [farm.ask(h["dseed"], [s]) for s in h["steps"]]
        lived = []
        for k, h in enumerate(hists):
            try:
                lived.append(run_lived(ctx, "h%d" % k, h))
            except Exception as e:   # noqa: BLE001
                lived.append(None)
                ctx.fail("c07-option-history-raises:%s" % type(e).__name__,
                         "a history of valid measurements with varying options raised %s: %s" % (type(e).__name__, e),
                         dict(kind="options", dseed=h["dseed"], steps=h["steps"], traceback=traceback.format_exc()[-1500:]),
                         case=("options", k))
        terms, owners = [], []
        explained = 0
        for k, (h, outs) in enumerate(zip(hists, lived)):
            fresh = [farm.get(rid) for rid in h["rids"]]
            if outs is None:
                continue
            fd = [f["digests"][0] for f in fresh]
            ld = [o[0] for o in outs]
            for i, (step, o, f) in enumerate(zip(h["steps"], outs, fresh)):
                ctx.bump("options:exec:%s" % step.get("exec", "here"))
                if f["raised"][0] or o[2]:
                    ctx.bump("options:step_raised(%s)" % (f["raised"][0] or o[2]).split(":")[0])
                if f["totals"][0]:
                    ctx.bump("options:steps_with_pairs")
                if step["scales"].get("rweight") is not None:
                    ctx.bump("options:steps_weighted")
            bad = [i for i in range(len(ld)) if ld[i] != fd[i]]
            for i in bad:
                base = dict(kind="options", dseed=h["dseed"], steps=h["steps"], failing_step=i, origin=h["origin"],
                            lived=dict(sum_dd=outs[i][1], raised=outs[i][2]),
                            fresh=dict(sum_dd=fresh[i]["totals"][0], raised=fresh[i]["raised"][0]))
                what = ("step %d of a history of measurements in ONE process (options vary from step to step: %s) differs bit for "
                        "bit from the same measurement made by a process that has done nothing else, on fresh caches (sum of DD "
                        "counts %r vs %r); " % (i, [sorted(explicit_options(s)) for s in h["steps"][:i + 1]], outs[i][1],
                                                fresh[i]["totals"][0]))
                if explained < 4:
                    explained += 1
                    try:
                        before = [s_ for h2 in hists[:k] for s_ in h2["steps"]]
                        sig, text, info = explain(ctx, farm, h, i, ld[i], fd[i], before)
                    except Exception as e:   # noqa: BLE001
                        sig, text, info = ("c07-measurement-differs-from-fresh-process:after-option-history",
                                           "(diagnosis failed: %s)" % e, {})
                else:
                    sig, text, info = "c07-measurement-differs-from-fresh-process:after-option-history", "(not diagnosed: budget)", {}
                ctx.fail(sig, what + text, dict(base, **info), case=("options", k))
                break     # later steps of the same history follow from the same state
            lc, fc = classes(ld, fd)
            cs = coq_steps(h["steps"])
            from lib import floatq as fq
            terms.append("c07_ocase %s %s %s" % (cs, fq.nlist(lc), fq.nlist(fc)))
            owners.append((k, "case"))
            terms.append("length (filter (fun b : bool => b) (alias_exposed %s))" % cs)
            owners.append((k, "exposed"))
        codes = ctx.shards("Cases_C07_options", HEADER, terms, shard=120)
        exposed = {k: c for (k, what), c in zip(owners, codes) if what == "exposed"}
        for (k, what), c in zip(owners, codes):
            if what != "case" or c is None:
                continue
            h = hists[k]
            if c & 1:
                ctx.obligation("harness:c07-options-shape(case %d)" % k, False, repr(h["steps"]))
            if c & 2 and not any(f["case"] == ("options", k) for f in ctx.failures):
                ctx.obligation("harness:c07-options-lived-vs-fresh(case %d)" % k, False, "Coq sees differing classes, the harness did not")
            if c & 4:
                ctx.disagree("Cases_C07_options", ("options-tie", k),
                             dict(what="two steps with the same effective options by Model/EffOptions.v (unset = default: resolution "
                                       "50, kpc, Planck15, right; resolution irrelevant without weighting; worker counts "
                                       "irrelevant) give different results in processes without history",
                                  dseed=h["dseed"], steps=h["steps"]))
        for k, h in enumerate(hists):
            if lived[k] is None:
                continue
            n_exp = exposed.get(k) or 0
            ctx.count(key=("options", h["dseed"], json.dumps([reference_step(s) for s in h["steps"]], sort_keys=True)),
                      nontrivial=n_exp > 0, kind="options/%s/len%d" % (h["origin"].split("/")[0], len(h["steps"])))
            ctx.bump("options:steps", len(h["steps"]))
            ctx.bump("options:steps_where_a_shared_record_would_use_other_options", n_exp)
            keys = [json.dumps(reference_step(s), sort_keys=True) for s in h["steps"]]
            ctx.bump("options:histories_repeating_a_configuration", int(len(set(keys)) < len(keys)))
        ctx.sample(dict(kind="options", history=hists[-1]["steps"], dseed=hists[-1]["dseed"]), limit=5)
    finally:
        farm.close()
        impl.set_threads(1)


def run(ctx):
    rng = random.Random(ctx.rng.randrange(2 ** 32))
    run_histories(ctx, histories(ctx, rng))


def replay(ctx, spec):
    run_histories(ctx, [dict(dseed=spec["dseed"], steps=spec["steps"], origin=spec.get("origin", "replay/options"))])


if __name__ == "__main__":
    serve()
