"""C14 — spherical geometry primitives are accurate everywhere on the sphere.

Tie: the real `AngularCoordinates(...).to_3d()`, `.from_3d`, `.distance`, `.mean` and
`AngularDistances.to_3d / from_3d` are run on sampled inputs (uniform on the sphere, both
poles, RA = 0 / 2 pi wrap, separations 1e-12 ... pi - 1e-9, near-degenerate means).  Inputs
and float results are turned into exact rationals and one Coq goal per sample

    Rabs (model x - y) <= bound x

is generated against the real-valued model of coq/Model/Sphere.v.  The inverse functions are
eliminated by the lemmas of coq/Proofs/SphereP.v (sep_hav_close, angle_close, dec_close,
ra_close, ...), so what is left contains only sin, cos, sqrt, PI and rational literals and is
closed by `interval with (i_prec 100)`.  A goal that does not close is re-checked atom by
atom at i_prec 200 / 400 together with its strict negation (…_far lemmas): refuted = failure
of the property on that input, neither proved nor refuted = `undecided` (reported, no alarm).

Float bounds (u = 2^-53; `cond(d, s) = 4 d / max(s, sqrt d)` is the conditioning of an inverse
sine / cosine whose argument carries the absolute error d where the derivative is s):
  to_3d            |x - cos ra cos dec| <= 6u |x| + 2^-300, same for y; |z - sin dec| <= 4u |z| + 2^-300
  AD.to_3d         |c - 2 sin(d/2)|     <= 4u |c| + 2^-300
  AD.from_3d       |a - 2 asin(c/2)|    <= 4u |a| + 2^-300
  distance         |t - sep|            <= 2^-50 t + cond(2^-50, cos(t/2))
                   (4.4e-15 absolute for ordinary pairs, growing to 1.2e-7 at the antipode)
  from_3d          chord on the unit circle between returned and exact RA
                                         <= 2^-50 + cond(2^-51, |sin ra|)   (1.2e-7 at ra = 0, pi)
                   |dec - asin(z/r)|    <= 2^-51 + cond(2^-51, cos dec)     (1.2e-7 at the poles)
  mean (n points)  as from_3d plus 2 (n+4) u / (horizontal norm of the mean vector) for RA and
                   2 (n+4) u / (norm of the mean vector) for Dec; means with norm < 2^-20 are
                   counted as degenerate and not compared
Round trips (Q): AD d -> chord -> angle within 2^-51 d + cond(2^-51, cos(d/2)); chord -> angle
-> chord within 2^-50 c; sky -> xyz -> sky within 2^-49 + cond(2^-50, |sin ra|) on the circle
and 2^-50 + cond(2^-50, cos dec).  RA range: 0 <= ra < float(2 pi) and ra < 2 * pi_lo (40-digit
rational lower bound of pi, Proofs/SphereP.v:pi_enclosure).  Order: sorted distinct inputs give
non-decreasing chords / angles (exact rational comparison, Qleb).

Input representations (repr_checks): the positions / distances / vectors are also handed over as float32 and
float16 arrays (values on that grid), big-endian arrays, integer / bool arrays, long double, every memory layout
(strided and column views, Fortran order, negative strides, read-only, unaligned), python lists / tuples of
python floats, ints and numpy scalars, pandas objects, and a single point / distance as a 1-d object, scalar or
0-d array.  Every accepted representation must give, bit for bit, the float64 array that the same values give as
a contiguous native float64 array (except with a long double operand, which may be computed on in extended
precision: only the bounds are required); a difference is reported as a disagreement and decided by the interval goal of
the differing rows on the OBSERVED output (signature c14-accuracy:<fn>/input-<class>), and the goal is generated
for at least one case per function and class anyway.  The values a container holds are compared with the source
values in Coq (c14_repr_case: equal as rationals, source of its format, held of binary64); Props/C14.v proves that
promotion of binary16 / binary32 / integers to binary64 is the identity on values (and that narrowing is not).
A representation the implementation refuses (exception) is counted, not reported.
"""
import math
import os
import re
from concurrent.futures import ThreadPoolExecutor
from fractions import Fraction

import numpy as np

from lib import coqrun
from lib import floatq as fq
from lib import impl

ALLOWED_AXIOMS = ["sig_forall_dec", "sig_not_dec", "functional_extensionality_dep", "classic"]
TRUSTED = [
    "Interval tactic (coq-interval, `interval with (i_prec p)`) closes the generated goals; its proofs rest on the "
    "primitive-integer axioms of Coq's standard library (Uint63.* / PrimInt63.*, through Bignums) in addition to the four "
    "real-number axioms; the exact list printed for SphereP.pi_enclosure is recorded in coverage.interval_axioms each run",
    "libm / numpy trigonometric kernels are exercised, not modelled: accuracy is certified pointwise on the sampled inputs only",
    "numpy np.average / np.column_stack / broadcasting (mean of the 3-d vectors) are exercised, not modelled",
    "numpy dtype conversion (astype / asarray to float64) is exercised, not modelled; the model says what it must be on values (identity)",
]
ASSUMPTIONS = [
    "float bounds, u = 2^-53, cond(d,s) = 4d/max(s,sqrt d): to_3d 6u|x|,6u|y|,4u|z| (+2^-300); AngularDistances.to_3d 4u|c|; "
    "AngularDistances.from_3d 4u|a|; distance 2^-50 t + cond(2^-50, cos(t/2)); from_3d RA (chord on the circle) 2^-50 + "
    "cond(2^-51,|sin ra|), Dec 2^-51 + cond(2^-51, cos dec); mean adds 2(n+4)u/|m_h| (RA) and 2(n+4)u/|m| (Dec)",
    "the bound is a rational literal evaluated by the harness from the observed float output (math.sin / math.cos of the output in the conditioning term)",
    "the float bound is checked pointwise with certified enclosures, not proved for all inputs (libm has no specification)",
    "mean: positive weights; a mean vector shorter than 2^-20 (horizontal part for RA) is degenerate and not compared",
    "inputs: right ascension in [0, 2 pi] (a few outside for to_3d), declination in [-pi/2, pi/2] as floats, chord lengths in [0, 2], angles in [0, pi]",
    "input representations: the quantifier is over values; a value given as float16 / float32 / integer / python number is the real "
    "number it denotes (exactly a binary64 value, Props/C14.v) and the float64 bounds apply to it unchanged; representations the "
    "implementation refuses with an exception are outside what is compared",
]
RULE = ("cases = (function, exact float inputs); distinct by that tuple; non-trivial when the input lies in a region the "
        "property names (pole, RA wrap, tiny or near-antipodal separation, near-degenerate mean) or is a generic point "
        "whose result is not exactly representable (at least one trigonometric evaluation contributes rounding); "
        "representation cases = (function, representation of every operand, exact values), non-trivial always "
        "(dtype / byte order / layout / container other than a contiguous native float64 array)")

U = Fraction(1, 2 ** 53)
TINY = Fraction(1, 2 ** 300)
PI_LO = Fraction(31415926535897932384626433832795028841, 10 ** 37)
PI_HI = Fraction(31415926535897932384626433832795028842, 10 ** 37)
TWO_PI_F = 2.0 * np.pi
HALF_PI_F = math.pi / 2

HEADER = ("From Coq Require Import Reals Lra List.\nFrom Interval Require Import Tactic.\n"
          "From Verif Require Import Prelude Sphere SphereP.\nImport ListNotations.\nOpen Scope R_scope.\n")
QHEADER = "From Verif Require Import Prelude Sphere.\nOpen Scope Q_scope.\n"


# ----------------------------------------------------------------------------- literals
def R(x):
    """exact real literal of a float / Fraction"""
    f = fq.frac(x)
    n, d = f.numerator, f.denominator
    if d == 1:
        return "(%d)" % n if n < 0 else "%d" % n
    return "(%d / %d)" % (n, d)


def hexf(x):
    return float(x).hex()


def cond(delta, s):
    """error of an angle whose sine / cosine is perturbed by delta where the derivative is s"""
    return 4.0 * delta / max(abs(s), math.sqrt(delta))


def F(x):
    return Fraction(*float(x).as_integer_ratio())


# ----------------------------------------------------------------------------- goals
class Atom:
    """one inequality: statement, tactic that proves it, tactics that prove its strict negation"""

    def __init__(self, stmt, prove, refute):
        self.stmt, self.prove, self.refute = stmt, prove, refute


class Sample:
    def __init__(self, fn, kind, inputs, outputs, atoms, nontrivial=True):
        self.fn, self.kind, self.inputs, self.outputs, self.atoms = fn, kind, inputs, outputs, atoms
        self.nontrivial = nontrivial

    def replay(self):
        out = {"function": self.fn, "kind": self.kind, "inputs_hex": self.inputs, "outputs_hex": self.outputs,
               "goals": [a.stmt for a in (self.atoms or [])]}
        rep = getattr(self, "rep", None)
        if rep is not None:      # the call was made with the inputs in this representation (ReprCase)
            out["representation_case"] = dict(rep.replay(), row=getattr(self, "row", 0), differs=rep.diff)
        return out


def plain_atom(expr, y, b, unfold=""):
    """Rabs (expr - y) <= b with expr made of sin/cos/sqrt"""
    stmt = "Rabs (%s - %s) <= %s" % (expr, R(y), R(b))
    pre = ("unfold %s; " % unfold) if unfold else ""
    return Atom(stmt, pre + "iv",
                ["apply Rabs_far_hi; " + pre + "iv", "apply Rabs_far_lo; " + pre + "iv"])


def sep_atom(ra1, dec1, ra2, dec2, t, e):
    args = " ".join(R(v) for v in (ra1, dec1, ra2, dec2))
    stmt = "Rabs (separation %s - %s) <= %s" % (args, R(t), R(e))
    ft, fe = F(t), F(e)
    if ft - fe < 0:
        prove = "apply sep_hav_close_lo; [iv | iv | iv | iv | unfold hav_expr; iv]"
    elif ft + fe >= PI_HI:
        prove = "apply sep_hav_close_hi; [iv | iv | iv | iv | unfold hav_expr; iv]"
    else:
        prove = "apply sep_hav_close; [iv | iv | iv | unfold hav_expr; split; iv]"
    refute = ["apply sep_hav_far_hi; [split; iv | unfold hav_expr; iv]",
              "apply sep_hav_far_lo; [split; iv | unfold hav_expr; iv]"]
    return Atom(stmt, prove, refute)


def angle_atom(c, a, e):
    stmt = "Rabs (angle %s - %s) <= %s" % (R(c), R(a), R(e))
    if F(a) + F(e) >= PI_HI:
        prove = "apply angle_close_hi; [iv | iv | iv | iv | split; iv]"
    else:
        prove = "apply angle_close; [iv | iv | iv | split; iv]"
    refute = ["apply angle_far_hi; [split; iv | split; iv | iv]", "apply angle_far_lo; [split; iv | split; iv | iv]"]
    return Atom(stmt, prove, refute)


def dec_atom(vec, d, e, pre=""):
    """vec: Coq term of a triple (x, y, z) of sin/cos expressions or literals"""
    stmt = "Rabs (from3d_dec %s - %s) <= %s" % (vec, R(d), R(e))
    fd, fe = F(d), F(e)
    if fd + fe >= PI_HI / 2:
        prove = "apply dec_close_hi; [iv | iv | iv | iv | unfold w_expr; iv]"
    elif fd - fe <= -PI_HI / 2:
        prove = "apply dec_close_lo; [iv | iv | iv | iv | unfold w_expr; iv]"
    else:
        prove = "apply dec_close; [iv | iv | iv | unfold w_expr; split; iv]"
    refute = ["apply dec_far_hi; [split; iv | unfold w_expr; iv]", "apply dec_far_lo; [split; iv | unfold w_expr; iv]"]
    return Atom(stmt, pre + prove, [pre + r for r in refute])


def ra_atom(vec, b, e, pre=""):
    stmt = "Rabs (chord (%s - from3d_ra %s)) <= %s" % (R(b), vec, R(e))
    unf = "cbv beta zeta delta [ra_defect]; unfold Rsqr; iv"
    prove = "apply ra_close; [iv | iv | %s]" % unf
    refute = ["apply ra_far; [iv | iv | %s]" % unf]
    return Atom(stmt, pre + prove, [pre + r for r in refute])


def vec_lit(v):
    return "(%s, %s, %s)" % tuple(R(t) for t in v)


# ----------------------------------------------------------------------------- running the implementation
class Raised(Exception):
    pass


def run_to3d(ra, dec):
    out = impl.AngularCoordinates(np.array([[ra, dec]], dtype="f8")).to_3d()
    assert out.shape == (1, 3)
    return [float(t) for t in out[0]]


def run_from3d(v):
    out = impl.AngularCoordinates.from_3d(np.array([v], dtype="f8")).data
    assert out.shape == (1, 2)
    return float(out[0, 0]), float(out[0, 1])


def run_distance(p, q):
    a = impl.AngularCoordinates(np.array([p], dtype="f8"))
    b = impl.AngularCoordinates(np.array([q], dtype="f8"))
    out = a.distance(b)
    assert isinstance(out, impl.AngularDistances) and out.data.shape == (1,)
    return float(out.data[0])


def run_chord(d):
    out = impl.AngularDistances(np.array([d], dtype="f8")).to_3d()
    return float(np.atleast_1d(out)[0])


def run_angle(c):
    out = impl.AngularDistances.from_3d(np.array([c], dtype="f8"))
    return float(out.data[0])


def run_mean(pts, ws):
    a = impl.AngularCoordinates(np.array(pts, dtype="f8"))
    out = a.mean(None if ws is None else np.array(ws, dtype="f8"))
    assert isinstance(out, impl.AngularCoordinates) and out.data.shape == (1, 2)
    return float(out.data[0, 0]), float(out.data[0, 1])


# ----------------------------------------------------------------------------- samples per function
def finite(*xs):
    return all(math.isfinite(x) for x in xs)


def mk_to3d(ra, dec, kind, out=None):
    """out: an observed result (x, y, z) of a call made elsewhere (input representations); None = call now"""
    x, y, z = run_to3d(ra, dec) if out is None else out
    inputs, outputs = dict(ra=hexf(ra), dec=hexf(dec)), dict(x=hexf(x), y=hexf(y), z=hexf(z))
    if not finite(x, y, z):
        return Sample("AngularCoordinates.to_3d", kind, inputs, outputs, None)
    bx, by, bz = 6 * U * abs(F(x)) + TINY, 6 * U * abs(F(y)) + TINY, 4 * U * abs(F(z)) + TINY
    lr, ld = R(ra), R(dec)
    stmt = ("Rabs (vx (to3d %s %s) - %s) <= %s /\\ Rabs (vy (to3d %s %s) - %s) <= %s /\\ Rabs (vz (to3d %s %s) - %s) <= %s"
            % (lr, ld, R(x), R(bx), lr, ld, R(y), R(by), lr, ld, R(z), R(bz)))
    whole = Atom(stmt, "apply to3d_close; iv", [])
    s = Sample("AngularCoordinates.to_3d", kind, inputs, outputs, [whole])
    s.split = [plain_atom("cos %s * cos %s" % (lr, ld), x, bx), plain_atom("sin %s * cos %s" % (lr, ld), y, by),
               plain_atom("sin %s" % ld, z, bz)]
    return s


def mk_chord(d, kind, out=None):
    c = run_chord(d) if out is None else out
    inputs, outputs = dict(d=hexf(d)), dict(chord=hexf(c))
    if not finite(c):
        return Sample("AngularDistances.to_3d", kind, inputs, outputs, None)
    return Sample("AngularDistances.to_3d", kind, inputs, outputs,
                  [plain_atom("chord %s" % R(d), c, 4 * U * abs(F(c)) + TINY, unfold="chord")])


def mk_angle(c, kind, out=None):
    try:
        a = run_angle(c) if out is None else out
    except ValueError as exc:
        raise Raised("AngularDistances.from_3d(%r) raised %s" % (c, exc))
    inputs, outputs = dict(chord=hexf(c)), dict(angle=hexf(a))
    if not finite(a):
        return Sample("AngularDistances.from_3d", kind, inputs, outputs, None)
    return Sample("AngularDistances.from_3d", kind, inputs, outputs,
                  [angle_atom(c, a, 4 * U * abs(F(a)) + TINY)])


def dist_bound(t):
    return 2.0 ** -50 * t + cond(2.0 ** -50, math.cos(t / 2))


def mk_distance(p, q, kind, out=None):
    inputs = dict(ra1=hexf(p[0]), dec1=hexf(p[1]), ra2=hexf(q[0]), dec2=hexf(q[1]))
    try:
        t = run_distance(p, q) if out is None else out
    except ValueError as exc:
        s = Sample("AngularCoordinates.distance", kind, inputs, dict(raised=str(exc)), None)
        s.raised = str(exc)
        return s
    outputs = dict(angle=hexf(t))
    if not finite(t) or t < 0 or t > math.pi:
        return Sample("AngularCoordinates.distance", kind, inputs, outputs, None)
    return Sample("AngularCoordinates.distance", kind, inputs, outputs,
                  [sep_atom(p[0], p[1], q[0], q[1], t, dist_bound(t))])


def from3d_bounds(ra, dec):
    return (2.0 ** -50 + cond(2.0 ** -51, math.sin(ra)), 2.0 ** -51 + cond(2.0 ** -51, math.cos(dec)))


def mk_from3d(v, kind, out=None):
    v = [float(t) for t in v]
    ra, dec = run_from3d(v) if out is None else out
    inputs, outputs = dict(x=hexf(v[0]), y=hexf(v[1]), z=hexf(v[2])), dict(ra=hexf(ra), dec=hexf(dec))
    fn = "AngularCoordinates.from_3d"
    if not finite(ra, dec) or abs(dec) > HALF_PI_F:
        return Sample(fn, kind, inputs, outputs, None)
    e_ra, e_dec = from3d_bounds(ra, dec)
    lit = vec_lit(v)
    if v[0] == 0.0 and v[1] == 0.0:
        # exact pole: the model returns ra = 0 (from3d_pole / from3d_pole_south); compare exactly
        lem = "from3d_pole" if v[2] > 0 else "from3d_pole_south"
        stmt = "fst (from3d %s) = %s /\\ Rabs (snd (from3d %s) - %s) <= %s" % (lit, R(ra), lit, R(dec), R(e_dec))
        a = Atom(stmt, "rewrite %s by iv; cbn [fst snd]; split; [reflexivity | iv]" % lem, [])
        s = Sample(fn, kind, inputs, outputs, [a])
        s.pole_ra_ok = (ra == 0.0)
        return s
    return Sample(fn, kind, inputs, outputs, [ra_atom(lit, ra, e_ra), dec_atom(lit, dec, e_dec)])


def mk_mean(pts, ws, kind, out=None):
    n = len(pts)
    inputs = dict(points=[[hexf(a), hexf(b)] for a, b in pts], weights=None if ws is None else [hexf(w) for w in ws])
    fn = "AngularCoordinates.mean"
    ra, dec = run_mean(pts, ws) if out is None else out
    outputs = dict(ra=hexf(ra), dec=hexf(dec))
    if not finite(ra, dec) or abs(dec) > HALF_PI_F:
        return Sample(fn, kind, inputs, outputs, None)
    w = [1.0] * n if ws is None else list(ws)
    xyz = np.array([run_to3d(a, b) for a, b in pts])
    m = (xyz * np.array(w)[:, None]).sum(axis=0) / sum(w)
    mh, mn = math.hypot(m[0], m[1]), math.sqrt(float((m * m).sum()))
    if mn < 2.0 ** -20:
        s = Sample(fn, kind + "/degenerate", inputs, outputs, [])
        s.nontrivial = False
        return s
    g = 2.0 * (n + 4) * 2.0 ** -53
    e_ra, e_dec = from3d_bounds(ra, dec)
    e_ra, e_dec = e_ra + g / max(mh, 2.0 ** -20), e_dec + g / mn
    wl = "[%s]" % "; ".join(R(t) for t in w)
    pl = "[%s]" % "; ".join("(%s, %s)" % (R(a), R(b)) for a, b in pts)
    pre_ra = ("rewrite mean_ra_eq by (cbv [rsum]; iv); cbv [wsum vadd vscale to3d vx vy vz fst snd]; ")
    pre_dec = ("rewrite mean_dec_eq by (cbv [rsum]; iv); cbv [wsum vadd vscale to3d vx vy vz fst snd]; ")
    atoms = []
    if mh >= 2.0 ** -20:
        a = ra_atom("V", ra, e_ra, pre_ra)
        a.stmt = "Rabs (chord (%s - fst (sph_mean %s %s))) <= %s" % (R(ra), wl, pl, R(e_ra))
        atoms.append(a)
    d = dec_atom("V", dec, e_dec, pre_dec)
    d.stmt = "Rabs (snd (sph_mean %s %s) - %s) <= %s" % (wl, pl, R(dec), R(e_dec))
    atoms.append(d)
    return Sample(fn, kind + ("" if mh >= 2.0 ** -20 else "/polar-ra-skipped"), inputs, outputs, atoms)


# ----------------------------------------------------------------------------- generators
def sphere_point(rng):
    z = rng.uniform(-1.0, 1.0)
    return (rng.uniform(0.0, TWO_PI_F), math.asin(z))


def clamp_dec(d):
    return max(-HALF_PI_F, min(HALF_PI_F, d))


SPECIAL_POINTS = [
    (0.0, 0.0), (math.pi, 0.0), (TWO_PI_F, 0.25), (float(np.nextafter(TWO_PI_F, 0.0)), -0.5),
    (TWO_PI_F - 1e-12, 0.3), (1e-12, -0.3), (1.0, HALF_PI_F), (2.0, -HALF_PI_F), (0.0, HALF_PI_F),
    (4.0, HALF_PI_F - 1e-9), (3.0, -HALF_PI_F + 1e-7), (5.5, float(np.nextafter(HALF_PI_F, 0.0))),
    (math.pi / 2, 0.125), (3 * math.pi / 2, -0.2), (math.pi, 1.0), (float(np.nextafter(math.pi, 4.0)), -1.0),
    (0.75, 0.0), (6.0, 1e-300), (5e-324, 0.5), (2.5, 1e-17),
]


def gen_points(ctx, n):
    return [sphere_point(ctx.rng) for _ in range(n)]


def log_uniform(rng, lo, hi):
    return 10.0 ** rng.uniform(lo, hi)


def gen_samples(ctx):
    """yields thunks (fn-name, callable) so that an exception in the implementation is attributed"""
    rng = ctx.rng
    k = ctx.n(1, 16)
    jobs = []
    # ---- to_3d
    for p in SPECIAL_POINTS:
        jobs.append(("to3d", lambda p=p: mk_to3d(p[0], p[1], "special")))
    for p in [(-0.5, 0.3), (7.0, -1.2)]:
        jobs.append(("to3d", lambda p=p: mk_to3d(p[0], p[1], "ra-outside")))
    for p in gen_points(ctx, 38 * k):
        jobs.append(("to3d", lambda p=p: mk_to3d(p[0], p[1], "uniform")))
    # ---- chord / angle
    ds = [0.0, math.pi, float(np.nextafter(math.pi, 0.0)), math.pi / 2, 1e-12, 1e-300, math.pi - 1e-9, 1.0, 2.0 ** -27]
    ds += [rng.uniform(0.0, math.pi) for _ in range(14 * k)] + [log_uniform(rng, -12, 0) for _ in range(9 * k)]
    ds += [math.pi - log_uniform(rng, -9, 0) for _ in range(8 * k)]
    for d in ds:
        jobs.append(("chord", lambda d=d: mk_chord(d, "chord")))
    cs = [0.0, 2.0, float(np.nextafter(2.0, 0.0)), 1.0, math.sqrt(2.0), 1e-12, 1e-300, 2.0 - 1e-9, 2.0 ** -27]
    cs += [rng.uniform(0.0, 2.0) for _ in range(14 * k)] + [log_uniform(rng, -12, 0) for _ in range(9 * k)]
    cs += [2.0 - log_uniform(rng, -16, 0) for _ in range(8 * k)]
    for c in cs:
        jobs.append(("angle", lambda c=c: mk_angle(c, "angle")))
    # ---- distance
    base = SPECIAL_POINTS[:16] + gen_points(ctx, 20 * k)
    pairs = []
    for i in range(26 * k):
        pairs.append((rng.choice(base), rng.choice(base), "any"))
    for i in range(22 * k):
        p = rng.choice(base)
        s = log_uniform(rng, -12, -1)
        q = (p[0] + s * rng.uniform(-1, 1), clamp_dec(p[1] + s * rng.uniform(-1, 1)))
        pairs.append((p, q, "small"))
    for i in range(18 * k):
        p = rng.choice(base)
        s = log_uniform(rng, -9, -1)
        q = ((p[0] + math.pi + s * rng.uniform(-1, 1)) % TWO_PI_F, clamp_dec(-p[1] + s * rng.uniform(-1, 1)))
        pairs.append((p, q, "near-antipodal"))
    for i in range(12 * k):
        p = rng.choice(base)
        q = (rng.uniform(0, TWO_PI_F), rng.choice([1.0, -1.0]) * (HALF_PI_F - rng.choice([0.0, log_uniform(rng, -12, -1)])))
        pairs.append((p, q, "pole"))
    pairs += [((1.0, 0.5), (1.0, 0.5), "identical"), ((0.0, 0.0), (TWO_PI_F, 0.0), "wrap"),
              ((1e-9, 0.2), (TWO_PI_F - 1e-9, 0.2), "wrap"), ((0.0, HALF_PI_F), (3.0, -HALF_PI_F), "pole-to-pole"),
              ((0.5, 0.0), (0.5 + math.pi / 2, 0.0), "quarter")]
    for p, q, kind in pairs:
        jobs.append(("distance", lambda p=p, q=q, kind=kind: mk_distance(p, q, kind)))
    # ---- from_3d
    axis = [(1.0, 0.0, 0.0), (-1.0, 0.0, 0.0), (0.0, 1.0, 0.0), (0.0, -1.0, 0.0), (-0.5, 0.0, 0.25), (0.5, -0.0, 0.25),
            (-2.0, -0.0, 1.0), (-1.0, 0.0, -3.0), (0.0, 0.0, 1.0), (0.0, 0.0, -1.0), (0.0, 0.0, 3.5), (-0.0, 0.0, -0.125),
            (-1.0, 1e-300, 0.0), (-1.0, -1e-300, 0.0), (1.0, -1e-300, 0.0), (1.0, -1e-17, 0.5)]
    for v in axis:
        jobs.append(("from3d", lambda v=v: mk_from3d(v, "axis")))
    for p in SPECIAL_POINTS[:12] + gen_points(ctx, 10 * k):
        jobs.append(("from3d", lambda p=p: mk_from3d(run_to3d(*p), "unit")))
    for p in gen_points(ctx, 8 * k):
        sc = log_uniform(rng, -3, 3)
        jobs.append(("from3d", lambda p=p, sc=sc: mk_from3d([t * sc for t in run_to3d(*p)], "scaled")))
    for i in range(7 * k):
        s = log_uniform(rng, -12, -1)
        v = (s * rng.uniform(-1, 1), s * rng.uniform(-1, 1), rng.choice([1.0, -1.0]))
        jobs.append(("from3d", lambda v=v: mk_from3d(v, "near-pole")))
    for i in range(7 * k):
        s = log_uniform(rng, -17, -1)
        v = (rng.choice([1.0, -1.0]) * rng.uniform(0.1, 2.0), s * rng.uniform(-1, 1), rng.uniform(-1, 1))
        jobs.append(("from3d", lambda v=v: mk_from3d(v, "near-ra-0-or-pi")))
    # ---- mean
    dy = [0.125, 0.25, 0.5, 1.0, 1.5, 2.0, 3.0, 8.0]
    for i in range(30 * k):
        mode = ["cluster", "spread", "wrap", "polar", "near-degenerate", "single"][i % 6]
        n = rng.randint(2, 5)
        c = sphere_point(rng)
        if mode == "cluster":
            s = log_uniform(rng, -6, -1)
            pts = [(c[0] + s * rng.uniform(-1, 1), clamp_dec(c[1] + s * rng.uniform(-1, 1))) for _ in range(n)]
        elif mode == "spread":
            pts = [(rng.uniform(0, 1.5), rng.uniform(-0.7, 0.7)) for _ in range(n)]
        elif mode == "wrap":
            pts = [((rng.uniform(-0.05, 0.05)) % TWO_PI_F, rng.uniform(-0.5, 0.5)) for _ in range(n)]
        elif mode == "polar":
            sg = rng.choice([1.0, -1.0])
            pts = [(rng.uniform(0, TWO_PI_F), sg * (HALF_PI_F - log_uniform(rng, -6, -1))) for _ in range(n)]
        elif mode == "near-degenerate":
            s = log_uniform(rng, -5, -2)
            pts = [c, ((c[0] + math.pi) % TWO_PI_F, clamp_dec(-c[1] + s)), sphere_point(rng)][:rng.choice([2, 3])]
            n = len(pts)
        else:
            pts, n = [c], 1
        wmode = rng.choice(["none", "dyadic", "random"])
        ws = None if wmode == "none" else ([rng.choice(dy) for _ in range(n)] if wmode == "dyadic"
                                           else [rng.uniform(0.1, 5.0) for _ in range(n)])
        jobs.append(("mean", lambda pts=pts, ws=ws, mode=mode, wmode=wmode: mk_mean(pts, ws, mode + "/w-" + wmode)))
    return jobs


# ----------------------------------------------------------------------------- Coq files
def goal_text(n, stmt, tac):
    return ("Goal %s.\nProof. tryif (assert_succeeds (%s)) then idtac \"OK %d\" else idtac \"BAD %d\". Abort.\n"
            % (stmt, tac, n, n))


def write_file(path, prec, goals):
    with open(path, "w") as f:
        f.write(HEADER)
        f.write("Ltac iv := interval with (i_prec %d).\n\n" % prec)
        for g in goals:
            f.write(g)
            f.write("\n")


_RES = re.compile(r"^(OK|BAD) (\d+)\s*$", re.M)


def run_files(files, jobs=12, timeout=1500):
    with ThreadPoolExecutor(max_workers=jobs) as ex:
        res = list(ex.map(lambda p: coqrun.coqc_file(p, timeout), files))
    out = []
    for path, (rc, text) in zip(files, res):
        status = {int(n): s for s, n in _RES.findall(text)}
        out.append((rc, text, status))
    return out


def check_goals(ctx, samples, tag):
    """first pass (one goal per sample at i_prec 100, <= 40 goals per file), then atom-wise re-check of the
    goals that did not close at i_prec 200 and 400 together with their strict negations.
    Returns dict idx -> 'ok' | 'refuted' | 'undecided' (+ detail)."""
    work = ctx.workdir
    os.makedirs(work, exist_ok=True)
    todo = [(i, s) for i, s in enumerate(samples) if s.atoms]
    nshard = max(1, -(-len(todo) // 40))
    shards = [todo[j::nshard] for j in range(nshard)]
    files = []
    for kx, part in enumerate(shards):
        goals = []
        for i, s in part:
            stmt = " /\\ ".join("(%s)" % a.stmt for a in s.atoms) if len(s.atoms) > 1 else s.atoms[0].stmt
            tac = s.atoms[0].prove if len(s.atoms) == 1 else "split; [%s]" % " | ".join(a.prove for a in s.atoms)
            goals.append(goal_text(i, stmt, tac))
        path = os.path.join(work, "%s_%03d.v" % (tag, kx))
        write_file(path, 100, goals)
        files.append(path)
    verdict = {}
    pending = []
    for kx, ((rc, text, status), part) in enumerate(zip(run_files(files), shards)):
        ok = rc == 0 and all(i in status for i, _ in part)
        ctx.obligation("interval-shard:%s_%03d (%d goals)" % (tag, kx, len(part)), ok, text[-3000:] if not ok else "")
        for i, s in part:
            st = status.get(i)
            if st == "OK":
                verdict[i] = ("ok", "i_prec 100")
            elif st == "BAD":
                pending.append((i, s))
            else:
                verdict[i] = ("undecided", "shard did not compile")
    # re-check atom by atom
    for prec in (200, 400):
        if not pending:
            break
        ctx.log("%d goal(s) not closed at lower precision: atom-wise re-check at i_prec %d" % (len(pending), prec))
        goals, keys = [], []
        for i, s in pending:
            atoms = getattr(s, "split", None) or s.atoms
            for a in atoms:
                keys.append((i, "p"))
                goals.append(goal_text(len(keys) - 1, a.stmt, a.prove))
                keys.append((i, "r"))
                rt = "first [%s]" % " | ".join("solve [%s]" % r for r in a.refute) if a.refute else "fail"
                goals.append(goal_text(len(keys) - 1, "~ (%s)" % a.stmt, rt))
        per = 24
        files = []
        for kx in range(0, len(goals), per):
            path = os.path.join(work, "%s_re%d_%03d.v" % (tag, prec, kx // per))
            write_file(path, prec, goals[kx:kx + per])
            files.append(path)
        status = {}
        for kx, (rc, text, st) in enumerate(run_files(files)):
            ctx.obligation("interval-shard:%s_re%d_%03d" % (tag, prec, kx), rc == 0, text[-3000:] if rc else "")
            status.update(st)
        nxt = []
        for i, s in pending:
            idxs = [j for j, (ii, _) in enumerate(keys) if ii == i]
            proved = [status.get(j) == "OK" for j in idxs if keys[j][1] == "p"]
            refuted = [status.get(j) == "OK" for j in idxs if keys[j][1] == "r"]
            if any(refuted):
                atoms = getattr(s, "split", None) or s.atoms
                which = [atoms[t].stmt for t, r in enumerate(refuted) if r]
                verdict[i] = ("refuted", "negation proved at i_prec %d: %s" % (prec, which[0][:400]))
            elif all(proved):
                verdict[i] = ("ok", "i_prec %d" % prec)
            else:
                verdict[i] = ("undecided", "neither the bound nor its negation closed at i_prec %d" % prec)
                nxt.append((i, s))
        pending = nxt
    return verdict


SIG = {"AngularCoordinates.to_3d": "to_3d", "AngularCoordinates.from_3d": "from_3d",
       "AngularCoordinates.distance": "distance", "AngularCoordinates.mean": "mean",
       "AngularDistances.to_3d": "chord", "AngularDistances.from_3d": "angle"}

# deterministic probe of the known defect: a valid near-antipodal pair whose float chord exceeds 2.0
ANTIPODAL_PROBE = ((0.03222523810421309, 0.03393141501192), (3.1738178916940063, -0.03393141501192))


def build_samples(ctx, jobs):
    samples = []
    for name, thunk in jobs:
        try:
            s = thunk()
        except Raised as exc:
            ctx.count(key=(name, str(exc)), kind=name + "/raised")
            ctx.fail("c14-raises:%s" % name, str(exc), {"function": name, "error": str(exc)})
            continue
        samples.append(s)
    return samples


def judge(ctx, samples, verdict):
    undecided = []
    for i, s in enumerate(samples):
        rc = getattr(s, "rep", None)
        # inputs handed over in another representation: own signature class, case = the representation case
        sigx, case, how = ("/input-" + rc.cls, rc.case, " (input as %s)" % rc.describe()) if rc is not None else ("", i, "")
        key = (s.fn, tuple(sorted((k, str(v)) for k, v in s.inputs.items())), None if rc is None else rc.key())
        ctx.count(key=key, nontrivial=s.nontrivial, kind="%s/%s" % (SIG[s.fn], s.kind))
        if getattr(s, "raised", None):
            ctx.fail("c14-distance-raises-near-antipodal",
                     "AngularCoordinates.distance raised ValueError(%s) for a valid pair of sky positions" % s.raised,
                     s.replay(), case=case)
            continue
        if s.atoms is None:
            ctx.fail("c14-nonfinite:%s%s" % (SIG[s.fn], sigx), "%s returned a non-finite or out-of-range value: %s%s"
                     % (s.fn, s.outputs, how), s.replay(), case=case)
            continue
        if getattr(s, "pole_ra_ok", True) is False:
            ctx.fail("c14-accuracy:from_3d%s" % sigx, "from_3d at an exact pole returned RA %s, the model (and the documented fallback) gives 0%s"
                     % (s.outputs["ra"], how), s.replay(), case=case)
        if not s.atoms:
            ctx.bump("degenerate_mean_skipped")
            continue
        v, detail = verdict.get(i, ("undecided", "not run"))
        if v == "refuted":
            ctx.fail("c14-accuracy:%s%s" % (SIG[s.fn], sigx), "%s is outside its float bound on %s -> %s%s (%s)"
                     % (s.fn, s.inputs, s.outputs, how, detail), s.replay(), case=case)
        elif v == "undecided":
            undecided.append({"sample": s.replay(), "detail": detail})
            ctx.bump("undecided")
        ctx.sample(dict(function=s.fn, kind=s.kind, inputs=s.inputs, outputs=s.outputs, verdict=v), limit=6)
    ctx.extra["undecided"] = len(undecided)
    ctx.extra["undecided_samples"] = undecided[:5]
    return undecided


# ----------------------------------------------------------------------------- direct checks (Python + Coq Q)
def q_checks(ctx):
    rng = ctx.rng
    k = ctx.n(1, 8)
    # ---- RA range on everything from_3d / mean can return
    vecs = [(-1.0, -1e-300, 0.0), (1.0, -1e-300, 0.0), (1.0, -1e-17, 0.5), (1.0, -1.4e-8, 0.0), (1.0, -1.5e-8, 0.0),
            (1.0, -2.2e-8, 0.0), (-1.0, -0.0, 0.0), (0.0, -1.0, 0.0), (0.0, 0.0, 1.0), (0.0, 0.0, -1.0), (1.0, 0.0, 0.0)]
    for _ in range(60 * k):
        vecs.append((rng.uniform(-1, 1), rng.uniform(-1, 1), rng.uniform(-1, 1)))
    for _ in range(40 * k):
        s = log_uniform(rng, -17, -6)
        vecs.append((rng.uniform(0.1, 2.0), -s, rng.uniform(-1, 1)))
    ras = []
    for v in vecs:
        ra, dec = run_from3d(v)
        ras.append((("from_3d", [hexf(t) for t in v]), ra))
    for _ in range(20 * k):
        pts = [(rng.uniform(-0.2, 0.2) % TWO_PI_F, rng.uniform(-1, 1)) for _ in range(3)]
        ra, dec = run_mean(pts, None)
        ras.append((("mean", [[hexf(a), hexf(b)] for a, b in pts]), ra))
    terms, keep = [], []
    for src, ra in ras:
        ctx.count(key=("ra-range", str(src)), kind="ra-range/" + src[0])
        if not math.isfinite(ra):
            ctx.fail("c14-nonfinite:%s" % src[0], "non-finite right ascension from %s" % (src,), dict(source=src))
            continue
        if not (0.0 <= ra < TWO_PI_F):
            ctx.fail("c14-ra-range", "right ascension %r returned by %s is not in [0, 2pi)" % (ra, src[0]),
                     dict(source=src, ra=hexf(ra)))
        terms.append("c14_ra_case %s %s" % (fq.q(ra), fq.q(TWO_PI_F)))
        keep.append((src, ra))
    codes = ctx.shards("RaRange_C14", QHEADER, terms, shard=400)
    for (src, ra), c in zip(keep, codes):
        if c:
            ctx.fail("c14-ra-range", "right ascension %r returned by %s is not in [0, 2pi) (rational check, code %s)"
                     % (ra, src[0], c), dict(source=src, ra=hexf(ra)))
    # ---- inverse pairs
    terms, info = [], []
    ds = [0.0, math.pi, 1e-12, math.pi - 1e-9, 1.0] + [rng.uniform(0, math.pi) for _ in range(40 * k)] + \
         [log_uniform(rng, -12, 0) for _ in range(20 * k)] + [math.pi - log_uniform(rng, -9, 0) for _ in range(20 * k)]
    for d in ds:
        try:
            back = run_angle(run_chord(d))
        except ValueError as exc:
            ctx.fail("c14-raises:angle-of-chord", "from_3d(to_3d(%r)) raised %s" % (d, exc), dict(d=hexf(d)))
            continue
        if not finite(back):
            ctx.fail("c14-nonfinite:angle", "from_3d(to_3d(%r)) is not finite" % d, dict(d=hexf(d)))
            continue
        b = 2.0 ** -51 * d + cond(2.0 ** -51, math.cos(d / 2))
        terms.append("c14_rt_case %s %s %s" % (fq.q(d), fq.q(back), fq.q(b)))
        info.append(("angle(chord(d))", "c14-inverse:angle-of-chord", dict(d=hexf(d), back=hexf(back))))
    cs = [0.0, 2.0, 1e-12, 2.0 - 1e-9, 1.0] + [rng.uniform(0, 2) for _ in range(40 * k)] + \
         [log_uniform(rng, -12, 0) for _ in range(20 * k)] + [2.0 - log_uniform(rng, -16, 0) for _ in range(20 * k)]
    for c in cs:
        try:
            back = run_chord(run_angle(c))
        except ValueError as exc:
            ctx.fail("c14-raises:chord-of-angle", "to_3d(from_3d(%r)) raised %s" % (c, exc), dict(c=hexf(c)))
            continue
        if not finite(back):
            ctx.fail("c14-nonfinite:angle", "to_3d(from_3d(%r)) is not finite" % c, dict(c=hexf(c)))
            continue
        terms.append("c14_rt_case %s %s %s" % (fq.q(c), fq.q(back), fq.q(F(2.0 ** -50) * F(c) + TINY)))
        info.append(("chord(angle(c))", "c14-inverse:chord-of-angle", dict(c=hexf(c), back=hexf(back))))
    pts = [p for p in SPECIAL_POINTS if 0.0 <= p[0] <= TWO_PI_F] + [sphere_point(rng) for _ in range(60 * k)]
    for ra, dec in pts:
        ra2, dec2 = run_from3d(run_to3d(ra, dec))
        if not finite(ra2, dec2):
            ctx.fail("c14-nonfinite:from_3d", "from_3d(to_3d(%r, %r)) is not finite" % (ra, dec), dict(ra=hexf(ra), dec=hexf(dec)))
            continue
        bra = 2.0 ** -49 + cond(2.0 ** -50, math.sin(ra))
        bdec = 2.0 ** -50 + cond(2.0 ** -50, math.cos(dec))
        terms.append("c14_rtc_case %s %s %s" % (fq.q(ra), fq.q(ra2), fq.q(bra)))
        info.append(("from_3d(to_3d(p)).ra", "c14-inverse:sky-xyz-sky", dict(ra=hexf(ra), dec=hexf(dec), back_ra=hexf(ra2))))
        terms.append("c14_rt_case %s %s %s" % (fq.q(dec), fq.q(dec2), fq.q(bdec)))
        info.append(("from_3d(to_3d(p)).dec", "c14-inverse:sky-xyz-sky", dict(ra=hexf(ra), dec=hexf(dec), back_dec=hexf(dec2))))
    for what, sig, rep in info:
        ctx.count(key=(what, str(sorted(rep.items()))), kind="inverse/" + what)
    codes = ctx.shards("Inverse_C14", QHEADER, terms, shard=400)
    for (what, sig, rep), c in zip(info, codes):
        if c:
            ctx.fail(sig, "round trip %s is outside its bound: %s" % (what, rep), rep)
    # ---- order preservation on sorted samples
    def mono(name, sig, lo, hi, f, groups):
        terms, info = [], []
        for g in range(groups):
            xs = {lo, hi}
            for _ in range(12):
                xs.add(rng.uniform(lo, hi))
            for _ in range(4):
                xs.add(min(hi, lo + log_uniform(rng, -12, 0)))
                xs.add(max(lo, hi - log_uniform(rng, -12, 0)))
            x0 = rng.uniform(lo, hi)
            xs.update([x0, float(np.nextafter(x0, hi)), float(np.nextafter(np.nextafter(x0, hi), hi))])
            xs = sorted(xs)
            ys = [f(x) for x in xs]
            if not finite(*ys):
                ctx.fail("c14-nonfinite:%s" % name, "%s returned a non-finite value on [%r, %r]" % (name, lo, hi),
                         dict(function=name, inputs=[hexf(x) for x in xs]))
                continue
            # adjacent inputs whose outputs are reversed by at most one ulp are float near-ties: drop the upper one
            kx, ky = [xs[0]], [ys[0]]
            for x, y in zip(xs[1:], ys[1:]):
                if y < ky[-1] and abs(y - ky[-1]) <= 2 * math.ulp(ky[-1]) and x - kx[-1] <= 4 * math.ulp(x):
                    ctx.bump("near_tie_skipped")
                    continue
                kx.append(x)
                ky.append(y)
            bad = [(a, b, c, d) for a, b, c, d in zip(kx, kx[1:], ky, ky[1:]) if c > d]
            ctx.count(key=(name, tuple(hexf(x) for x in kx)), kind="order/" + name)
            rep = dict(function=name, inputs=[hexf(x) for x in kx], outputs=[hexf(y) for y in ky])
            if bad:
                ctx.fail(sig, "%s is not order preserving: f(%r)=%r > f(%r)=%r" % (name, bad[0][0], bad[0][2], bad[0][1], bad[0][3]), rep)
            terms.append("c14_mono_case %s %s" % (fq.qlist(kx), fq.qlist(ky)))
            info.append(rep)
        codes = ctx.shards("Order_%s_C14" % name, QHEADER, terms, shard=100)
        for rep, c in zip(info, codes):
            if c:
                ctx.fail(sig, "%s is not order preserving on a sorted sample (code %s)" % (name, c), rep)
    mono("chord", "c14-order:chord", 0.0, math.pi, run_chord, 6 * k)
    mono("angle", "c14-order:angle", 0.0, 2.0, run_angle, 6 * k)


def batch_checks(ctx):
    """the public methods are vectorised: a call on N points / vectors / distances must return, row by row
    and bit for bit, what N single calls return (every N, in particular N = 1, 2, 3, 4 where an (N, 3) array
    could be mistaken for its transpose); the per-sample interval goals are about single calls"""
    rng = ctx.rng
    AC, AD = impl.AngularCoordinates, impl.AngularDistances
    for N in [1, 2, 3, 4, 5, 7] * ctx.n(2, 12):
        pts = np.array([sphere_point(rng) for _ in range(N)], dtype="f8")
        vec = AC(pts).to_3d()
        one = np.array([AC(pts[i:i + 1]).to_3d()[0] for i in range(N)])
        back = AC.from_3d(vec).data
        back1 = np.array([AC.from_3d(vec[i:i + 1]).data[0] for i in range(N)])
        other = np.array([sphere_point(rng) for _ in range(N)], dtype="f8")
        dist = AC(pts).distance(AC(other)).data
        dist1 = np.array([AC(pts[i:i + 1]).distance(AC(other[i:i + 1])).data[0] for i in range(N)])
        ch = AD(dist).to_3d()
        ch1 = np.array([AD(dist[i:i + 1]).to_3d()[0] for i in range(N)])
        an = AD.from_3d(ch).data
        an1 = np.array([AD.from_3d(ch[i:i + 1]).data[0] for i in range(N)])
        ctx.count(key=("batch", N, pts.tobytes()), nontrivial=N > 1, kind="batch/N%d" % N)
        for name, a, b in (("to_3d", vec, one), ("from_3d", back, back1), ("distance", dist, dist1), ("chord", ch, ch1), ("angle", an, an1)):
            if a.shape != b.shape or a.tobytes() != b.tobytes():
                ctx.fail("c14-batch-differs:%s" % name, "%s on %d points differs from %d single calls (shape %s vs %s)"
                         % (name, N, N, a.shape, b.shape), dict(N=N, points=[[hexf(x) for x in p] for p in pts.tolist()]),
                         case=("batch", name, N))
                break


def value_checks(ctx):
    """the primitives are functions of the held coordinates: whatever was called before on the same object, and
    whatever the caller did to arrays a previous call returned (they are the caller's), every call returns, bit
    for bit, what it returns on a fresh object holding the same coordinates; no call changes the coordinates"""
    rng = ctx.rng
    AC, AD = impl.AngularCoordinates, impl.AngularDistances
    for rnd in range(ctx.n(12, 80)):
        N = rng.choice([1, 2, 3, 4, 6])
        pts = np.array([sphere_point(rng) for _ in range(N)], dtype="f8")
        oth = np.array([sphere_point(rng) for _ in range(N)], dtype="f8")
        obj, other = AC(pts.copy()), AC(oth.copy())
        dobj = None
        steps = [rng.choice(["to_3d", "to_3d", "distance", "mean", "chord", "angle", "scribble", "scribble"]) for _ in range(rng.randrange(3, 9))]
        held, trace = [], []
        bad = None
        for st in steps:
            trace.append(st)
            if st == "scribble":
                # the caller reuses the arrays it was given (e.g. scales unit vectors to comoving positions)
                for arr in held:
                    if isinstance(arr, np.ndarray) and arr.flags.writeable and arr.size:
                        arr *= 3.0
                        arr += 1.0
                continue
            if st == "to_3d":
                got, want = obj.to_3d(), AC(pts.copy()).to_3d()
            elif st == "distance":
                got, want = obj.distance(other).data, AC(pts.copy()).distance(AC(oth.copy())).data
            elif st == "mean":
                got, want = obj.mean().data, AC(pts.copy()).mean().data
            elif st == "chord":
                dobj = dobj or obj.distance(other)
                fresh = AC(pts.copy()).distance(AC(oth.copy()))
                got, want = dobj.to_3d(), fresh.to_3d()
            else:
                ch = AC(pts.copy()).distance(AC(oth.copy())).to_3d()
                got, want = AD.from_3d(ch.copy()).data, AD.from_3d(ch.copy()).data
            got = np.asarray(got)
            held.append(got)
            if got.shape != np.asarray(want).shape or got.tobytes() != np.asarray(want).tobytes():
                bad = "%s after %s" % (st, trace[:-1])
                break
            if obj.data.tobytes() != pts.tobytes() or other.data.tobytes() != oth.tobytes():
                bad = "%s changed the held coordinates" % st
                break
        ctx.count(key=("value", N, pts.tobytes(), tuple(steps)), nontrivial=len(set(steps)) > 1, kind="value/history")
        if bad:
            ctx.fail("c14-history-dependent:%s" % trace[-1],
                     "%s on an object differs from the same call on a fresh object with the same coordinates (%s)" % (trace[-1], bad),
                     dict(points=[[hexf(x) for x in p] for p in pts.tolist()], other=[[hexf(x) for x in p] for p in oth.tolist()], steps=trace),
                     case=("value", rnd))


# ----------------------------------------------------------------------------- input representations
# The property is about positions and distances, not about how the caller stores them: AngularCoordinates /
# AngularDistances and the from_3d constructors take any array-like.  Whatever dtype, byte order, memory layout or
# python container carries the values, the result must be the float64 array that the same values give when they
# are handed over as a contiguous native float64 array (bit for bit), and hence lie inside the float64 bounds
# above.  Model: Model/Sphere.v (in_format, c14_repr_case); theorems: Props/C14.v (C14_b16_in_b32, C14_b32_in_b64,
# C14_int_in_b64: promotion is the identity on values; C14_narrowing_refuted: the converse is not).
DTYPES = {   # token -> (numpy dtype, value grid, class of the representation)
    "f8": ("<f8", "f8", "native"), ">f8": (">f8", "f8", "byteorder"),
    "f4": ("<f4", "f4", "narrow-float"), ">f4": (">f4", "f4", "narrow-float"),
    "f2": ("<f2", "f2", "narrow-float"), ">f2": (">f2", "f2", "narrow-float"),
    "g": ("g", "f8", "wide-float"),
    "i8": ("<i8", "int", "integer"), "i4": ("<i4", "int", "integer"), ">i4": (">i4", "int", "integer"),
    "i2": ("<i2", "int", "integer"), "u1": ("u1", "uint", "integer"), "b1": ("?", "bool", "integer"),
    "py": (None, "f8", "native"), "pyint": (None, "int", "integer"),   # python float / int elements of a sequence
}
GRID_FORMAT = {"f8": (53, 1074, 1024), "f4": (24, 149, 128), "f2": (11, 24, 16), "int": (63, 0, 63), "uint": (8, 0, 8),
               "bool": (1, 0, 1)}
LAYOUTS = ["c", "strided", "colslice", "fortran", "negstride", "readonly", "unaligned"]
SEQUENCES = ["list", "tuple", "list-of-tuples", "list-of-arrays"]
SINGLE_2D = ["flat-list", "flat-tuple", "flat-array"]       # one point given as a 1-d object
SINGLE_1D = ["scalar", "0d"]                                # one distance given as a scalar / 0-d array


def rep_class(rep):
    cont, dt, lay = rep
    cls = DTYPES[dt][2]
    if cls != "native":
        return cls
    if cont in ("ndarray", "flat-array") and lay != "c":
        return "layout"
    if cont == "pandas":
        return "pandas"
    if cont in SINGLE_1D or cont in SINGLE_2D:
        return "single"
    return "sequence"


def snap(x, grid, lo, hi):
    """the value of the grid (float16 / float32 / integer / ...) next to x that lies in [lo, hi], as a python float"""
    if grid == "f8":
        return float(min(max(x, lo), hi))
    if grid in ("f4", "f2"):
        t = np.dtype(grid).type
        y = t(min(max(x, lo), hi))      # rounding may step over the bound by one grid point
        while float(y) > hi:
            y = np.nextafter(y, t(-np.inf))
        while float(y) < lo:
            y = np.nextafter(y, t(np.inf))
        return float(y)
    if grid == "bool":
        lo, hi = max(lo, 0.0), min(hi, 1.0)
    if grid == "uint":
        lo = max(lo, 0.0)
    return float(int(min(max(round(x), math.ceil(lo)), math.floor(hi))))     # int(): never -0.0


def elem(dt, v):
    if dt == "py":
        return float(v)
    if dt == "pyint":
        return int(v)
    return np.dtype(DTYPES[dt][0]).type(v)


def relayout(arr, lay):
    """the same values in another memory layout (views into larger buffers, other strides, flags)"""
    n = arr.shape[0]
    junk = 1
    if lay == "c":
        return np.ascontiguousarray(arr)
    if lay == "strided":
        big = np.full((2 * n + 1,) + arr.shape[1:], junk, dtype=arr.dtype)
        big[1::2] = arr
        return big[1::2]
    if lay == "colslice":
        if arr.ndim == 1:
            wide = np.full((n, 3), junk, dtype=arr.dtype)
            wide[:, 1] = arr
            return wide[:, 1]
        wide = np.full((n, arr.shape[1] + 3), junk, dtype=arr.dtype)
        wide[:, 2:2 + arr.shape[1]] = arr
        return wide[:, 2:2 + arr.shape[1]]
    if lay == "fortran":
        if arr.ndim == 1:
            return relayout(arr, "strided")
        return np.asfortranarray(arr)
    if lay == "negstride":
        return np.ascontiguousarray(arr[::-1])[::-1]
    if lay == "readonly":
        out = np.ascontiguousarray(arr).copy()
        out.flags.writeable = False
        return out
    if lay == "unaligned":
        buf = np.zeros(arr.nbytes + 1, dtype="u1")
        out = buf[1:].view(arr.dtype).reshape(arr.shape)
        out[...] = arr
        return out
    raise KeyError(lay)


def build(rep, rows):
    """rows: N lists of python floats (2-d data) or N python floats (1-d data), every value on the grid of the
    representation's dtype.  Returns the object that is handed to the implementation."""
    cont, dt, lay = rep
    two_d = isinstance(rows[0], (list, tuple))
    if cont in ("ndarray", "flat-array", "0d", "pandas"):
        base = np.array(rows, dtype="f8")
        arr = base.astype(DTYPES[dt][0])
        assert arr.astype("f8").tobytes() == base.tobytes(), ("generator: value not on the grid of", dt, rows)
        if cont == "ndarray":
            return relayout(arr, lay)
        if cont == "flat-array":
            return relayout(arr[0], lay)
        if cont == "0d":
            return arr.reshape(())
        import pandas as pd
        return pd.DataFrame(arr, columns=["c%d" % i for i in range(arr.shape[1])]) if two_d else pd.Series(arr)
    conv = lambda v: elem(dt, v)      # noqa: E731
    if cont == "list":
        return [[conv(v) for v in r] for r in rows] if two_d else [conv(v) for v in rows]
    if cont == "tuple":
        return tuple(tuple(conv(v) for v in r) for r in rows) if two_d else tuple(conv(v) for v in rows)
    if cont == "list-of-tuples":
        return [tuple(conv(v) for v in r) for r in rows] if two_d else [conv(v) for v in rows]
    if cont == "list-of-arrays":
        nd = DTYPES[dt][0] or "<f8"
        return [np.array(r, dtype="f8").astype(nd) for r in rows]
    if cont == "flat-list":
        return [conv(v) for v in rows[0]]
    if cont == "flat-tuple":
        return tuple(conv(v) for v in rows[0])
    if cont == "scalar":
        return conv(rows[0])
    raise KeyError(cont)


def canonical(rows):
    return np.ascontiguousarray(np.array(rows, dtype="<f8"))


def covering_reps(two_d):
    """every dtype, every layout, every container at least once (the same list for every seed)"""
    reps = [("ndarray", dt, "c") for dt in ("f4", "f2", ">f8", ">f4", ">f2", "g", "i8", "i4", ">i4", "i2", "u1", "b1")]
    reps += [("ndarray", dt, lay) for dt in ("f8", "f4", ">f8", "i4") for lay in LAYOUTS[1:]]
    reps += [(c, dt, "c") for c in SEQUENCES for dt in ("py", "pyint", "f8", "f4", "f2")
             if not (c == "list-of-arrays" and dt in ("py", "pyint"))]
    reps += [("pandas", dt, "c") for dt in ("f8", "f4", "i8")]
    if two_d:
        reps += [(c, dt, "c") for c in SINGLE_2D[:2] for dt in ("py", "pyint", "f4")]
        reps += [("flat-array", dt, lay) for dt, lay in (("f8", "c"), ("f4", "c"), ("f2", "c"), (">f8", "c"), ("i4", "c"),
                                                        ("f8", "strided"), ("f4", "strided"))]
    else:
        reps += [("scalar", dt, "c") for dt in ("py", "pyint", "f8", "f4", "f2", "i4")]
        reps += [("0d", dt, "c") for dt in ("f8", "f4", ">f8", "i8")]
    return reps


def single_only(rep):
    return rep[0] in SINGLE_1D or rep[0] in SINGLE_2D


REPR_FN = {"to_3d": "AngularCoordinates.to_3d", "from_3d": "AngularCoordinates.from_3d",
           "distance": "AngularCoordinates.distance", "mean": "AngularCoordinates.mean",
           "chord": "AngularDistances.to_3d", "angle": "AngularDistances.from_3d"}


def grid_point(rng, grid, region):
    if region == "pole":
        ra, dec = rng.uniform(0, TWO_PI_F), rng.choice([1.0, -1.0]) * (HALF_PI_F - rng.choice([0.0, log_uniform(rng, -7, -1)]))
    elif region == "wrap":
        ra, dec = rng.choice([0.0, TWO_PI_F, TWO_PI_F - log_uniform(rng, -7, -2), log_uniform(rng, -7, -2)]), rng.uniform(-1, 1)
    else:
        ra, dec = sphere_point(rng)
    return [snap(ra, grid, 0.0, TWO_PI_F), snap(dec, grid, -HALF_PI_F, HALF_PI_F)]


def grid_values(rng, fn, grid, n):
    """valid inputs of `fn` on a value grid: dict slot -> rows"""
    region = rng.choice(["any", "any", "pole", "wrap"])
    if fn == "to_3d":
        return {"a": [grid_point(rng, grid, region) for _ in range(n)]}
    if fn == "mean":
        c = grid_point(rng, grid, "any")
        s = log_uniform(rng, -3, -0.5)
        return {"a": [[snap(c[0] + s * rng.uniform(-1, 1), grid, 0.0, TWO_PI_F),
                       snap(c[1] + s * rng.uniform(-1, 1), grid, -HALF_PI_F, HALF_PI_F)] for _ in range(n)]}
    if fn == "distance":
        a = [grid_point(rng, grid, region) for _ in range(n)]
        b = []
        for p in a:
            mode = rng.choice(["any", "small", "small", "antipodal"])
            if mode == "any":
                b.append(grid_point(rng, grid, "any"))
            elif mode == "small":
                s = log_uniform(rng, -6, -1)
                b.append([snap(p[0] + s * rng.uniform(-1, 1), grid, 0.0, TWO_PI_F),
                          snap(p[1] + s * rng.uniform(-1, 1), grid, -HALF_PI_F, HALF_PI_F)])
            else:
                s = log_uniform(rng, -6, -1)
                b.append([snap((p[0] + math.pi + s * rng.uniform(-1, 1)) % TWO_PI_F, grid, 0.0, TWO_PI_F),
                          snap(-p[1] + s * rng.uniform(-1, 1), grid, -HALF_PI_F, HALF_PI_F)])
        return {"a": a, "b": b}
    if fn == "from_3d":
        rows = []
        for _ in range(n):
            while True:
                if grid in ("int", "uint", "bool"):
                    v = [snap(rng.randint(-4, 4), grid, -4, 4) for _ in range(3)]
                else:
                    sc = log_uniform(rng, -1, 1)
                    v = [snap(t * sc, grid, -100.0, 100.0) for t in run_to3d(*grid_point(rng, "f8", region))]
                if v[0] * v[0] + v[1] * v[1] + v[2] * v[2] > 0.0:
                    rows.append(v)
                    break
        return {"a": rows}
    if fn == "chord":
        pick = lambda: rng.choice([rng.uniform(0.0, math.pi), log_uniform(rng, -7, 0), math.pi - log_uniform(rng, -7, 0)])  # noqa: E731
        return {"a": [snap(pick(), grid, 0.0, math.pi) for _ in range(n)]}
    if fn == "angle":
        pick = lambda: rng.choice([rng.uniform(0.0, 2.0), log_uniform(rng, -7, 0), 2.0 - log_uniform(rng, -7, 0)])  # noqa: E731
        return {"a": [snap(pick(), grid, 0.0, 2.0) for _ in range(n)]}
    raise KeyError(fn)


class ReprCase:
    """one call of a primitive with its inputs in some representation, next to the same call on contiguous
    native float64 arrays of the same values"""

    def __init__(self, fn, reps, rows, kind):
        self.fn, self.reps, self.rows, self.kind = fn, reps, rows, kind
        self.cls = self.klass()
        self.got = self.want = self.held = None
        self.refused = None
        self.diff = []          # what differs from the float64 path

    def klass(self):
        order = ["narrow-float", "integer", "wide-float", "byteorder", "layout", "pandas", "single", "sequence", "native"]
        return min((rep_class(r) for r in self.reps.values() if r is not None), key=order.index)

    def key(self):
        return ("repr", self.fn, tuple(sorted((k, v) for k, v in self.reps.items() if v is not None)),
                tuple(sorted((k, str([hexf(t) for t in np.ravel(v)])) for k, v in self.rows.items() if v is not None)))

    def describe(self):
        return {k: "%s/%s/%s" % v for k, v in self.reps.items() if v is not None}

    def replay(self):
        return {"function": REPR_FN[self.fn], "repr_fn": self.fn, "kind": self.kind,
                "representation": {k: list(v) for k, v in self.reps.items() if v is not None},
                "rows_hex": {k: [[hexf(t) for t in r] if isinstance(r, (list, tuple)) else hexf(r) for r in v]
                             for k, v in self.rows.items() if v is not None}}

    @staticmethod
    def call(fn, objs):
        AC, AD = impl.AngularCoordinates, impl.AngularDistances
        if fn == "to_3d":
            o = AC(objs["a"])
            return o.data, o.to_3d()
        if fn == "from_3d":
            return None, AC.from_3d(objs["a"]).data
        if fn == "distance":
            o = AC(objs["a"])
            return o.data, o.distance(AC(objs["b"])).data
        if fn == "mean":
            o = AC(objs["a"])
            return o.data, o.mean(objs.get("w")).data
        if fn == "chord":
            o = AD(objs["a"])
            return o.data, o.to_3d()
        if fn == "angle":
            return None, AD.from_3d(objs["a"]).data
        raise KeyError(fn)

    def run(self):
        canon = {k: (None if v is None else canonical(v)) for k, v in self.rows.items()}
        _, self.want = self.call(self.fn, canon)
        objs = {k: (None if self.rows[k] is None else build(self.reps[k], self.rows[k])) for k in self.rows}
        try:
            self.held, self.got = self.call(self.fn, objs)
        except Exception as exc:       # a refusal of a representation is not a failure of the property
            self.refused = "%s: %s" % (type(exc).__name__, exc)
            return
        got, want = self.got, self.want
        if not isinstance(got, np.ndarray):
            self.diff.append("result is a %s, not an array" % type(got).__name__)
            return
        if got.dtype != NATIVE_F8 or not got.dtype.isnative:
            self.diff.append("result dtype %s instead of float64" % got.dtype)
        if got.shape != want.shape:
            self.diff.append("result shape %s instead of %s" % (got.shape, want.shape))
        elif np.asarray(got, dtype="f8").tobytes() != want.tobytes():
            g, w = np.asarray(got, dtype="f8").ravel(), want.ravel()
            j = [i for i in range(len(w)) if hexf(g[i]) != hexf(w[i])][0]
            self.diff.append("values differ from the float64 path, first at flat index %d: %s instead of %s"
                             % (j, hexf(g[j]), hexf(w[j])))
        if self.held is not None and (not isinstance(self.held, np.ndarray) or self.held.dtype != NATIVE_F8):
            self.diff.append("container holds %s instead of float64" % getattr(self.held, "dtype", type(self.held).__name__))

    def differing_rows(self):
        got, want = self.got, self.want
        if not isinstance(got, np.ndarray) or got.shape != want.shape:
            return []
        g = np.asarray(got, dtype="f8").reshape(want.shape[0], -1)
        w = want.reshape(want.shape[0], -1)
        return [r for r in range(w.shape[0]) if g[r].tobytes() != w[r].tobytes()]

    def sample(self, r):
        """the accuracy goal of row r of the observed result (None when the result has no such row)"""
        got = self.got
        kind = "repr:%s/%s" % (self.cls, self.kind)
        try:
            if self.fn == "to_3d":
                s = mk_to3d(self.rows["a"][r][0], self.rows["a"][r][1], kind, out=[float(t) for t in got[r]])
            elif self.fn == "from_3d":
                s = mk_from3d(self.rows["a"][r], kind, out=(float(got[r, 0]), float(got[r, 1])))
            elif self.fn == "distance":
                s = mk_distance(tuple(self.rows["a"][r]), tuple(self.rows["b"][r]), kind, out=float(got[r]))
            elif self.fn == "mean":
                s = mk_mean([tuple(p) for p in self.rows["a"]], self.rows.get("w"), kind, out=(float(got[0, 0]), float(got[0, 1])))
            elif self.fn == "chord":
                s = mk_chord(self.rows["a"][r], kind, out=float(got[r]))
            else:
                s = mk_angle(self.rows["a"][r], kind, out=float(got[r]))
        except (IndexError, TypeError, ValueError):
            return None
        s.rep = self
        s.row = r
        return s


NATIVE_F8 = np.dtype("f8")

# deterministic probes: single-precision input to every primitive (values are float32 / float16 numbers)
F4 = lambda x: float(np.float32(x))     # noqa: E731
F2 = lambda x: float(np.float16(x))     # noqa: E731
REPR_PROBES = [
    ("to_3d", {"a": ("ndarray", "f4", "c")}, {"a": [[F4(2.3), F4(-0.7)]]}),
    ("to_3d", {"a": ("ndarray", "f2", "c")}, {"a": [[F2(2.3), F2(-0.7)]]}),
    ("distance", {"a": ("ndarray", "f4", "c"), "b": ("ndarray", "f4", "c")},
     {"a": [[F4(2.3), F4(-0.7)]], "b": [[F4(2.3), F4(F4(-0.7) + 1e-4)]]}),
    ("distance", {"a": ("ndarray", "f8", "c"), "b": ("ndarray", "f4", "strided")},
     {"a": [[2.3, -0.7]], "b": [[F4(2.3), F4(-0.7)]]}),
    ("chord", {"a": ("ndarray", "f4", "c")}, {"a": [F4(0.7)]}),
    ("chord", {"a": ("scalar", "f2", "c")}, {"a": [F2(0.7)]}),
    ("mean", {"a": ("ndarray", "f4", "c"), "w": None},
     {"a": [[F4(3.0), F4(0.7)], [F4(3.001), F4(0.7005)], [F4(2.9995), F4(0.6991)]], "w": None}),
    ("mean", {"a": ("list", "f4", "c"), "w": ("ndarray", "f4", "c")},
     {"a": [[F4(0.01), F4(0.2)], [F4(6.28), F4(0.21)]], "w": [F4(0.3), F4(1.7)]}),
    ("from_3d", {"a": ("ndarray", "f4", "c")}, {"a": [[F4(0.6), F4(-0.48), F4(0.64)]]}),
    ("from_3d", {"a": ("ndarray", "f2", "c")}, {"a": [[F2(0.6), F2(-0.48), F2(0.64)]]}),
    ("from_3d", {"a": ("flat-list", "pyint", "c")}, {"a": [[3.0, -4.0, 1.0]]}),
    ("angle", {"a": ("ndarray", "f4", "c")}, {"a": [F4(0.7)]}),
    ("angle", {"a": ("scalar", "f4", "c")}, {"a": [F4(0.7)]}),
    ("angle", {"a": ("list", "py", "c")}, {"a": [0.7, 1.9]}),
]


def repr_cases(ctx):
    rng = ctx.rng
    cases = [ReprCase(fn, reps, rows, "probe") for fn, reps, rows in REPR_PROBES]
    for rnd in range(ctx.n(1, 4)):
        for fn in ("to_3d", "from_3d", "distance", "mean", "chord", "angle"):
            two_d = fn not in ("chord", "angle")
            cover = covering_reps(two_d)
            for rep in cover:
                n = 1 if single_only(rep) else rng.choice([1, 2, 3, 5])
                if fn == "mean" and not single_only(rep):
                    n = rng.choice([2, 3, 4])
                grid = DTYPES[rep[1]][1]
                rows = grid_values(rng, fn, grid, n)
                reps = {"a": rep}
                if fn == "distance":
                    # the other operand in its own representation, on its own grid
                    other = rng.choice([rep, rep] + [r for r in cover if single_only(r) == single_only(rep)])
                    og = DTYPES[other[1]][1]
                    if og != grid:
                        lim = [(0.0, TWO_PI_F), (-HALF_PI_F, HALF_PI_F)]
                        rows["b"] = [[snap(v, og, *lim[i]) for i, v in enumerate(p)] for p in rows["b"]]
                    reps["b"] = other
                if fn == "mean":
                    wrep = rng.choice([None, None] + [r for r in covering_reps(False) if not single_only(r)])
                    reps["w"] = wrep
                    rows["w"] = None
                    if wrep is not None:
                        wg = DTYPES[wrep[1]][1]
                        rows["w"] = [1.0] * n if wg == "bool" else [snap(rng.choice([0.25, 0.5, 1.0, 2.0, 3.0, rng.uniform(0.1, 5.0)]), wg, 1.0 if wg in ("int", "uint") else 0.0625, 5.0) for _ in range(n)]
                cases.append(ReprCase(fn, reps, rows, "cover"))
    return cases


def repr_checks(ctx):
    """runs the representation cases; returns the Samples (accuracy goals on observed rows) that judge() decides"""
    rng = ctx.rng
    cases = repr_cases(ctx)
    samples, terms, tinfo, refused = [], [], [], []
    per_class_goal, per_class_diff = {}, {}
    budget = ctx.n(1, 4)
    for idx, c in enumerate(cases):
        c.case = ("repr", idx)
        c.run()
        ctx.count(key=c.key(), nontrivial=True, kind="repr/%s/%s" % (c.fn, c.cls))
        if c.refused:
            ctx.bump("repr_refused/%s" % c.fn)
            refused.append(dict(c.replay(), refused=c.refused))
            continue
        rows = []
        k = (c.fn, c.cls)
        if c.diff:
            if any(r is not None and DTYPES[r[1]][2] == "wide-float" for r in c.reps.values()):
                # an operand wider than float64 (long double) may be computed on in its own precision: the result
                # need not be the float64 path's, only inside the bounds (decided by the goal below)
                ctx.bump("repr_wide_float_not_bit_identical")
            else:
                ctx.disagree("c14-repr:%s" % c.fn, c.case, {"representation": c.describe(), "differs": c.diff, "replay": c.replay()})
            # decide by the accuracy goal of the differing rows whether the property fails on this input
            # (the first few cases of every function and class; the probes always)
            if c.kind == "probe" or per_class_diff.get(k, 0) < 3 * budget:
                per_class_diff[k] = per_class_diff.get(k, 0) + 1
                rows = c.differing_rows()[:2] or [0]
        if c.kind == "probe" or per_class_goal.get(k, 0) < budget:
            per_class_goal[k] = per_class_goal.get(k, 0) + (c.kind != "probe")
            nrow = 1 if c.fn == "mean" else len(c.rows["a"])
            r = rng.randrange(nrow)
            if r not in rows:
                rows.append(r)
        if c.fn == "mean":
            rows = rows[:1]
        for r in rows:
            s = c.sample(r)
            if s is not None:
                samples.append(s)
        # what the container holds: the source values, exactly, as float64 (Coq: c14_repr_case)
        if c.held is not None and isinstance(c.held, np.ndarray):
            src = [float(t) for t in np.ravel(np.array(c.rows["a"], dtype="f8"))]
            held = [float(t) for t in np.ravel(c.held)]
            if all(math.isfinite(t) for t in held):
                p_, e_, m_ = GRID_FORMAT[DTYPES[c.reps["a"][1]][1]]
                terms.append("c14_repr_case %d %d %d %s %s" % (p_, e_, m_, fq.qlist(src), fq.qlist(held)))
                tinfo.append(c)
    ctx.log("representation cases run: %d; %d container terms for Coq" % (len(cases), len(terms)))
    codes = ctx.shards("Repr_C14", QHEADER, terms, shard=200)
    for c, code in zip(tinfo, codes):
        if code is None:
            continue
        if code & 2:
            ctx.obligation("generator:repr-source-format", False, "a generated value is not of its source format: %s" % c.replay())
        if code & 5:
            c.diff.append("container does not hold the source values as float64 values (code %d)" % code)
            ctx.disagree("c14-repr:held:%s" % c.fn, c.case, {"representation": c.describe(), "code": code, "replay": c.replay()})
    ctx.extra["repr_cases"] = len(cases)
    ctx.extra["repr_refused"] = refused[:8]
    ctx.extra["repr_differing"] = sum(1 for c in cases if c.diff)
    if refused:
        ctx.log("representations refused by the implementation (not failures): %d, e.g. %s" % (len(refused), refused[0]["refused"]))
    ctx.log("representation cases: %d (%d differ from the float64 path), %d accuracy goals on observed rows"
            % (len(cases), ctx.extra["repr_differing"], len(samples)))
    return samples


def large_set_checks(ctx):
    """the mean of a large point set (beyond any block size an implementation may process at once) is the direction of
    the weighted vector sum: compared with the sum of the implementation's own unit vectors accumulated exactly
    (math.fsum), to 1e-9 rad - the per-sample interval goals cover small sets only"""
    rng = ctx.rng
    AC = impl.AngularCoordinates
    sizes = [2 ** 20 + 37] if ctx.quick() else [2 ** 20 + 37, 2 ** 21 + 5, 3 * 2 ** 20 + 1]
    for N in sizes:
        for weighted in (False, True):
            g = np.random.default_rng(rng.randrange(2 ** 31))
            ra0, dec0 = rng.uniform(0.0, 2 * math.pi), rng.uniform(-1.2, 1.2)
            # unevenly filled: the first block is a tight clump, the rest a wide cap elsewhere
            n1 = 2 ** 20 - rng.randrange(1, 50)
            ra = np.concatenate([ra0 + g.uniform(-0.01, 0.01, n1), ra0 + 1.0 + g.uniform(-0.3, 0.3, N - n1)]) % (2 * math.pi)
            dec = np.clip(np.concatenate([dec0 + g.uniform(-0.01, 0.01, n1), -dec0 * 0.5 + g.uniform(-0.3, 0.3, N - n1)]), -1.5, 1.5)
            w = g.uniform(0.5, 2.0, N) if weighted else None
            pts = np.column_stack([ra, dec])
            obj = AC(pts)
            got = obj.mean(w).data[0]
            xyz = obj.to_3d()
            ww = np.ones(N) if w is None else w
            ssum = [math.fsum((xyz[:, k] * ww).tolist()) for k in range(3)]
            ref = AC.from_3d(np.array([ssum])).data[0]
            sep = float(AC(np.array([got])).distance(AC(np.array([ref]))).data[0])
            ctx.count(key=("large-mean", N, weighted), nontrivial=True, kind="large-set/mean")
            if not (sep <= 1e-9):
                ctx.fail("c14-mean-large-set", "mean() of %d points (%s) is %.3g rad away from the direction of the weighted vector sum"
                         % (N, "weighted" if weighted else "unweighted", sep),
                         dict(N=N, weighted=weighted, got=[hexf(x) for x in got], expected=[hexf(x) for x in ref],
                              note="points regenerated from the run's seed (harness/props/c14.py:large_set_checks)"),
                         case=("large-mean", N, weighted))


def interval_axioms(ctx):
    """record verbatim what Interval adds to the trusted base (Print Assumptions of a lemma proved by `interval`)"""
    path = os.path.join(ctx.workdir, "Axioms_C14.v")
    with open(path, "w") as f:
        f.write("From Verif Require Import Prelude Sphere SphereP.\nPrint Assumptions pi_enclosure.\n")
    rc, out = coqrun.coqc_file(path, 600)
    names = sorted(set(re.findall(r"^([A-Za-z_][\w\.']*)(?:\s*:|\s*$)", out, re.M)) - {"Axioms"})
    ok_prefix = ("Uint63.", "PrimInt63.", "PrimFloat.", "FloatAxioms.", "Sint63.", "ClassicalDedekindReals.",
                 "FunctionalExtensionality.", "Classical_Prop.")
    unexpected = [n for n in names if not n.startswith(ok_prefix)]
    ctx.extra["interval_axioms"] = names
    ctx.obligation("axioms:interval (pi_enclosure)", rc == 0 and names and not unexpected,
                   "unexpected axioms under a lemma proved by interval: %s\n%s" % (unexpected, out[-2000:]))


# ----------------------------------------------------------------------------- entry points
def run(ctx):
    impl.set_threads(1)
    interval_axioms(ctx)
    # targeted probe of the known defect (every run, deterministic)
    p, q = ANTIPODAL_PROBE
    probe = mk_distance(p, q, "probe:near-antipodal")
    jobs = gen_samples(ctx)
    samples = [probe] + build_samples(ctx, jobs)
    ctx.log("%d samples of the value generators" % len(samples))
    samples += repr_checks(ctx)
    ctx.log("%d samples, %d with goals" % (len(samples), sum(1 for s in samples if s.atoms)))
    verdict = check_goals(ctx, samples, "Goals_C14")
    judge(ctx, samples, verdict)
    q_checks(ctx)
    batch_checks(ctx)
    value_checks(ctx)
    large_set_checks(ctx)
    ctx.log("undecided goals: %d" % ctx.extra.get("undecided", 0))


def replay(ctx, body):
    """re-run one recorded sample: `./check C14 --replay replays/C14-xxxx.json`"""
    rep = body.get("replay", body)
    fn, inp = rep.get("function"), rep.get("inputs_hex", {})
    h = float.fromhex
    rc = rep.get("representation_case") or (rep if "representation" in rep else None)
    if rc:
        # the recorded call with its inputs in the recorded representation, next to the float64 path
        unhex = lambda v: [[h(t) for t in r] if isinstance(r, list) else h(r) for r in v]      # noqa: E731
        slots = sorted(rc["rows_hex"])
        c = ReprCase(rc["repr_fn"], {k: tuple(rc["representation"][k]) for k in slots},
                     {k: unhex(rc["rows_hex"][k]) for k in slots}, "replay")
        if c.fn == "mean":
            c.reps.setdefault("w", None)
            c.rows.setdefault("w", None)
        c.case = ("repr", 0)
        c.run()
        ctx.log("representation %s: %s" % (c.describe(), c.refused or c.diff or "identical to the float64 path"))
        if c.refused:
            return
        if c.diff:
            ctx.disagree("c14-repr:%s" % c.fn, c.case, {"representation": c.describe(), "differs": c.diff})
        s = c.sample(int(rc.get("row", 0)))
        if s is not None:
            judge(ctx, [s], check_goals(ctx, [s], "Replay_C14"))
        return
    if fn == "AngularCoordinates.to_3d":
        s = mk_to3d(h(inp["ra"]), h(inp["dec"]), "replay")
    elif fn == "AngularDistances.to_3d":
        s = mk_chord(h(inp["d"]), "replay")
    elif fn == "AngularDistances.from_3d":
        s = mk_angle(h(inp["chord"]), "replay")
    elif fn == "AngularCoordinates.distance":
        s = mk_distance((h(inp["ra1"]), h(inp["dec1"])), (h(inp["ra2"]), h(inp["dec2"])), "replay")
    elif fn == "AngularCoordinates.from_3d":
        s = mk_from3d((h(inp["x"]), h(inp["y"]), h(inp["z"])), "replay")
    elif fn == "AngularCoordinates.mean":
        ws = inp.get("weights")
        s = mk_mean([(h(a), h(b)) for a, b in inp["points"]], None if ws is None else [h(w) for w in ws], "replay")
    else:
        ctx.log("replay of this kind of record is not supported: re-run the check with the recorded seed")
        return
    verdict = check_goals(ctx, [s], "Replay_C14")
    judge(ctx, [s], verdict)
