#!/venv/bin/python
"""C06 driver: one interpreter process = one simulated MPI world size.

usage: PYTHONPATH=/verif/harness/sim:<repo src>  /venv/bin/python c06_driver.py job.json out.json

The fake mpi4py (harness/sim/mpi4py) is first on sys.path, the world size is configured BEFORE
`yaw` is imported, so the unchanged source selects its MPI branches at import time.  Every job
runs in a fresh scheduler state (`MPI.run_world`), ranks are threads.  Results are rewritten to
out.json after every job, so a killed process still leaves what it finished."""
import json
import os
import sys
import threading
import time

HERE = os.path.dirname(os.path.abspath(__file__))
if HERE not in sys.path:
    sys.path.insert(0, HERE)       # c06_common (the script directory is sys.path[0] anyway)
sys.dont_write_bytecode = True

import c06_faults as cf  # noqa: E402  (exception catalogue, fault plans, injector; no yaw / mpi4py import)


class JobError(Exception):
    """raised by the job function of the failing-job dispatch scenario; args[0] = the task value"""


class IterTracer:
    """(harness instrumentation, this process only) wraps `parallel.iter_unordered` - every caller in the
    library goes through the module attribute - so that a refusal run can be cut into its iter_unordered
    EPISODES: per rank and call number a begin/end mark in the simulator log, the number of items the
    iterable holds (root; materialised there), the outcome of every call of the job function on that rank
    ('K' returned / 'E' raised, in order), how many results were yielded and how the iterator ended.
    Pass-through while `on` is False."""

    def __init__(self, MPI, parallel):
        self.MPI, self.parallel, self.orig = MPI, parallel, parallel.iter_unordered
        self.on = False
        self.reset()
        tracer = self

        def traced(func, iterable, **kwargs):
            if not tracer.on:
                yield from tracer.orig(func, iterable, **kwargs)
                return
            rank = parallel.COMM.Get_rank()
            k = tracer.count.get(rank, 0)
            tracer.count[rank] = k + 1
            rec = dict(calls="", nyield=0, outcome=None, ntasks=None, kwargs=sorted(kwargs),
                       mw=kwargs.get("max_workers"), node_only=bool(kwargs.get("rank0_node_only", False)))
            tracer.eps.setdefault(k, {})[rank] = rec
            if rank == 0:
                iterable = list(iterable)
                rec["ntasks"] = len(iterable)
            # (v) a fault plan armed for this rank (c06_faults.FAULTS): items tagged with their position, every execution
            # recorded (simulator log: op "xexec") and failed as planned
            w = cf.FAULTS.wrap(func, iterable, kwargs, rank, k, parallel.COMM.Get_rank, tracer.mark_exec)
            if w is not None:
                func, iterable, kwargs = w
                rec["faulted"] = True

            def func2(*a, **kw):
                try:
                    res = func(*a, **kw)
                except Exception:
                    rec["calls"] += "E"
                    raise
                rec["calls"] += "K"
                return res

            tracer.mark(rank, "begin", k)
            try:
                for x in tracer.orig(func2, iterable, **kwargs):
                    rec["nyield"] += 1
                    yield x
                rec["outcome"] = ["returned"]
            except Exception as err:
                rec["outcome"] = ["raised", type(err).__name__, str(err)[:160]]
                rec["errno"] = cf.describe(err)[2]
                raise
            finally:
                tracer.mark(rank, "end", k)

        traced._c06_traced = True
        parallel.iter_unordered = traced

    def reset(self):
        self.eps, self.count = {}, {}

    def mark(self, rank, what, k):
        w = self.MPI._world
        with w.lock:
            w._log(rank, "mark:" + what, None, None, 0, "ep%d" % k)

    def mark_exec(self, rank, ep, item, attempt, failed):
        """one call of the job function of a faulted iter_unordered call, in the order of the simulator log"""
        w = self.MPI._world
        with w.lock:
            w._log(rank, "xexec", None, None, 0, "%d:%d:%d:%d" % (ep, item, attempt, int(failed)))

    def episodes(self, log, size):
        """[{ep, ranks: {rank: record}, complete, log: the events of the episode on COMM_WORLD}]"""
        marks = {}
        for e in log:
            if e[2] == "mark:begin":
                marks[(e[1], int(e[6][2:]))] = [e[0], None]
            elif e[2] == "mark:end" and (e[1], int(e[6][2:])) in marks:
                marks[(e[1], int(e[6][2:]))][1] = e[0]
        out = []
        for k in sorted(self.eps):
            iv = {r: marks.get((r, k)) for r in range(size)}
            evs = []
            for e in log:
                m = iv.get(e[1]) if e[1] is not None else None
                if m and e[5] == 0 and m[0] < e[0] and (m[1] is None or e[0] < m[1]) and not e[2].startswith("mark:"):
                    evs.append(e)
            entered = {(e[2][6:], e[6]) for e in evs if e[1] == 0 and e[2].startswith("enter:")}
            evs += [e for e in log if e[1] is None and e[5] == 0 and e[2].startswith("done:") and (e[2][5:], e[6]) in entered]
            evs.sort(key=lambda e: e[0])
            out.append(dict(ep=k, ranks={str(r): self.eps[k].get(r) for r in range(size)},
                            complete=all(iv[r] is not None and iv[r][1] is not None for r in range(size)), log=evs))
        return out


def main():
    job_path, out_path = sys.argv[1], sys.argv[2]
    job = json.load(open(job_path))
    size = int(job["size"])
    t0 = time.time()
    import mpi4py
    from mpi4py import MPI
    assert os.path.realpath(mpi4py.__file__).startswith(os.path.realpath(os.path.join(HERE, "..", "sim"))), mpi4py.__file__
    MPI.configure(size)
    import logging
    import yaw
    from yaw.utils import parallel
    import yaw.catalog.catalog as ycat
    logging.getLogger("yaw").setLevel(logging.CRITICAL)
    repo_src = os.environ.get("VERIF_REPO_SRC", "/repo/src")
    out = {
        "size": size,
        "yaw_file": yaw.__file__,
        "yaw_from_repo": os.path.realpath(yaw.__file__).startswith(os.path.realpath(repo_src) + "/"),
        "mpi_branch": bool(parallel.use_mpi() and parallel.COMM is MPI.COMM_WORLD and hasattr(ycat, "WorkerManager")),
        "import_s": round(time.time() - t0, 2),
        "results": [],
    }

    def flush():
        tmp = out_path + ".tmp"
        with open(tmp, "w") as fh:
            json.dump(out, fh, default=str)
        os.replace(tmp, out_path)

    flush()
    # hard stop: never hang the harness
    limit = float(job.get("process_limit", 240.0))

    def killer():
        time.sleep(limit)
        out["killed"] = "process limit %.0fs" % limit
        try:
            flush()
        finally:
            os._exit(3)

    threading.Thread(target=killer, daemon=True).start()

    import c06_common as cc
    tracer = IterTracer(MPI, parallel)
    timeout = float(job.get("timeout", 60.0))
    poisoned = False
    for j in job["jobs"]:
        if poisoned:
            out["results"].append({"id": j.get("id"), "kind": j["kind"], "skipped": "earlier run left stuck threads"})
            continue
        kind = j["kind"]
        if kind == "dispatch":
            res = run_dispatch(MPI, parallel, size, j, timeout)
        elif kind == "create":
            res = run_stage(MPI, size, j, timeout,
                            lambda rank, j=j: cc.stage_create(j["spec"], j["cache"], j["max_workers"], j.get("which", "data"),
                                                              j.get("opts")))
        elif kind == "rest":
            at = {}
            res = run_stage(MPI, size, j, timeout,
                            lambda rank, j=j, at=at: cc.stage_rest(j["spec"], j["caches"], j["outdir"], j["max_workers"],
                                                                   rank == 0, j.get("ops"), j.get("opts"),
                                                                   mark=lambda op: at.__setitem__(str(rank), op)))
            res["runs"][0]["at"] = dict(at)      # the operation every rank was in when the run ended
        elif kind == "refusal":
            res = run_refusal(MPI, size, j, timeout, cc, tracer)
        elif kind == "selftest":
            res = run_selftest(MPI, size, timeout)
        else:
            res = {"error": "unknown job kind " + kind}
        res["id"] = j.get("id")
        res["kind"] = kind
        out["results"].append(res)
        if any(r.get("stuck") for r in res.get("runs", [])):
            poisoned = True
        flush()
    out["wall_s"] = round(time.time() - t0, 2)
    flush()
    sys.stdout.flush()
    os._exit(0)      # daemon threads of aborted worlds must not keep the process alive


def pack(run, keep_log=True, all_ranks=False):
    """make the result of MPI.run_world JSON-able and small"""
    ranks = {}
    for r, v in run["results"].items():
        if v[0] == "ok":
            ranks[r] = {"status": "ok"}
            if all_ranks or r == "0":
                ranks[r]["value"] = v[1]
        elif v[0] == "exc":
            ranks[r] = {"status": "exc", "type": v[1], "msg": v[2], "tb": v[3]}
        else:
            ranks[r] = {"status": v[0]}
    out = {"outcome": run["outcome"], "abort": run["abort"], "ranks": ranks, "decisions": run["decisions"],
           "leftover": run["leftover"], "stuck": run["stuck"], "wall": run["wall"], "nlog": len(run["log"])}
    if keep_log:
        out["log"] = run["log"]
    return out


# how the caller of iter_unordered uses the iterator.  The library's own callers: a dict comprehension
# (load_patches), deque(maxlen=0) (build_trees), a for loop (count_pairs, HistData.from_catalog) - each of them
# around utils.logging.Indicator(iterator, number of items) when progress=True.  All of these EXHAUST the iterator.
CONSUMERS = ("list", "for", "dict", "deque", "enumerate", "gen", "chain", "indicator", "indicator-nolen", "indicator-for")


def wrap_consumer(it, consumer, nitems, sink):
    """the iterable the caller loops over (exhausting consumers); sink collects what the caller sees"""
    import itertools
    from collections import deque
    if consumer in ("indicator", "indicator-for", "indicator-nolen"):
        from yaw.utils.logging import Indicator
        it = Indicator(it, nitems) if consumer != "indicator-nolen" else Indicator(it)
    elif consumer == "enumerate":
        it = (x for _, x in enumerate(it))
    elif consumer == "chain":
        it = itertools.chain(it, ())
    elif consumer in ("gen", "deque"):
        def passthrough(src=it):
            for x in src:
                yield x
        it = passthrough()
    if consumer == "deque":
        def tee(src=it):
            for x in src:
                sink.append(x)
                yield x
        deque(tee(), maxlen=0)
        return ()
    if consumer == "dict":
        return list({x: None for x in it})
    if consumer in ("list", "indicator"):
        return list(it)
    return it


def run_dispatch(MPI, parallel, size, j, timeout):
    tasks = list(j["tasks"])
    consumer = j.get("consumer") or ("for" if (j.get("bad") is not None or j.get("fault") is not None) else "list")   # failing jobs: what was yielded before counts
    stop = j.get("stop")          # the consumer asks for at most this many items (itertools.islice / break)
    mw = j.get("max_workers")
    node_only = bool(j.get("node_only"))
    sched0 = dict(j.get("sched") or {})
    bad = set(j["bad"]) if j.get("bad") is not None else None
    plan = cf.Plan(j["fault"]) if j.get("fault") is not None else None     # (v) transient failures, execution counts

    def one(sched):
        executed = []
        lock = threading.Lock()
        inj = cf.Injector()

        def mark_exec(rank, ep, item, attempt, failed):
            w = MPI._world
            with w.lock:
                w._log(rank, "xexec", None, None, 0, "%d:%d:%d:%d" % (ep, item, attempt, int(failed)))
            with lock:
                executed.append([rank, tasks[item], attempt, bool(failed)])

        def f(t):
            if plan is not None:
                # every execution is recorded (task, rank, number of earlier executions, failed?) and fails as planned
                return inj.execute(plan, 0, tasks.index(t), len(tasks), parallel.COMM.Get_rank(), lambda: 3 * t + 1, mark_exec)
            with lock:
                executed.append([parallel.COMM.Get_rank(), t])
            if bad is not None and t in bad:
                raise JobError(t)
            return 3 * t + 1

        def fn(rank):
            import itertools
            it = parallel.iter_unordered(f, iter(list(tasks)), max_workers=mw, rank0_node_only=node_only)
            if stop is not None:
                if consumer == "break":
                    got = []
                    for x in it:
                        got.append(x)
                        if len(got) >= stop:
                            break
                    return got
                return list(itertools.islice(it, stop))
            if plan is not None:
                got = []
                try:
                    for x in wrap_consumer(it, consumer, len(tasks), got):
                        got.append(x)
                except Exception as err:
                    return {"got": got, "raised": cf.describe(err)}
                return {"got": got, "raised": None}
            if bad is None:
                got = []
                for x in wrap_consumer(it, consumer, len(tasks), got):
                    got.append(x)
                return got
            # failing-job scenario: what the iterator yielded before it ended, and how it ended, per rank
            got = []
            try:
                for x in wrap_consumer(it, consumer, len(tasks), got):
                    got.append(x)
            except JobError as err:
                return {"got": got, "raised": ["JobError", err.args[0] if err.args else None]}
            except Exception as err:
                return {"got": got, "raised": [type(err).__name__, str(err)[:200]]}
            return {"got": got, "raised": None}

        run = MPI.run_world(size, MPI.Schedule.from_dict(sched), fn, timeout)
        p = pack(run, keep_log=True, all_ranks=True)
        p["executed"] = executed
        p["sched"] = sched
        return p

    runs = []
    if not j.get("exhaustive"):
        runs.append(one(sched0))
    else:
        # depth-first enumeration of every sequence of wildcard choices
        maxruns = int(j.get("maxruns", 300))
        prefix = []
        complete = False
        while len(runs) < maxruns:
            sched = dict(sched0, policy="explicit", choices=list(prefix))
            p = one(sched)
            runs.append(p)
            chosen = [d["chosen"] for d in p["decisions"]]
            ncand = [d["ncand"] for d in p["decisions"]]
            i = len(chosen) - 1
            while i >= 0 and chosen[i] + 1 >= ncand[i]:
                i -= 1
            if i < 0 or (p["outcome"] != "ok" and not (stop is not None and p["outcome"] == "deadlock" and not p["stuck"])):
                # (a consumer that stops early deadlocks the world by design: go on with the next sequence)
                complete = i < 0
                break
            prefix = chosen[:i] + [chosen[i] + 1]
        return {"runs": runs, "exhaustive_complete": complete}
    return {"runs": runs}


def run_stage(MPI, size, j, timeout, body):
    run = MPI.run_world(size, MPI.Schedule.from_dict(j.get("sched")), body, timeout)
    p = pack(run, keep_log=bool(j.get("keep_log", True)), all_ranks=bool(j.get("all_ranks", False)))
    p["sched"] = j.get("sched")
    if p.get("log") and len(p["log"]) > 4000:
        p["log"] = p["log"][:2000] + p["log"][-2000:]
    return {"runs": [p]}


COLL_KINDS = {"Barrier": 1, "bcast": 2, "Bcast": 3, "gather": 4, "Split": 5}


def collective_traces(log, size):
    """per communicator id: {rank: [code of every collective call the rank entered, in order]};
    code = 8 * kind + (root + 1, or 0 for calls without a root) as in Model/MpiWrite.v"""
    worlds = {}
    for e in log:
        rank, op, root, cid = e[1], e[2], e[3], e[5]
        if rank is None or not op.startswith("enter:"):
            continue
        code = 8 * COLL_KINDS[op[6:]] + (0 if root is None else int(root) + 1)
        worlds.setdefault(str(cid), {}).setdefault(str(rank), []).append(code)
    if "0" in worlds:                 # COMM_WORLD: every rank is a member, also one that never called
        for r in range(size):
            worlds["0"].setdefault(str(r), [])
    return worlds


def run_refusal(MPI, size, j, timeout, cc, tracer=None):
    """a refused request + barrier + valid follow-up operation on every rank of one world"""
    first = {}
    body = lambda rank: cc.stage_refusal(j["cls"], j["spec"], j["env"], j["par"], j["max_workers"], rank, first,
                                         j["follow"], j.get("opts"))
    trace = bool(j.get("trace")) and tracer is not None
    if trace:
        tracer.reset()
        tracer.on = True
    cf.FAULTS.reset()
    try:
        run = MPI.run_world(size, MPI.Schedule.from_dict(j.get("sched")), body, timeout)
    finally:
        if tracer is not None:
            tracer.on = False
        for r in range(size):
            cf.FAULTS.disarm(r)
    p = pack(run, keep_log=False)
    if trace:
        p["episodes"] = tracer.episodes(run["log"], size)
    p["xlog"] = list(cf.FAULTS.xlog)        # every execution of a job while a fault plan was armed: [episode, item, rank, earlier executions, failed]
    p["sched"] = j.get("sched")
    p["first"] = {str(r): v for r, v in sorted(first.items())}
    p["ctraces"] = collective_traces(run["log"], size)
    p["blocked"] = (run["abort"] or {}).get("blocked")
    return {"runs": [p]}


def run_selftest(MPI, size, timeout):
    """self-check of the simulator semantics (runs every time; needs size >= 3)"""
    from yaw.utils.parallel import EndOfQueue
    import numpy as np
    checks = {}
    C = MPI.COMM_WORLD

    # (a) per-sender FIFO + wildcard choice steered by the schedule + sentinel identity + copy semantics
    def fifo(rank):
        if rank == 0:
            got = [C.recv(source=MPI.ANY_SOURCE, tag=7) for _ in range(5)]
            return got
        if rank == 1:
            payload = {"x": [1]}
            C.send(payload, dest=0, tag=7)
            payload["x"].append(2)            # must not be visible to the receiver
            C.send(("b", 1), dest=0, tag=7)
            C.send(EndOfQueue, dest=0, tag=7)
        if rank == 2:
            C.send(("a", 2), dest=0, tag=7)
            C.send(("b", 2), dest=0, tag=7)
        return None

    for pol, want in (("low", [{"x": [1]}, ("b", 1), "EOQ", ("a", 2), ("b", 2)]),
                      ("high", [("a", 2), ("b", 2), {"x": [1]}, ("b", 1), "EOQ"])):
        for mode in ("eager", "sync"):
            r = MPI.run_world(3, MPI.Schedule(mode, pol, 0), fifo, 10)
            got = r["results"]["0"][1] if r["results"]["0"][0] == "ok" else None
            ok = r["outcome"] == "ok" and got is not None and [("EOQ" if g is EndOfQueue else g) for g in got] == want
            checks["fifo/%s/%s" % (pol, mode)] = bool(ok)
    # explicit choices: take sender 2 first, then sender 1, ...
    r = MPI.run_world(3, MPI.Schedule("eager", "explicit", 0, [1, 0, 0, 0, 0]), fifo, 10)
    got = r["results"]["0"][1]
    checks["explicit"] = [("EOQ" if g is EndOfQueue else g) for g in got] == [("a", 2), {"x": [1]}, ("b", 1), "EOQ", ("b", 2)]

    # (b) synchronous send returns only after the matching receive; eager returns at once
    def order(rank):
        if rank == 0:
            C.send("m", dest=1, tag=1)
            return "sent"
        if rank == 1:
            C.recv(source=2, tag=1)          # first wait for rank 2
            return C.recv(source=0, tag=1)
        if rank == 2:
            C.send("go", dest=1, tag=1)
    r = MPI.run_world(3, MPI.Schedule("sync", "low", 0), order, 10)
    lg = [(e[1], e[2], e[3]) for e in r["log"]]
    checks["sync_blocks"] = r["outcome"] == "ok" and lg.index((1, "recv", 2)) < lg.index((1, "recv", 0))

    # (c) deadlock: everybody receives
    r = MPI.run_world(3, MPI.Schedule("eager", "low", 0), lambda rank: C.recv(source=(rank + 1) % 3, tag=1), 10)
    checks["deadlock_detected"] = r["outcome"] == "deadlock" and all(v[0] == "aborted" for v in r["results"].values())
    # (c') head-to-head synchronous sends deadlock, eager ones do not
    def h2h(rank):
        if rank < 2:
            C.send("x", dest=1 - rank, tag=1)
            return C.recv(source=1 - rank, tag=1)
    checks["h2h_sync_deadlock"] = MPI.run_world(3, MPI.Schedule("sync", "low", 0), h2h, 10)["outcome"] == "deadlock"
    checks["h2h_eager_ok"] = MPI.run_world(3, MPI.Schedule("eager", "low", 0), h2h, 10)["outcome"] == "ok"
    # (d) collective mismatch and missing member
    def mism(rank):
        if rank == 0:
            C.Barrier()
        else:
            C.bcast(None, root=0)
    checks["collective_mismatch"] = MPI.run_world(3, MPI.Schedule(), mism, 10)["outcome"] == "deadlock"
    checks["collective_missing"] = MPI.run_world(3, MPI.Schedule(), lambda rank: C.Barrier() if rank else None, 10)["outcome"] == "deadlock"

    # (e) collectives: bcast copy + class identity, Bcast in place, gather, Split
    def coll(rank):
        x = C.bcast({"k": EndOfQueue} if rank == 0 else None, root=0)
        buf = np.arange(4.0) if rank == 0 else np.empty(4)
        C.Bcast(buf, root=0)
        g = C.gather(rank * 10, root=0)
        sub = C.Split(1 if rank != 1 else MPI.UNDEFINED, rank)
        info = None
        if rank != 1:
            info = (sub.Get_rank(), sub.Get_size(), sub.bcast(rank, root=0))
            sub.Barrier()
            sub.Free()
        return (x["k"] is EndOfQueue, buf.tolist(), g, info, MPI.COMM_WORLD.Get_rank(), bool(sub))
    r = MPI.run_world(3, MPI.Schedule(), coll, 10)
    want = {"0": (True, [0.0, 1.0, 2.0, 3.0], [0, 10, 20], (0, 2, 0), 0, True),
            "1": (True, [0.0, 1.0, 2.0, 3.0], None, None, 1, False),
            "2": (True, [0.0, 1.0, 2.0, 3.0], None, (1, 2, 0), 2, True)}
    checks["collectives"] = r["outcome"] == "ok" and all(r["results"][k] == ("ok", want[k]) for k in want)
    # (f) determinism: same schedule, same decisions
    d1 = MPI.run_world(3, MPI.Schedule("eager", "random", 5), fifo, 10)["decisions"]
    d2 = MPI.run_world(3, MPI.Schedule("eager", "random", 5), fifo, 10)["decisions"]
    checks["deterministic"] = d1 == d2 and len(d1) == 5
    return {"runs": [], "selftest": checks}


if __name__ == "__main__":
    main()
