"""C05 — results do not depend on worker count or completion order (multiprocessing).

Tie: every parallel entry point (Catalog(cache), Catalog.build_trees, autocorrelate,
crosscorrelate, HistData.from_catalog) is run on the controllable pool (harness/sim/pool.py)
under all completion orders for <= 4 tasks and seeded permutations beyond, for several worker
counts; the public results must be bit-identical to the sequential run, and the results in
ARRIVAL order together with the final arrays are handed to Coq, where the keyed-fold model of
Model/Schedule.v must reproduce the final arrays (c05_counts_case, c05_hist_case).  The real
multiprocessing pool is run as well (2, 4 and, in the thorough tier, 16 workers).

Process history (props/c05_history.py, props/c05_fresh.py, Model/MemoHistory.v): after histories of 5-40 configurations that
were created, used and discarded in this process (addresses recycled), one configuration is measured with 1 worker, on the
simulated and on the real pool and through an equal-valued second object; all must equal, bit for bit, the measurement of a
process without any history; the logged history (Alloc / Use / Free over the interpreter's addresses) is checked in Coq.
"""
import itertools
import shutil

import numpy as np

from lib import floatq as fq
from lib import impl
from sim import pool as simpool
from props.c01 import offset, cluster

ALLOWED_AXIOMS = []
TRUSTED = [
    "controllable pool: imap_unordered yields the (sequentially computed) results in a harness-chosen permutation; "
    "the OS scheduler is not exhibited — any order it can produce is a permutation, which the theorems cover",
]
ASSUMPTIONS = ["results are compared by the bit patterns of the public arrays (counts, sum_weights, data, samples)"]
RULE = ("cases = (entry point, catalog, completion order, worker count); distinct by that tuple; non-trivial when the "
        "completion order differs from the submission order")
HEADER = "From Verif Require Import Prelude Schedule RoundRobin.\nOpen Scope nat_scope.\n"


def bits(a):
    return np.ascontiguousarray(np.asarray(a, dtype="f8")).view("u8").tolist()


def cf_bits(cfs):
    out = []
    for cf in cfs:
        for kind in ("dd", "dr", "rd", "rr"):
            nc = getattr(cf, kind)
            if nc is None:
                out.append(None)
            else:
                out.append((bits(nc.counts.counts), bits(nc.sum_weights.sum_weights1), bits(nc.sum_weights.sum_weights2)))
    return out


def make_cats(ctx, seed, npatch, with_z_unk=False, suffix="", generic=False, dirfn=None):
    import random
    rng = random.Random(seed)     # the same seed gives the same data (in other cache directories with a suffix)
    cents = [offset(80.0, 15.0, k * 1.0, (k % 2) * 0.4) for k in range(npatch)]
    centers = impl.AngularCoordinates(np.deg2rad(np.asarray(cents)))

    def mk(name, n, with_z):
        pts = [p for k in range(npatch) for p in cluster(rng, cents[k][0], cents[k][1], max(2, n // npatch), 0.45)]
        # generic: weights whose float64 sums round (the order of additions then shows in the last bits)
        cols = {"ra": [p[0] for p in pts], "dec": [p[1] for p in pts],
                "w": [rng.uniform(0.05, 3.0) if generic else rng.randrange(1, 9) / 2.0 for _ in pts]}
        kw = dict(ra_name="ra", dec_name="dec", weight_name="w", patch_centers=centers, max_workers=1)
        if with_z:
            cols["z"] = [rng.choice([0.15, 0.25, 0.3, 0.45, 0.6]) for _ in pts]
            kw["redshift_name"] = "z"
        return impl.Catalog.from_dataframe((dirfn or impl.fresh_dir)(ctx, name + suffix), impl.make_df(cols), **kw)
    return mk("ref", 30, True), mk("unk", 24, with_z_unk), mk("rand", 30, True)


def cat_view(c):
    """everything a loaded catalog reports through its public accessors, in the order it reports it"""
    return (list(c.keys()), list(iter(c)), len(c), c.num_patches, bool(c.has_weights), bool(c.has_redshifts),
            [int(x) for x in c.get_num_records()], [float(x).hex() for x in c.get_sum_weights()],
            c.get_centers().data.tolist(), c.get_radii().data.tolist(),
            [(k, p.meta.num_records, float(p.meta.sum_weights).hex(), p.meta.center.data.tolist(), p.meta.radius.data.tolist())
             for k, p in c.items()],
            [(p.meta.num_records, float(p.meta.sum_weights).hex()) for p in c.values()])


def ppc_term(r):
    return "{| id1 := %s; id2 := %s; sw1 := %s; sw2 := %s; cnts := %s |}" % (
        fq.nat(r.id1), fq.nat(r.id2), fq.qlist(r.sum_weights1), fq.qlist(r.sum_weights2), fq.qmat(r.counts))


class LoggingMP(simpool.FakeMP):
    """FakeMP that also records the results of every imap_unordered call in arrival order"""

    def __init__(self, schedule):
        super().__init__(schedule)
        self.arrivals = []

    def Pool(self, n=None):
        mp = self
        base = super().Pool(n)

        class P(type(base)):
            def imap_unordered(self_inner, func, iterable):
                got = []
                for r in simpool.FakePool.imap_unordered(self_inner, func, iterable):
                    got.append(r)
                    yield r
                mp.arrivals.append(got)
        p = P(self, n)
        return p


class patched(simpool.patched):
    def __init__(self, schedule):
        super().__init__(schedule)
        self.mp = LoggingMP(schedule)


def orders(rng, ntasks, limit):
    if ntasks <= 4:
        perms = list(itertools.permutations(range(ntasks)))
    else:
        perms = [tuple(range(ntasks)), tuple(reversed(range(ntasks)))]
        while len(perms) < limit:
            p = list(range(ntasks)); rng.shuffle(p); perms.append(tuple(p))
    rng.shuffle(perms)
    return perms[:limit]


def run_generic(ctx):
    """Weights that are not dyadic: float64 additions round, so any accumulation in completion order (instead of
    a fixed order by patch index) changes the last bits.  Only schedule against schedule is compared here (bit
    patterns against the sequential run); the exact-arithmetic cases above carry the model correspondence."""
    import yaw
    from yaw.redshifts import HistData
    rng = ctx.rng
    for rep in range(ctx.n(2, 6)):
        npatch = rng.choice([4, 5, 6])
        ref, unk, rand = make_cats(ctx, rng.randrange(10 ** 6), npatch, suffix="_g", generic=True)
        edges = [0.1, 0.3, 0.5, 0.7]
        cfg = yaw.Configuration.create(rmin=[1.0, 5.0], rmax=[20.0, 60.0], unit="arcmin", edges=edges, max_workers=1)
        base = dict(auto=cf_bits(yaw.autocorrelate(cfg, ref, rand, max_workers=1)),
                    cross=cf_bits(yaw.crosscorrelate(cfg, ref, unk, ref_rand=rand, max_workers=1)))
        h0 = HistData.from_catalog(ref, cfg, max_workers=1)
        base["hist"] = (bits(h0.data), bits(h0.samples))
        for entry in ("hist", "auto", "cross"):
            perms = orders(rng, npatch, ctx.n(8, 24)) if entry == "hist" else [None] * ctx.n(3, 8)
            for k, perm in enumerate(perms):
                w = [2, npatch, npatch + 3][k % 3]
                sch = simpool.Schedule("random", seed=rng.randrange(10 ** 6)) if perm is None else \
                    simpool.Schedule("random", seed=0, explicit=[list(perm)] * 50)
                with patched(sch) as mp:
                    if entry == "hist":
                        h = HistData.from_catalog(ref, cfg, max_workers=w)
                        got = (bits(h.data), bits(h.samples))
                    elif entry == "auto":
                        got = cf_bits(yaw.autocorrelate(cfg, ref, rand, max_workers=w))
                    else:
                        got = cf_bits(yaw.crosscorrelate(cfg, ref, unk, ref_rand=rand, max_workers=w))
                used = [o for o in mp.schedule.log]
                ctx.count(key=("generic", rep, entry, tuple(map(tuple, used)), w), nontrivial=any(o != sorted(o) for o in used),
                          kind="generic-weights/%s/w%d" % (entry, w))
                if got != base[entry]:
                    ctx.fail("c05-%s-depends-on-completion-order" % entry,
                             "%s (generic float weights) with %d workers under completion order %s differs in its bits from the sequential result"
                             % (entry, w, used[:3]), dict(entry=entry, workers=w, orders=used[:6], npatch=npatch, generic_weights=True),
                             case=("generic", rep, entry, k))
        # tree building with non-default keywords (leafsize, closed side): the trees, and every weighted count
        # made with them, must not depend on how many workers built them
        for leafsize, closed in ((4, "right"), (1, "left"), (64, "right")):
            cfg_l = yaw.Configuration.create(rmin=[1.0, 5.0], rmax=[20.0, 60.0], unit="arcmin", edges=edges, closed=closed, max_workers=1)
            for c in (ref, rand):
                c.build_trees(edges, closed=closed, leafsize=leafsize, force=True, max_workers=1)
            want_l = cf_bits(yaw.autocorrelate(cfg_l, ref, rand, max_workers=1))
            for w in (2, npatch + 1):
                with patched(simpool.Schedule("random", seed=rng.randrange(10 ** 6))) as mp:
                    for c in (ref, rand):
                        c.build_trees(edges, closed=closed, leafsize=leafsize, force=True, max_workers=w)
                got_l = cf_bits(yaw.autocorrelate(cfg_l, ref, rand, max_workers=1))
                ctx.count(key=("generic", rep, "trees-kw", leafsize, closed, w), nontrivial=True, kind="generic-weights/trees-keywords/w%d" % w)
                if got_l != want_l:
                    ctx.fail("c05-trees-depends-on-worker-count",
                             "trees built with leafsize=%d, closed=%s by %d workers give other (weighted) pair counts than the same trees built by one worker"
                             % (leafsize, closed, w), dict(entry="trees", leafsize=leafsize, closed=closed, workers=w, npatch=npatch, generic_weights=True),
                             case=("generic", rep, "trees-kw", leafsize, closed, w))
        for c in (ref, rand):
            c.build_trees(edges, closed="right", force=True, max_workers=1)
        for w in (2, 5):
            h = HistData.from_catalog(ref, cfg, max_workers=w)
            ctx.count(key=("generic", rep, "real-hist", w), nontrivial=True, kind="generic-weights/real-pool/w%d" % w)
            if (bits(h.data), bits(h.samples)) != base["hist"]:
                ctx.fail("c05-hist-depends-on-completion-order", "HistData.from_catalog (generic float weights) on the real pool with %d workers differs" % w,
                         dict(workers=w, generic_weights=True), case=("generic", rep, "real-hist", w))
        for c in (ref, unk, rand):
            shutil.rmtree(str(c.cache_directory), ignore_errors=True)


def run_inputs_reused(ctx):
    """A catalog must be the same object whoever created it: built by one worker (in the calling process) or by several
    (whose results come back as copies), what it reports must not depend on what the caller does with the arrays it handed
    over afterwards."""
    rng = ctx.rng
    for rnd in range(ctx.n(2, 8)):
        npatch = rng.choice([2, 3, 4])
        cents = [offset(120.0 + 9.0 * rnd, -25.0, k * 1.0, (k % 2) * 0.4) for k in range(npatch)]
        pts = [p for k in range(npatch) for p in cluster(rng, cents[k][0], cents[k][1], 8, 0.4)]
        cols = {"ra": np.array([p[0] for p in pts]), "dec": np.array([p[1] for p in pts]), "w": np.array([rng.randrange(1, 17) / 4.0 for _ in pts])}   # dyadic: sums do not depend on the row order in a patch
        arr = np.deg2rad(np.asarray(cents, dtype="f8")).copy()
        views, cats = {}, []
        for label, w, real in (("w1", 1, False), ("sim3", 3, False), ("real2", 2, True)):
            kw = dict(ra_name="ra", dec_name="dec", weight_name="w", patch_centers=impl.AngularCoordinates(arr), chunksize=7, max_workers=w)
            if real or w == 1:
                cat = impl.Catalog.from_dataframe(impl.fresh_dir(ctx, "reuse_" + label), impl.make_df(cols), **kw)
            else:
                with patched(simpool.Schedule("random", seed=rng.randrange(10 ** 6))):
                    cat = impl.Catalog.from_dataframe(impl.fresh_dir(ctx, "reuse_" + label), impl.make_df(cols), **kw)
            cats.append((label, cat))
            views[label] = cat_view(cat)
        arr += 0.25          # the caller goes on using its centre array
        arr[:, 1] *= -1.0
        ctx.count(key=("inputs-reused", rnd), nontrivial=True, kind="inputs-reused")
        base = views["w1"]
        for label, cat in cats:
            now = cat_view(cat)
            if views[label] != base or now != base:
                ctx.fail("c05-catalog-depends-on-worker-count-after-inputs-reused",
                         "the catalog created with %s reports other centres / radii / counts than the one created by one worker after the caller "
                         "overwrote the centre array it had handed over (%s)" % (label, "already at creation" if views[label] != base else "after the overwrite"),
                         dict(created_by=label, npatch=npatch), case=("inputs-reused", rnd, label))
            shutil.rmtree(str(cat.cache_directory), ignore_errors=True)


def run_large_patch(ctx):
    """A patch with more than a million weighted records: any work split, block size or memory budget that depends on
    the number of workers shows in the last bits of weighted sums.  Histogram and catalog accessors with 1, 2, 5 and 16
    workers (simulated pool) and on the real pool must agree bit for bit."""
    import yaw
    from yaw.redshifts import HistData
    n = (1 << 20) + 150001
    g = np.random.default_rng(ctx.rng.randrange(2 ** 31))
    cols = {"ra": 40.0 + g.uniform(-2.0, 2.0, n), "dec": -10.0 + g.uniform(-2.0, 2.0, n), "w": g.uniform(0.05, 3.0, n),
            "z": g.uniform(0.05, 0.75, n)}
    small = 5000
    cols2 = {k: np.concatenate([v, (v[:small] + (3.0 if k in ("ra",) else 0.0))]) for k, v in cols.items()}
    centers = impl.AngularCoordinates(np.deg2rad(np.array([[40.0, -10.0], [43.0, -10.0]])))
    cat = impl.Catalog.from_dataframe(impl.fresh_dir(ctx, "large_patch"), impl.make_df(cols2), ra_name="ra", dec_name="dec", weight_name="w",
                                      redshift_name="z", patch_centers=centers, max_workers=1)
    cfg = yaw.Configuration.create(rmin=1.0, rmax=10.0, unit="arcmin", edges=[0.1, 0.2, 0.3, 0.4, 0.5, 0.6, 0.7], max_workers=1)
    h0 = HistData.from_catalog(cat, cfg, max_workers=1)
    want = (bits(h0.data), bits(h0.samples))
    view0 = cat_view(impl.Catalog(cat.cache_directory, max_workers=1))
    for w, real in ((2, False), (5, False), (16, False), (16, True), (3, True)):
        if real:
            h = HistData.from_catalog(cat, cfg, max_workers=w)
            view = cat_view(impl.Catalog(cat.cache_directory, max_workers=w))
        else:
            with patched(simpool.Schedule("random", seed=ctx.rng.randrange(10 ** 6))):
                h = HistData.from_catalog(cat, cfg, max_workers=w)
                view = cat_view(impl.Catalog(cat.cache_directory, max_workers=w))
        ctx.count(key=("large-patch", w, real), nontrivial=True, kind="large-patch/%s/w%d" % ("real-pool" if real else "sim-pool", w))
        if (bits(h.data), bits(h.samples)) != want:
            ctx.fail("c05-hist-depends-on-worker-count", "HistData.from_catalog of a catalog with a patch of %d weighted records differs in its bits "
                     "between 1 and %d workers (%s pool)" % (n, w, "real" if real else "simulated"),
                     dict(entry="hist", workers=w, real_pool=real, patch_records=n, generic_weights=True), case=("large-patch", w, real))
        if view != view0:
            ctx.fail("c05-load-depends-on-completion-order", "Catalog(cache) of a catalog with a patch of %d records loaded with %d workers reports other values" % (n, w),
                     dict(entry="load", workers=w, real_pool=real, patch_records=n), case=("large-patch-load", w, real))
    shutil.rmtree(str(cat.cache_directory), ignore_errors=True)

POPS = {}


class PopLogSet(set):
    """a set that records the order in which pop() hands its elements out; the key attribute survives the deepcopy the
    iterator makes of the dictionary"""

    def pop(self):
        j = set.pop(self)
        POPS.setdefault(self.key, []).append(j)
        return j


def run_job_iterator(ctx, terms, metas):
    """PatchLinkage.iter_patch_id_pairs against Model/RoundRobin.v: the model is given, per key, the order in which the
    real sets handed their elements out, and must then reproduce the job list exactly (phase 1, the interleaving of the
    sweeps, the j > i filter of an autocorrelation, the end of the while loop, the KeyError)."""
    import yaw
    from yaw.correlation.measurements import PatchLinkage
    rng = ctx.rng
    cfg = yaw.Configuration.create(rmin=1.0, rmax=20.0, unit="arcmin", edges=[0.1, 0.5], max_workers=1)
    dicts = []
    for k in range(ctx.n(40, 300)):
        n = rng.choice([1, 2, 3, 4, 6, 9, 14])
        keys = rng.sample(range(0, 3 * n + 2), n) if rng.random() < 0.5 else list(range(n))
        dens = rng.choice([0.0, 0.2, 0.5, 0.9, 1.0])
        links = {i: {j for j in keys if j == i or rng.random() < dens} for i in keys}
        kind = "generated"
        if rng.random() < 0.5:       # symmetric, as from_catalogs builds them
            for i in keys:
                for j in list(links[i]):
                    links[j].add(i)
            kind = "generated-symmetric"
        if rng.random() < 0.15 and n > 0:     # malformed: a key whose set lacks the key itself
            links[rng.choice(keys)].discard(rng.choice(keys))
            kind = "generated-maybe-malformed"
        dicts.append((kind, links))
    # dictionaries of real catalogs
    for k in range(ctx.n(2, 6)):
        npatch = rng.choice([3, 5, 12])
        ref, unk, rand = make_cats(ctx, rng.randrange(10 ** 6), npatch, suffix="_rr%d" % k)
        lk = PatchLinkage.from_catalogs(cfg, ref, unk)
        dicts.append(("from_catalogs", {int(i): {int(j) for j in v} for i, v in lk.patch_links.items()}))
        for c in (ref, unk, rand):
            shutil.rmtree(str(c.cache_directory), ignore_errors=True)
    for k, (kind, links) in enumerate(dicts):
        for auto in (True, False):
            POPS.clear()
            logged = {}
            for i, v in links.items():
                s = PopLogSet(v)
                s.key = i
                logged[i] = s
            linkage = PatchLinkage(cfg, logged)
            try:
                got = [(int(a), int(b)) for a, b in linkage.iter_patch_id_pairs(auto=auto)]
            except KeyError:
                got = None
            if any(set(v) != links[i] for i, v in logged.items()):
                ctx.fail("c05-job-iterator-empties-the-linkage", "iter_patch_id_pairs changed the dictionary of the linkage itself",
                         dict(links={str(i): sorted(v) for i, v in links.items()}, auto=auto), case=("rr", k, auto))
            st = []
            for i, v in links.items():
                order = ([i] if i in v else []) + POPS.get(i, [])
                if got is None:
                    order = order + sorted(set(v) - set(order))
                if set(order) != set(v) or len(order) != len(v):
                    ctx.disagree("job-iterator-pop-log", ("rr", k, auto), "the sets were not emptied by pop() alone: %r popped from %r" % (order, sorted(v)))
                    order = sorted(v)
                st.append(fq.pair(fq.nat(i), fq.nlist(order)))
            terms.append("c05_iter_case %s %s %s" % (fq.b(auto), fq.lst(st),
                         "None" if got is None else "(Some %s)" % fq.lst([fq.pair(fq.nat(a), fq.nat(b)) for a, b in got])))
            metas.append((("rr", k, auto), dict(entry="iter_patch_id_pairs", kind=kind, auto=auto, links={str(i): sorted(v) for i, v in links.items()}, got=got)))
            ctx.count(key=("rr", k, auto, kind), nontrivial=got is not None and len(got) > len(links), kind="job-iterator/%s/%s" % (kind, "keyerror" if got is None else "jobs"))
            # independent of the model: the documented set of jobs, each once
            if got is not None:
                want = {(i, i) for i in links} | {(i, j) for i, v in links.items() for j in v if j != i and (not auto or j > i)}
                if len(got) != len(set(got)) or set(got) != want:
                    ctx.fail("c05-job-list-not-the-linked-pairs-once", "iter_patch_id_pairs(auto=%s) lists %d jobs, %d distinct, documented %d"
                             % (auto, len(got), len(set(got)), len(want)), dict(links={str(i): sorted(v) for i, v in links.items()}, auto=auto, got=got),
                             case=("rr", k, auto))

START_SCRIPT = r"""
import json, sys, multiprocessing
import numpy as np
P = json.loads(sys.stdin.read())
multiprocessing.set_start_method(P["method"], force=True)
import yaw
from astropy.cosmology import FlatLambdaCDM, LambdaCDM
cos = {"flat": FlatLambdaCDM(H0=61.0, Om0=0.41), "curved": LambdaCDM(H0=70.0, Om0=0.3, Ode0=0.9), "named": "WMAP9"}[P["cosmology"]]
cfg = yaw.Configuration.create(rmin=P["rmin"], rmax=P["rmax"], unit=P["unit"], rweight=P["rweight"], resolution=P["resolution"],
                               edges=P["edges"], closed=P["closed"], cosmology=cos, max_workers=1)
out = {}
for w in P["workers"]:
    ref, unk, rand = (yaw.Catalog(d, max_workers=w) for d in P["dirs"])
    cfs = yaw.crosscorrelate(cfg, ref, unk, ref_rand=rand, max_workers=w)
    h = yaw.HistData.from_catalog(ref, cfg, max_workers=w) if hasattr(yaw, "HistData") else None
    from yaw.redshifts import HistData
    h = HistData.from_catalog(ref, cfg, max_workers=w)
    out[str(w)] = [[np.ascontiguousarray(getattr(cf, k).counts.counts).view("u8").tolist() for k in ("dd", "dr") if getattr(cf, k) is not None] for cf in cfs] \
        + [np.ascontiguousarray(h.data).view("u8").tolist(), np.ascontiguousarray(h.samples).view("u8").tolist()]
print(json.dumps(out))
"""


def run_start_methods(ctx):
    """How worker processes come to life: forked (they inherit the parent's memory), spawned or served by a fork server (they start
    empty and receive everything by pickling).  The result must not depend on the worker count under ANY start method, for any
    configuration value (non-default cosmology, units, separation weights)."""
    from lib import optmode
    rng = ctx.rng
    for rnd in range(ctx.n(1, 4)):
        ref, unk, rand = make_cats(ctx, rng.randrange(10 ** 6), 3, suffix="_sm%d" % rnd)
        dirs = [str(c.cache_directory) for c in (ref, unk, rand)]
        for method in (["spawn", "forkserver"] if ctx.quick() else ["fork", "spawn", "forkserver"]):
            payload = dict(method=method, dirs=dirs, workers=[1, 2, 3], cosmology=rng.choice(["flat", "curved", "named"]),
                           rmin=[100.0, 500.0], rmax=[1000.0, 5000.0], unit=rng.choice(["kpc", "kpc/h", "Mpc"]) if rnd else "kpc",
                           rweight=rng.choice([None, -0.8]), resolution=rng.choice([None, 20]), edges=[0.1, 0.3, 0.5, 0.7],
                           closed=rng.choice(["left", "right"]))
            if payload["unit"] == "Mpc":
                payload["rmin"], payload["rmax"] = [0.1, 0.5], [1.0, 5.0]
            res = optmode.run(START_SCRIPT, payload, flags=(), env_extra=dict(PYTHONPATH=impl.REPO_SRC, YAW_NUM_THREADS="4"), timeout=600)
            ctx.count(key=("start", rnd, method), nontrivial=True, kind="start-method/%s" % method)
            got = res["result"]
            if res["rc"] != 0 or not isinstance(got, dict):
                ctx.fail("c05-start-method-run-fails:%s" % method, "a measurement in an interpreter whose worker processes are started by %r "
                         "did not complete: %s" % (method, res["stderr"][-600:]), dict(payload=payload), case=("start", rnd, method))
                continue
            if not (got["1"] == got["2"] == got["3"]):
                ctx.fail("c05-depends-on-worker-count:start-method-%s" % method,
                         "crosscorrelate / HistData.from_catalog with worker processes started by %r differ between 1, 2 and 3 workers "
                         "(1 worker runs in the calling process)" % method, dict(payload=payload, equal_1_2=got["1"] == got["2"], equal_2_3=got["2"] == got["3"]),
                         case=("start", rnd, method))
        for c in (ref, unk, rand):
            shutil.rmtree(str(c.cache_directory), ignore_errors=True)


def run(ctx):
    import yaw
    from yaw.redshifts import HistData
    rng = ctx.rng
    impl.set_threads(16)
    terms, metas = [], []
    # a long-lived parent with a history of discarded configurations against fresh worker processes (props/c05_history.py);
    # first, while this process has no other past than the one the scenario gives it
    from props import c05_history
    hterms, hmetas = c05_history.run(ctx)
    for rep in range(ctx.n(2, 8)):
        # rep 1: more than ten patches (patch_10 sorts before patch_2 as a string)
        npatch = 3 if rep == 0 else 12 if rep == 1 else rng.choice([2, 3, 4])
        dseed = rng.randrange(10 ** 6)
        ref, unk, rand = make_cats(ctx, dseed, npatch)
        edges = [0.1, 0.3, 0.5, 0.7]
        cfg = yaw.Configuration.create(rmin=[1.0, 5.0], rmax=[20.0, 60.0], unit="arcmin", edges=edges, max_workers=1)
        # ---- sequential baselines
        base_auto = cf_bits(yaw.autocorrelate(cfg, ref, rand, max_workers=1))
        base_cross = cf_bits(yaw.crosscorrelate(cfg, ref, unk, ref_rand=rand, max_workers=1))
        h0 = HistData.from_catalog(ref, cfg, max_workers=1)
        base_hist = (bits(h0.data), bits(h0.samples))
        base_keys = list(impl.Catalog(ref.cache_directory, max_workers=1).keys())
        base_meta = [(p.meta.num_records, float(p.meta.sum_weights).hex(), p.meta.center.data.tolist(), p.meta.radius.data.tolist())
                     for p in impl.Catalog(ref.cache_directory, max_workers=1).values()]
        base_view = cat_view(impl.Catalog(ref.cache_directory, max_workers=1))
        workers_list = [2, npatch, npatch + 2]
        for entry in ("hist", "load", "trees", "auto", "cross"):
            ntasks = npatch if entry in ("hist", "load", "trees") else None
            nperm = ctx.n(6, 24)
            perms = orders(rng, ntasks, nperm) if ntasks else [None] * ctx.n(3, 10)
            for k, perm in enumerate(perms):
                w = workers_list[k % len(workers_list)]
                mode = "random"
                sch = simpool.Schedule(mode, seed=rng.randrange(10 ** 6)) if perm is None else \
                    simpool.Schedule("random", seed=0, explicit=[list(perm)] * 50)
                px = patched(sch)
                with px as mp:
                    if entry == "hist":
                        h = HistData.from_catalog(ref, cfg, max_workers=w)
                        got, want = (bits(h.data), bits(h.samples)), base_hist
                    elif entry == "load":
                        c = impl.Catalog(ref.cache_directory, max_workers=w)
                        got = (list(c.keys()), [(p.meta.num_records, float(p.meta.sum_weights).hex(), p.meta.center.data.tolist(), p.meta.radius.data.tolist()) for p in c.values()],
                               cat_view(c))
                        want = (base_keys, base_meta, base_view)
                    elif entry == "trees":
                        ref.build_trees(edges, closed="right", force=True, max_workers=w)
                        got = cf_bits(yaw.autocorrelate(cfg, ref, rand, max_workers=1))
                        want = base_auto
                    elif entry == "auto":
                        res = yaw.autocorrelate(cfg, ref, rand, max_workers=w)
                        got, want = cf_bits(res), base_auto
                    else:
                        res = yaw.crosscorrelate(cfg, ref, unk, ref_rand=rand, max_workers=w)
                        got, want = cf_bits(res), base_cross
                used = [o for o in mp.schedule.log]
                nontrivial = any(o != sorted(o) for o in used)
                cid = (rep, entry, k)
                ctx.count(key=(rep, entry, tuple(map(tuple, used)), w), nontrivial=nontrivial, kind="%s/w%d" % (entry, w))
                if got != want:
                    ctx.fail("c05-%s-depends-on-completion-order" % entry,
                             "%s with %d workers under completion order %s differs from the sequential result"
                             % (entry, w, used[:3]), dict(entry=entry, workers=w, orders=used[:6], npatch=npatch), case=cid)
                # model correspondence on the arrival logs
                if entry in ("auto", "cross"):
                    # count_pairs calls are the imap_unordered calls whose results are PatchPaircounts
                    kinds = [("dd", True), ("dr", False), ("rr", True)] if entry == "auto" else [("dd", False), ("rd", False)]
                    pc_logs = [a for a in mp.arrivals if a and hasattr(a[0], "id1")]
                    for (kind, is_auto), arr in zip(kinds, pc_logs):
                        ncs = [getattr(cf, kind) for cf in res]
                        cells = [[[[float(ncs[s].counts.counts[b, i, j]) for b in range(len(edges) - 1)] for s in range(len(ncs))]
                                  for j in range(npatch)] for i in range(npatch)]
                        sw = ncs[0].sum_weights
                        terms.append("c05_counts_case %s %s %s %s %s %s" % (
                            fq.b(is_auto), fq.nat(npatch), fq.lst([ppc_term(r) for r in arr]),
                            fq.lst([fq.lst([fq.qmat(cells[i][j]) for j in range(npatch)]) for i in range(npatch)]),
                            fq.qmat(sw.sum_weights1.T), fq.qmat(sw.sum_weights2.T)))
                        metas.append(((rep, entry, k, kind), dict(entry=entry, kind=kind, workers=w, order=[(r.id1, r.id2) for r in arr])))
                elif entry == "hist":
                    arr = [a for a in mp.arrivals if a and isinstance(a[0], tuple) and len(a[0]) == 2]
                    if arr:
                        rows = h.samples  # not the raw rows; rebuild raw rows from the arrival log instead
                        raw = {int(i): c for i, c in arr[0]}
                        impl_rows = [[float(x) for x in raw[i]] for i in range(npatch)] if len(raw) == npatch else []
                        # the data is the column sum of the rows the implementation filled: check that too
                        terms.append("c05_hist_case %s %s %s" % (
                            fq.nat(npatch), fq.lst([fq.pair(fq.nat(int(i)), fq.qlist(c)) for i, c in arr[0]]), fq.qmat(impl_rows)))
                        metas.append(((rep, entry, k, "rows"), dict(entry=entry, workers=w, order=[int(i) for i, _ in arr[0]])))
                        if not np.array_equal(np.sum(np.asarray(impl_rows), axis=0), h.data):
                            ctx.fail("c05-hist-data-not-sum-of-rows", "histogram data is not the sum over the per-patch rows",
                                     dict(entry=entry, workers=w), case=cid)
                    else:
                        ctx.disagree("hist-arrival-log", cid, "HistData.from_catalog results no longer carry their patch index")
                ctx.sample(dict(entry=entry, workers=w, completion_orders=used[:3]), limit=4)
        # ---- real multiprocessing
        for w in ([2, 4] if ctx.quick() else [2, 4, 16]):
            res = yaw.crosscorrelate(cfg, ref, unk, ref_rand=rand, max_workers=w)
            ctx.count(key=(rep, "real", w), nontrivial=True, kind="real-pool/w%d" % w)
            if cf_bits(res) != base_cross:
                ctx.fail("c05-cross-depends-on-completion-order", "crosscorrelate on the real pool with %d workers differs" % w,
                         dict(workers=w), case=(rep, "real", w))
            h = HistData.from_catalog(ref, cfg, max_workers=w)
            if (bits(h.data), bits(h.samples)) != base_hist:
                ctx.fail("c05-hist-depends-on-completion-order", "HistData.from_catalog on the real pool with %d workers differs" % w,
                         dict(workers=w), case=(rep, "real-hist", w))
            if cat_view(impl.Catalog(ref.cache_directory, max_workers=w)) != base_view:
                ctx.fail("c05-load-depends-on-completion-order", "Catalog(cache) loaded on the real pool with %d workers reports other values / another order "
                         "through its accessors than the sequential load" % w, dict(workers=w), case=(rep, "real-load", w))
        # ---- real multiprocessing after an earlier sequential measurement with OTHER edges of the same
        #      bin count in this process: worker processes must not see anything stale from the parent
        edges_b = [0.1, 0.275, 0.475, 0.7]
        cfg_b = yaw.Configuration.create(rmin=[1.0, 5.0], rmax=[20.0, 60.0], unit="arcmin", edges=edges_b, max_workers=1)
        fresh = make_cats(ctx, dseed, npatch, suffix="_fresh")                                      # same data, other directories
        want_b = cf_bits(yaw.crosscorrelate(cfg_b, fresh[0], fresh[1], ref_rand=fresh[2], max_workers=1))
        for c in fresh:
            shutil.rmtree(str(c.cache_directory), ignore_errors=True)
        for w in (2, 4):
            yaw.crosscorrelate(cfg, ref, unk, ref_rand=rand, max_workers=1)                          # first binning, sequential, in this process
            got_b = cf_bits(yaw.crosscorrelate(cfg_b, ref, unk, ref_rand=rand, max_workers=w))       # other edges, worker processes
            ctx.count(key=(rep, "real-history", w), nontrivial=True, kind="real-pool-history/w%d" % w)
            if got_b != want_b:
                ctx.fail("c05-cross-depends-on-worker-count-after-history",
                         "crosscorrelate with %d worker processes after an earlier sequential measurement with other edges (same bin count) "
                         "differs from the sequential result on fresh caches" % w,
                         dict(workers=w, edges_first=edges, edges_second=edges_b), case=(rep, "real-history", w))
        for c in (ref, unk, rand):
            shutil.rmtree(str(c.cache_directory), ignore_errors=True)
    run_job_iterator(ctx, terms, metas)
    run_start_methods(ctx)
    run_generic(ctx)
    run_large_patch(ctx)
    run_inputs_reused(ctx)
    impl.set_threads(1)
    codes = ctx.shards("Cases_C05", HEADER, terms, shard=40)
    for (cid, meta), c in zip(metas, codes):
        if c:
            ctx.disagree("Cases_C05", cid, dict(code=c, meta=meta))
    c05_history.finish(ctx, hterms, hmetas)
