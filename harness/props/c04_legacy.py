"""C04 (i) - pair counts read from LEGACY files (the layout of yaw < 3.0, recognised by the missing `version` tag).

Every other family of C04 reads only files the library wrote itself, so the legacy branches of the readers
(utils/misc.py:is_legacy_dataset, binning.py:load_legacy_binning, PatchedCounts.from_hdf, PatchedSumWeights.from_hdf,
NormalisedCounts.from_hdf, CorrFunc.from_hdf) never ran.  Here the HARNESS writes the files (h5py, `write_legacy`): per
pair-count member a group `count` (binning as (left, right) rows with attribute `closed`, n_patches, auto, keys = patch pairs,
data = one row per key with one value per bin) and a group `total` (binning, n_patches, auto, totals1, totals2 with shape
(patches, bins)), no `version` anywhere - for auto- and cross-correlations holding dd and EVERY subset of {dr, rd, rr}
(the empty one must be refused), 1-4 bins x 2-7 patches (as many patches as bins included: a table that is not transposed
fits silently), every number profile of the hand-built families (dense / sparse / dyadic / binary counts, all magnitude and
weight profiles: DIFFERENT total weights of the two samples of a member), keys in file order / shuffled / with explicit
all-zero rows / every pair, with and without the filters yaw 2 applied (gzip, shuffle, fletcher32), closed left and right.
Judged:
 (a) the containers CorrFunc.from_file restores, field by field against the numbers written: roles present, auto (counts and
     sum_weights), counts, sum_weights1 = totals1^T, sum_weights2 = totals2^T (roles of the two samples not exchanged), binning
     edges and closed side of both containers;  in Coq: Model/LegacyCounts.v `decode` (c04_legacy_case bit 3);
 (b) CorrFunc.sample() against the estimator model on the decoded numbers (c04_legacy_case bits 0, 1, 2, 4 = c04_corr_case_x)
     and RedshiftData.from_corrfuncs of triples read from files (legacy and current layout mixed) against the exact model
     values on the numbers written (c04_legacy_nz_case), .normalised() as in family (a) of c04.py;
 (c) the restored CorrFunc written in the CURRENT layout: the file read by the harness itself (c04_big.read_file) against the
     numbers, read back by the library field by field, its sample() bit-identical to the one before and to the one of a
     container built from the numbers by the constructors.
Props: C04_legacy_decode_keeps_roles, C04_legacy_cross_denominator / _cross_term / _auto_denominator,
C04_legacy_first_twice_agrees_equal_totals / _denominator / _refuted, C04_legacy_swapped_same_cross_denominator / _refuted,
C04_legacy_untransposed_square_refuted, C04_legacy_case_sound, C04_concrete_legacy.
"""
import os

import numpy as np

from lib import floatq as fq
from lib import impl
from props import _jk_common as jk
from props import c04_big

HEADER = "From Verif Require Import Prelude Jackknife Estimators LegacyCounts.\nOpen Scope Q_scope.\n"
ROLES = jk.ALLK
HDF_NAMES = c04_big.HDF_NAMES
KEY_STYLES = ("file-order", "shuffled", "zero-rows", "every-pair")
SOURCES = ("plain", "mag", "weights")

TRUSTED = [
    "legacy files: the writer of the legacy layout (props/c04_legacy.py:write_legacy, h5py) follows what the legacy branches of the "
    "readers open (group and dataset names, (patches, bins) orientation of totals1 / totals2, (left, right) rows of the binning); "
    "it was not compared with files produced by an installation of yaw 2",
]
ASSUMPTIONS = [
    "legacy files: datasets are float64 (keys int64, n_patches an integer scalar, auto a boolean scalar), keys are distinct and inside "
    "0..n_patches-1, the `count` and `total` groups of a member carry the same binning, n_patches and auto flag, all members of a file the "
    "same binning and patch number; a file with data_data only must be refused (any exception)",
]
RULE = ("legacy cases (kind legacy/<auto|cross>/<roles>/<number source>) = (all numbers written, closed side, key order and explicit "
        "zero rows per member, filters), non-trivial when the sampled result is finite and some member's two samples have different "
        "total weights in some bin (histogram legacy-member-totals/*); legacy-nz/* = triples of files (layout per member)")


class Batch(jk.Batch):
    """jk.Batch with the header that knows Model/LegacyCounts.v; the handler sees every code, zero included"""

    def run(self):
        if not self.items:
            return
        codes = self.ctx.shards(self.name, HEADER, [t for t, _, _ in self.items], shard=self.shard)
        for idx, ((term, handler, replay), c) in enumerate(zip(self.items, codes)):
            if c is None:
                continue
            handler(c, "%s#%d" % (self.name, idx), replay)


# ----------------------------------------------------------------------------- the legacy layout
def legacy_member(p, keys):
    """p = pair-count description (auto, counts (B,N,N), w1 (B,N), w2 (B,N)); keys = the patch pairs given an entry
    -> the content of the legacy groups: python floats only"""
    counts = np.asarray(p["counts"], dtype=float)
    w1, w2 = np.asarray(p["w1"], dtype=float), np.asarray(p["w2"], dtype=float)
    B, N = w1.shape
    return dict(auto=bool(p["auto"]), N=N, B=B, keys=[(int(i), int(j)) for i, j in keys],
                data=[[float(counts[b, i, j]) for b in range(B)] for i, j in keys],
                totals1=[[float(w1[b, i]) for b in range(B)] for i in range(N)],      # (patches, bins)
                totals2=[[float(w2[b, i]) for b in range(B)] for i in range(N)])


def gen_keys(rng, p, style):
    counts = np.asarray(p["counts"], dtype=float)
    N = counts.shape[1]
    nonzero = [(i, j) for i in range(N) for j in range(N) if np.any(counts[:, i, j] != 0.0)]     # the order np.nonzero gives
    rest = [(i, j) for i in range(N) for j in range(N) if (i, j) not in set(nonzero)]
    if style == "file-order":
        return nonzero
    if style == "shuffled":
        keys = list(nonzero)
        rng.shuffle(keys)
        return keys
    if style == "zero-rows":
        keys = nonzero + [k for k in rest if rng.random() < 0.5]
        rng.shuffle(keys)
        return keys
    keys = nonzero + rest
    keys.sort()
    return keys


def write_binning(group, edges, closed):
    e = np.asarray(edges, dtype=np.float64)
    dset = group.create_dataset("binning", data=np.column_stack([e[:-1], e[1:]]))
    dset.attrs["closed"] = closed


def write_legacy_member(group, L, edges, closed, filters):
    """one NormalisedCounts in the layout of yaw < 3.0 (no `version` dataset in any group)"""
    kw = dict(compression="gzip", shuffle=True, fletcher32=True) if filters else {}
    cnt = group.create_group("count")
    write_binning(cnt, edges, closed)
    cnt.create_dataset("n_patches", data=L["N"])
    cnt.create_dataset("auto", data=L["auto"])
    keys = np.asarray(L["keys"], dtype=np.int64).reshape(len(L["keys"]), 2)
    data = np.asarray(L["data"], dtype=np.float64).reshape(len(L["keys"]), L["B"])
    some = dict(kw) if len(L["keys"]) else {}
    cnt.create_dataset("keys", data=keys, **some)
    cnt.create_dataset("data", data=data, **some)
    tot = group.create_group("total")
    write_binning(tot, edges, closed)
    tot.create_dataset("n_patches", data=L["N"])
    tot.create_dataset("auto", data=L["auto"])
    tot.create_dataset("totals1", data=np.asarray(L["totals1"], dtype=np.float64), **kw)
    tot.create_dataset("totals2", data=np.asarray(L["totals2"], dtype=np.float64), **kw)


def write_legacy(path, edges, closed, members, filters):
    import h5py
    with h5py.File(path, "w") as f:
        for role in ROLES:
            if members.get(role) is not None:
                write_legacy_member(f.create_group(HDF_NAMES[role]), members[role], edges, closed, filters)


def members_of(spec, lay):
    return {k: None if spec["kinds"][k] is None else legacy_member(spec["kinds"][k], lay["keys"][k]) for k in ROLES}


# ----------------------------------------------------------------------------- Coq terms
def legacy_term(L):
    return "(Build_legacy %s %s %s %s %s %s)" % (
        fq.b(L["auto"]), fq.nat(L["N"]), fq.lst(L["keys"], lambda k: "(%s, %s)" % (fq.nat(k[0]), fq.nat(k[1]))),
        fq.qmat(L["data"]), fq.qmat(L["totals1"]), fq.qmat(L["totals2"]))


def lcf_term(members):
    def o(L):
        return "None" if L is None else "(Some %s)" % legacy_term(L)
    return "(Build_lcf %s %s %s %s)" % (legacy_term(members["dd"]), o(members["dr"]), o(members["rd"]), o(members["rr"]))


# ----------------------------------------------------------------------------- field by field
def _same(a, want):
    a = np.asarray(a)
    want = np.asarray(want, dtype=float)
    return a.shape == want.shape and bool(np.array_equal(np.asarray(a, dtype=float), want))


def field_problems(cf, edges, closed, kinds):
    """[(field, text)]: what the containers of cf store against the numbers the harness wrote"""
    out = []
    e = np.asarray(edges, dtype=float)
    for k in ROLES:
        nc, p = getattr(cf, k), kinds[k]
        if (nc is None) != (p is None):
            out.append(("roles", "%s is %s although the file %s a group %s" % (k, "missing" if nc is None else "present",
                                                                               "holds" if p is not None else "lacks", HDF_NAMES[k])))
            continue
        if p is None:
            continue
        w1, w2 = np.asarray(p["w1"], dtype=float), np.asarray(p["w2"], dtype=float)
        differ = not np.array_equal(w1, w2)
        for name, got in (("counts.auto", nc.counts.auto), ("sum_weights.auto", nc.sum_weights.auto)):
            if bool(got) != bool(p["auto"]):
                out.append(("auto", "%s.%s = %r, the file says auto = %r" % (k, name, bool(got), bool(p["auto"]))))
        if not _same(nc.counts.counts, p["counts"]):
            out.append(("counts", "%s.counts.counts (shape %s) is not the table of the file's keys / data (zero where a pair has no key)"
                        % (k, np.asarray(nc.counts.counts).shape)))
        for name, got, want, other, ds, ods in (("sum_weights1", nc.sum_weights.sum_weights1, w1, w2, "totals1", "totals2"),
                                                ("sum_weights2", nc.sum_weights.sum_weights2, w2, w1, "totals2", "totals1")):
            if _same(got, want):
                continue
            if differ and _same(got, other):
                why = "holds the transposed %s, i.e. the OTHER sample's sums of weights, instead of %s" % (ods, ds)
            elif _same(got, want.T):
                why = "holds %s as stored, (patches, bins), not transposed to (bins, patches)" % ds
            else:
                why = "(shape %s) is not the transposed %s" % (np.asarray(got).shape, ds)
            out.append((name, "%s.sum_weights.%s %s" % (k, name, why)))
        for name, binning in (("counts", nc.counts.binning), ("sum_weights", nc.sum_weights.binning)):
            if not _same(binning.edges, e):
                out.append(("binning", "%s.%s.binning.edges = %s, the file's (left, right) rows give %s"
                            % (k, name, np.asarray(binning.edges).tolist(), e.tolist())))
            if str(binning.closed) != closed:
                out.append(("closed", "%s.%s.binning.closed = %s, the file's attribute says %s" % (k, name, binning.closed, closed)))
    return out


MODELLED = ("roles", "auto", "counts", "sum_weights1", "sum_weights2")      # the fields the Coq record pc / cfs holds


def sparse_kinds(kinds):
    """the numbers in the form c04_big.compare_file takes"""
    out = {}
    for k in ROLES:
        p = kinds[k]
        if p is None:
            out[k] = None
            continue
        c = np.asarray(p["counts"], dtype=float)
        B, N = c.shape[0], c.shape[1]
        out[k] = dict(auto=bool(p["auto"]), N=N, B=B, pairs={(i, j): [float(c[b, i, j]) for b in range(B)] for i in range(N) for j in range(N)},
                      w1=[[float(x) for x in r] for r in p["w1"]], w2=[[float(x) for x in r] for r in p["w2"]])
    return out


def totals_differ(kinds):
    for k in ROLES:
        p = kinds[k]
        if p is not None and not np.array_equal(np.asarray(p["w1"], dtype=float).sum(axis=1), np.asarray(p["w2"], dtype=float).sum(axis=1)):
            return True
    return False


def describe(spec, lay):
    sub = jk.subset_of(spec)
    return "%s dd+{%s}, %d bins x %d patches, closed=%s, keys %s, filters %s" % (
        "auto" if spec["kinds"]["dd"]["auto"] else "cross", ",".join(sub), len(spec["edges"]) - 1, spec["N"], lay["closed"],
        lay["style"], "on" if lay["filters"] else "off")


# ----------------------------------------------------------------------------- one file
_DIRS = {}


def scratch(ctx):
    """one scratch folder per run (below one of lib/impl's oddly named parents)"""
    d = _DIRS.get(id(ctx))
    if d is None or not os.path.isdir(d):
        d = _DIRS[id(ctx)] = impl.fresh_dir(ctx, "legacy")
        os.makedirs(d, exist_ok=True)
    return d


def _rm(*paths):
    for p in paths:
        if os.path.exists(p):
            os.remove(p)


def h_legacy(ctx, probs, sub, what):
    def h(c, case, replay):
        modelled = [p for p in probs if p[0] in MODELLED]
        if c & 32:
            ctx.disagree("c04_legacy_case:model-of-the-reading-loop-or-ill-formed-file", case, dict(code=c, replay=replay))
            return
        if c & 8:
            if modelled:
                f, text = modelled[0]
                ctx.fail("c04-legacy-restored:%s" % f, "CorrFunc.from_file of a legacy (yaw < 3.0 layout) file (%s): %s%s"
                         % (what, text, "; also: " + "; ".join(t for _, t in modelled[1:4]) if len(modelled) > 1 else ""), replay, case=case)
            else:
                ctx.disagree("c04_legacy_case:restored-differs-in-coq-only", case, dict(code=c, replay=replay))
        elif modelled:
            ctx.disagree("c04_legacy_case:restored-differs-in-python-only", case, dict(code=c, fields=[f for f, _ in modelled], replay=replay))
        if replay["raised"] is not None:
            if c & 1:
                ctx.fail("c04-legacy-sample-raises", "CorrFunc.sample() of a CorrFunc read from a legacy file (%s) raises %s although the "
                         "documented estimator is defined for dd+{%s}" % (what, replay["raised"], ",".join(sub)), replay, case=case)
            return
        if c & 1 and not sub:
            ctx.fail("c04-legacy-dd-only-accepted", "a legacy file holding data_data only was read and sampled, although no estimator "
                     "is defined without dr, rd or rr", replay, case=case)
            return
        why = (" - the restored containers already differ from the file (see c04-legacy-restored)" if c & 8 else
               " although the restored containers hold the file's numbers")
        if c & 16:
            ctx.fail("c04-legacy-estimator-ignores-rr", "CorrFunc.sample().data of a CorrFunc read from a legacy file (%s) is the estimator "
                     "applied when rr is absent, although the file holds random_random (code %d)%s" % (what, c, why), replay, case=case)
        elif c & 2:
            ctx.fail("c04-legacy-estimator-value", "CorrFunc.sample().data of a CorrFunc read from a legacy file (%s) is not the documented "
                     "estimator of the terms total pair count / (sum of totals1 * sum of totals2) of the file's numbers (code %d)%s"
                     % (what, c, why), replay, case=case)
        if c & 4:
            ctx.fail("c04-legacy-estimator-samples", "CorrFunc.sample().samples of a CorrFunc read from a legacy file (%s) are not the "
                     "estimator of the file's numbers with one patch left out of counts, totals1 and totals2 (code %d)%s"
                     % (what, c, why), replay, case=case)
        if c & 1 and not c & 6:
            ctx.disagree("c04_legacy_case", case, dict(code=c, replay=replay))
    return h


def case_legacy(ctx, batch, spec, lay, tag):
    """write spec in the legacy layout, read it with CorrFunc.from_file, judge (a) (b) (c)"""
    from yaw import CorrFunc
    edges, kinds, closed = spec["edges"], spec["kinds"], lay["closed"]
    B, N = len(edges) - 1, spec["N"]
    sub = jk.subset_of(spec)
    auto = bool(kinds["dd"]["auto"])
    what = describe(spec, lay)
    replay = dict(kind="legacy", spec=spec, lay=lay, raised=None)
    members = members_of(spec, lay)
    d = scratch(ctx)
    path = os.path.join(d, "%s_legacy.hdf" % tag)
    write_legacy(path, edges, closed, members, lay["filters"])
    source = (spec.get("mag") or {}).get("profile", "plain")
    kind = "legacy/%s/%s/%s" % ("auto" if auto else "cross", "+".join(("dd",) + sub), source)
    ctx.bump("legacy-keys/%s" % lay["style"])
    ctx.bump("legacy-member-totals/%s" % ("differ" if totals_differ(kinds) else "equal"))
    if B == N:
        ctx.bump("legacy-as-many-patches-as-bins")
    try:
        cf = jk.quiet(CorrFunc.from_file, path)
    except Exception as e:  # noqa: BLE001
        cf, err = None, e
    finally:
        _rm(path)
    if cf is None:
        replay["raised"] = type(err).__name__
        if sub:
            ctx.count(key=("legacy-read-raised", repr(spec), repr(lay)), kind=kind + "/read-raised")
            ctx.fail("c04-legacy-read-raises:%s" % type(err).__name__, "CorrFunc.from_file raises %s (%s) on a legacy (yaw < 3.0 layout) "
                     "file (%s)" % (type(err).__name__, str(err)[:200], what), replay)
            return
        batch.add("c04_legacy_case %s %s %s None None" % (fq.nat(B), fq.nat(N), lcf_term(members)), h_legacy(ctx, [], sub, what), replay)
        ctx.count(key=("legacy", repr(spec), repr(lay)), kind=kind + "/refused")
        return
    probs = field_problems(cf, edges, closed, kinds)
    for f, text in probs:
        if f not in MODELLED:      # binning and closed side are not part of the Coq containers: judged here
            ctx.fail("c04-legacy-restored:%s" % f, "CorrFunc.from_file of a legacy (yaw < 3.0 layout) file (%s): %s" % (what, text), replay)
    state = jk.cf_state_plain(cf)
    restored = "(Some None)" if state is None or state["dd"] is None else "(Some (Some %s))" % jk.cfs_term(state)
    cd = None
    try:
        cd = jk.quiet(cf.sample)
        impl_t = "(Some (%s, %s))" % (jk.oqlist(cd.data), jk.oqmat(cd.samples))
        full = jk.all_finite(cd.data) and jk.all_finite(cd.samples)
    except Exception as e:  # noqa: BLE001
        replay["raised"] = type(e).__name__
        impl_t, full = "None", True
    batch.add("c04_legacy_case %s %s %s %s %s" % (fq.nat(B), fq.nat(N), lcf_term(members), restored, impl_t),
              h_legacy(ctx, probs, sub, what), replay)
    ctx.count(key=("legacy", repr(spec), repr(lay)), nontrivial=full and totals_differ(kinds), kind=kind)
    if cd is not None:
        ctx.sample(dict(kind="legacy", what=what, data=np.asarray(cd.data).tolist()), limit=9)
    if probs or cd is None:
        return          # what follows is attributed to the reading: judged only when the reading is right
    # the estimate is a function of the numbers: the same containers built by the constructors
    try:
        built = jk.quiet(jk.build_corrfunc(edges, kinds).sample)
    except Exception:  # noqa: BLE001
        built = None
    if built is not None and not (jk.same_bits(cd.data, built.data) and jk.same_bits(cd.samples, built.samples)):
        ctx.fail("c04-legacy-sample-differs-from-built", "CorrFunc.sample() of a CorrFunc read from a legacy file (%s) differs bit-wise from "
                 "sample() of a CorrFunc built by the constructors from the same counts and sums of weights" % what, replay)
    # (c) the restored object in the current layout
    path2 = os.path.join(d, "%s_current.hdf" % tag)
    try:
        cf.to_file(path2)
        stored = c04_big.read_file(path2)
        import h5py
        with h5py.File(path2, "r") as f:
            tagged = "version" in f
        cf2 = jk.quiet(CorrFunc.from_file, path2)
        cd2 = jk.quiet(cf2.sample)
    except Exception as e:  # noqa: BLE001
        _rm(path2)
        ctx.fail("c04-legacy-rewrite-raises:%s" % type(e).__name__, "writing the CorrFunc read from a legacy file (%s) in the current layout and "
                 "reading it back raises %s: %s" % (what, type(e).__name__, str(e)[:200]), replay)
        return
    ctx.bump("legacy-rewritten-in-current-layout")
    problem = c04_big.compare_file(stored, sparse_kinds(kinds))
    if problem is None and not tagged:
        problem = "the file carries no version tag: it would be read as a legacy file again"
    if problem is not None:
        ctx.fail("c04-legacy-rewritten-file-content", "the CorrFunc read from a legacy file (%s) and written with to_file: the datasets read "
                 "back with h5py are not the numbers of the legacy file: %s" % (what, problem), replay)
    probs2 = field_problems(cf2, edges, closed, kinds)
    if probs2:
        ctx.fail("c04-legacy-reread:%s" % probs2[0][0], "the CorrFunc read from a legacy file (%s), written in the current layout and read "
                 "back: %s" % (what, "; ".join(t for _, t in probs2[:4])), replay)
    elif not (jk.same_bits(cd.data, cd2.data) and jk.same_bits(cd.samples, cd2.samples)):
        ctx.fail("c04-legacy-sample-changes-after-rewrite", "sample() of the CorrFunc read from a legacy file (%s) differs bit-wise from "
                 "sample() after writing it in the current layout and reading it back" % what, replay)
    try:
        equal = bool(cf == cf2)
    except Exception:  # noqa: BLE001
        equal = False
    if not probs2 and not equal:
        ctx.fail("c04-legacy-rewrite-not-equal", "the CorrFunc read from a legacy file (%s) does not compare equal (==) to itself after "
                 "to_file / from_file although every stored array is the same" % what, replay)
    _rm(path2)


# ----------------------------------------------------------------------------- n(z) of files
def h_nz(ctx, what):
    def h(c, case, replay):
        if c & 1:
            ctx.fail("c04-legacy-nz-value", "RedshiftData.from_corrfuncs().data of correlation functions read from files (%s) is not "
                     "w_sp/sqrt(dz^2 w_ss w_pp) of the estimators of the numbers in the files (code %d)" % (what, c), replay, case=case)
        if c & 2:
            ctx.fail("c04-legacy-nz-samples", "RedshiftData.from_corrfuncs().samples of correlation functions read from files (%s) are not the "
                     "formula on the estimators with one patch left out (code %d)" % (what, c), replay, case=case)
    return h


def case_legacy_nz(ctx, batch, norm_batch, spec, lays, tag):
    """cross / ref / unk written to files (lays[t]['layout'] = legacy | current), read, RedshiftData.from_corrfuncs"""
    from yaw import CorrFunc
    from props import c04
    d = scratch(ctx)
    replay = dict(kind="legacy-nz", spec=spec, lays=lays)
    cfs, terms, paths = [], [], []
    what = ", ".join("%s: %s" % (t, "-" if spec[t] is None else lays[t]["layout"]) for t in ("cross", "ref", "unk"))
    try:
        for t in ("cross", "ref", "unk"):
            s = spec[t]
            if s is None:
                cfs.append(None)
                terms.append("None")
                continue
            path = os.path.join(d, "%s_%s.hdf" % (tag, t))
            paths.append(path)
            if lays[t]["layout"] == "legacy":
                members = members_of(s, lays[t])
                write_legacy(path, s["edges"], lays[t]["closed"], members, lays[t]["filters"])
                term = "(S_legacy %s)" % lcf_term(members)
            else:
                jk.build_corrfunc(s["edges"], s["kinds"]).to_file(path)
                term = "(S_current %s)" % jk.cfs_term(s["kinds"])
            terms.append(term if t == "cross" else "(Some %s)" % term)
            cfs.append(jk.quiet(CorrFunc.from_file, path))
        nz = jk.quiet(jk.RedshiftData.from_corrfuncs, *cfs)
    except Exception as e:  # noqa: BLE001
        ctx.count(key=("legacy-nz-raised", repr(spec), repr(lays)), kind="legacy-nz/raised")
        ctx.fail("c04-legacy-nz-raises:%s" % type(e).__name__, "reading correlation functions from files (%s) and RedshiftData.from_corrfuncs "
                 "raises %s: %s" % (what, type(e).__name__, str(e)[:200]), replay)
        return
    finally:
        _rm(*paths)
    dz = list(cfs[0].binning.dz)
    batch.add("c04_legacy_nz_case %s %s %s %s %s %s %s" % (fq.qlist(dz), fq.nat(spec["cross"]["N"]), terms[0], terms[1], terms[2],
                                                         jk.oqlist(nz.data), jk.oqmat(nz.samples)), h_nz(ctx, what), replay)
    ctx.count(key=("legacy-nz", repr(spec), repr(lays)), nontrivial=jk.all_finite(nz.data),
              kind="legacy-nz/%s" % "+".join("%s:%s" % (t, lays[t]["layout"]) for t in ("cross", "ref", "unk") if spec[t] is not None))
    c04.norm_case_obj(ctx, norm_batch, nz, False, dict(kind="norm", spec=dict(hist=False, edges=spec["cross"]["edges"],
                      data=jk.tolist(nz.data) if jk.all_finite(nz.data) else None, samples=None, origin="legacy-files")))


# ----------------------------------------------------------------------------- generators
def gen_lay(rng, spec, style=None, layout="legacy"):
    style = style or rng.choice(KEY_STYLES)
    return dict(layout=layout, closed=rng.choice(["right", "right", "left"]), style=style, filters=rng.random() < 0.5,
                keys={k: None if spec["kinds"][k] is None else [list(x) for x in gen_keys(rng, spec["kinds"][k], style)] for k in ROLES})


def gen_spec(rng, sub, auto, source, shape=None):
    """a CorrFunc description with dd and the members of sub (sub may be empty: dd only)"""
    from props import c04
    B, N = shape or jk.pick_shape(rng, False)
    edges = jk.gen_binning(rng, B)
    real = sub if sub else ("dr",)
    if source == "mag":
        spec = c04.gen_corr_mag(rng, real, auto, shape=(B, N), edges=edges)
    elif source == "weights":
        spec = c04.gen_corr_wts(rng, real, auto, shape=(B, N), edges=edges)
    else:
        mode = rng.choice(["dense", "dense", "sparse", "sparse", "dyadic", "binary"])
        spec = jk.corr_plain(edges, N, jk.gen_corrfunc(rng, B, N, auto, mode, real))
    if not sub:
        spec["kinds"]["dr"] = None
    return spec


def run(ctx):
    rng = ctx.rng
    b_leg = Batch(ctx, "Cases_C04_legacy", shard=12)
    b_nz = Batch(ctx, "Cases_C04_legacy_nz", shard=8)
    b_norm = jk.Batch(ctx, "Cases_C04_legacy_norm", shard=80)
    subsets = [()] + list(jk.SUBSETS)
    n = 0
    for rep in range(ctx.n(1, 12)):
        for auto in (False, True):
            for sub in subsets:
                for source in SOURCES:
                    if not sub and source != "plain":
                        continue
                    spec = gen_spec(rng, sub, auto, source)
                    case_legacy(ctx, b_leg, spec, gen_lay(rng, spec, KEY_STYLES[n % len(KEY_STYLES)]), "f%d" % n)
                    n += 1
    # as many patches as bins (a table that is not transposed fits), and the smallest / largest shapes
    shapes = [(2, 2), (3, 3), (4, 4), (1, 2), (4, 7), (1, 7)]
    for rep in range(ctx.n(1, 10)):
        for shape in shapes:
            for auto in (False, True):
                sub = rng.choice(jk.SUBSETS)
                spec = gen_spec(rng, sub, auto, rng.choice(SOURCES), shape=shape)
                case_legacy(ctx, b_leg, spec, gen_lay(rng, spec), "f%d" % n)
                n += 1
    # n(z): triples of files, layouts mixed; the cross-correlation from a legacy file in two of three
    from props import c04
    for i in range(ctx.n(8, 100)):
        r = rng.random()
        spec = c04.gen_nz_spec_mag(rng, ctx.quick() or rng.random() < 0.7) if r < 0.25 else (
            c04.gen_nz_spec_wts(rng, ctx.quick() or rng.random() < 0.7) if r < 0.4 else jk.gen_nz_spec(rng, ctx.quick() or rng.random() < 0.7))
        lays = {}
        for t in ("cross", "ref", "unk"):
            if spec[t] is not None:
                layout = "legacy" if rng.random() < (0.7 if t == "cross" else 0.6) else "current"
                lays[t] = gen_lay(rng, spec[t], layout=layout)
                if layout == "current":
                    lays[t]["closed"] = "right"
        if all(lays[t]["layout"] == "current" for t in lays):
            lays["cross"]["layout"] = "legacy"
        closed = lays["cross"]["closed"]
        for t in lays:                      # one binning for the three, closed side included
            if lays[t]["layout"] == "legacy":
                lays[t]["closed"] = closed if all(lays[u]["layout"] == "legacy" for u in lays) else "right"
        case_legacy_nz(ctx, b_nz, b_norm, spec, lays, "z%d" % i)
    ctx.log("legacy files: %d files read, %d redshift estimates" % (n, len(b_nz.items)))
    return b_leg, b_nz, b_norm


def replay(ctx, r):
    b = Batch(ctx, "Replay_C04_legacy")
    bn = jk.Batch(ctx, "Replay_C04_legacy_norm")
    if r["kind"] == "legacy-nz":
        case_legacy_nz(ctx, b, bn, r["spec"], r["lays"], "replay")
    else:
        case_legacy(ctx, b, r["spec"], r["lay"], "replay")
    b.run()
    bn.run()
