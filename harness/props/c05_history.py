"""C05 — a long-lived parent process against fresh worker processes, across a HISTORY of measurements.

The property says a result is a function of (configuration VALUE, catalogs) only - not of the worker count.  With one
worker the work is done by the calling process, which has a past: configurations, catalogs and linkages that were
created, used and discarded, whose addresses the interpreter hands out again, and anything the library chose to
remember about them.  With several workers the work is done by processes that receive fresh copies.  So the two must be
compared AFTER a history, which the other scenarios of this check never had (they create one configuration per
catalog set and keep it).

One round:
  * two data sets (A: measured at the end, B: only used in the history), cached catalogs; copies of A's caches for the
    reference process;
  * a history of 5-40 discarded configurations - values that differ from the one under test in their scales, their bin
    edges (same bin count), their cosmology, the closed side, the pair weighting, or not at all (equal value, distinct
    object), made by create / from_dict / pickle / deepcopy / modify - each USED in a public measurement (autocorrelate,
    crosscorrelate, HistData.from_catalog; one worker mostly, simulated and real pools sometimes) and then dropped at
    once or in batches, with del + gc.collect(), unrelated allocations in between, catalog objects re-opened;
  * then the configuration under test is created and measured with 1 worker, on the simulated pool (pickled copies), on
    the real pool (worker processes) and through a second, equal-valued configuration object, in random order;
  * the reference is the same recipe measured by a process without any history (props/c05_fresh.py: forked from a
    server that never created a configuration itself).
All results must be bit-identical.  The whole history is also logged as Alloc / Use / Free events over the addresses
the interpreter reported and checked in Coq against Model/MemoHistory.v (c05_history_case: it is a history of the
allocator model and every result is a function of (configuration value, entry point, data set) - whatever the worker
mode of the step was)."""
import gc
import json
import os
import queue
import shutil
import subprocess
import sys
import threading

from lib import floatq as fq
from lib import impl
from sim import pool as simpool
from props import c05_fresh as fr

HEADER = "From Verif Require Import Prelude MemoHistory.\nOpen Scope nat_scope.\n"
MAKERS = ("create", "create", "create", "from_dict", "pickle", "deepcopy", "modify-copy", "modify-scales")
COSMOLOGIES = ("Planck15", "Planck15", "Planck15", "WMAP9", "Planck18", "WMAP7")


# ------------------------------------------------------------------ values
def gen_scales(rng, nscales):
    unit = rng.choice(["arcmin", "arcmin", "kpc", "kpc", "Mpc", "kpc/h", "Mpc/h", "deg", "arcsec"])
    lo = {"arcmin": [0.5, 1.0, 2.0, 5.0], "kpc": [50.0, 100.0, 200.0, 500.0, 1000.0], "Mpc": [0.05, 0.1, 0.5, 1.0],
          "kpc/h": [50.0, 100.0, 300.0, 700.0], "Mpc/h": [0.05, 0.2, 0.7], "deg": [0.01, 0.02, 0.05],
          "arcsec": [30.0, 60.0, 200.0]}[unit]
    rmin = [rng.choice(lo) for _ in range(nscales)]
    rmax = [r * rng.choice([3.0, 5.0, 10.0, 30.0]) for r in rmin]
    rweight = rng.choice([None, None, None, -1.0, 0.5])
    resolution = rng.choice([None, 8, 30]) if rweight is not None else None
    one = nscales == 1 and rng.random() < 0.6
    return dict(rmin=rmin[0] if one else rmin, rmax=rmax[0] if one else rmax, unit=unit, rweight=rweight, resolution=resolution)


def gen_edges(rng, nbins):
    inner = sorted(rng.sample(range(12, 69), nbins - 1))
    return [0.1] + [k / 100.0 for k in inner] + [0.7]


def gen_binning(rng, nbins):
    if rng.random() < 0.55:
        return dict(edges=gen_edges(rng, nbins), closed=rng.choice(["right", "right", "left"]))
    return dict(zmin=rng.choice([0.05, 0.1, 0.12]), zmax=rng.choice([0.65, 0.7, 0.9]), num_bins=nbins,
                method=rng.choice(["linear", "comoving", "logspace"]), closed=rng.choice(["right", "right", "left"]))


def nscales_of(v):
    return len(v["rmin"]) if isinstance(v["rmin"], list) else 1


def nbins_of(v):
    return len(v["edges"]) - 1 if "edges" in v else v["num_bins"]


def gen_value(rng, nbins=None, nscales=None):
    v = gen_scales(rng, nscales or rng.choice([1, 1, 2]))
    v.update(gen_binning(rng, nbins or rng.choice([1, 2, 3, 3, 4, 6])))
    v["cosmology"] = rng.choice(COSMOLOGIES)
    return v


def mutate(rng, v):
    """another value of the same SHAPE (bin count, number of scales): what a remembered intermediate would fit"""
    w = json.loads(json.dumps(v))
    for part in rng.sample(["scales", "scales", "binning", "cosmology", "closed", "weighting"], rng.choice([1, 1, 2])):
        if part == "scales":
            if rng.random() < 0.5:
                f = rng.choice([0.3, 0.5, 2.0, 3.0, 5.0])
                for k in ("rmin", "rmax"):
                    w[k] = [x * f for x in w[k]] if isinstance(w[k], list) else w[k] * f
            else:
                keep = (w["rweight"], w["resolution"])
                w.update(gen_scales(rng, nscales_of(v)))
                w["rweight"], w["resolution"] = keep
        elif part == "binning":
            closed = w["closed"]
            for k in ("edges", "zmin", "zmax", "num_bins", "method"):
                w.pop(k, None)
            w.update(gen_binning(rng, nbins_of(v)))
            w["closed"] = closed
        elif part == "cosmology":
            w["cosmology"] = rng.choice([c for c in COSMOLOGIES if c != v["cosmology"]])
        elif part == "closed":
            w["closed"] = "left" if v["closed"] == "right" else "right"
        else:
            w["rweight"] = rng.choice([x for x in (None, -1.0, 0.5, 1.0) if x != v["rweight"]])
            w["resolution"] = rng.choice([None, 8, 30]) if w["rweight"] is not None else None
    return w


def canon(v):
    return json.dumps(v, sort_keys=True)


def recipe_for(rng, v):
    maker = rng.choice(MAKERS)
    rec = dict(maker=maker, value=v)
    if maker == "modify-scales":
        rec["base"] = gen_scales(rng, nscales_of(v))
    return rec


# ------------------------------------------------------------------ the process without history
class FreshServer:
    def __init__(self, ctx):
        env = dict(os.environ)
        env["PYTHONPATH"] = os.pathsep.join([impl.REPO_SRC, os.path.dirname(os.path.dirname(os.path.abspath(__file__)))])
        env["VERIF_REPO_SRC"] = impl.REPO_SRC
        env["YAW_NUM_THREADS"] = "1"
        self.p = subprocess.Popen([sys.executable, "-u", os.path.abspath(fr.__file__)], stdin=subprocess.PIPE, stdout=subprocess.PIPE,
                                  stderr=subprocess.PIPE, text=True, env=env)
        self.lines = queue.Queue()
        self.err = []
        threading.Thread(target=self._pump, args=(self.p.stdout, self.lines.put), daemon=True).start()
        threading.Thread(target=self._pump, args=(self.p.stderr, self.err.append), daemon=True).start()
        self.answers = {}
        self.ready = False

    @staticmethod
    def _pump(stream, sink):
        for line in stream:
            sink(line)
        sink(None)

    def _next(self, timeout):
        line = self.lines.get(timeout=timeout)
        if line is None:
            raise RuntimeError("the reference process ended: " + "".join(x for x in self.err[-20:] if x))
        return line

    def ask(self, rid, recipe, cats, entries):
        self.p.stdin.write(json.dumps(dict(id=rid, recipe=recipe, cats=cats, entries=list(entries))) + "\n")
        self.p.stdin.flush()

    def get(self, rid, timeout=300):
        while rid not in self.answers:
            line = self._next(timeout)
            if not line.startswith("C05FRESH "):
                continue
            body = line[len("C05FRESH "):].strip()
            if body == "ready":
                self.ready = True
                continue
            ans = json.loads(body)
            self.answers[ans["id"]] = ans
        return self.answers.pop(rid)

    def close(self):
        try:
            self.p.stdin.close()
            self.p.wait(timeout=20)
        except Exception:
            self.p.kill()


# ------------------------------------------------------------------ one round
class Log:
    """the history as the model sees it: objects = configurations, identity = id(), value / arguments / results as classes"""

    def __init__(self):
        self.events, self.outs = [], []
        self.ids, self.vals, self.args, self.res = {}, {}, {}, {}
        self.dead = set()
        self.reused = 0
        self.first = {}          # (value class, argument class) -> (result class, step description)
        self.clashes = []

    @staticmethod
    def _cls(table, key):
        return table.setdefault(key, len(table))

    def alloc(self, obj, vkey):
        i = id(obj)
        if i in self.dead:
            self.reused += 1
        self.events.append("Alloc %s %s" % (fq.nat(self._cls(self.ids, i)), fq.nat(self._cls(self.vals, vkey))))
        return i in self.dead

    def free(self, obj):
        self.dead.add(id(obj))
        self.events.append("Free %s" % fq.nat(self._cls(self.ids, id(obj))))

    def use(self, obj, vkey, entry, ds, dg, what):
        a = self._cls(self.args, (entry, ds))
        self.events.append("Use %s %s" % (fq.nat(self._cls(self.ids, id(obj))), fq.nat(a)))
        r = self._cls(self.res, dg)
        self.outs.append(r)
        key = (self._cls(self.vals, vkey), a)
        if key not in self.first:
            self.first[key] = (r, what)
        elif self.first[key][0] != r:
            self.clashes.append((entry, ds, self.first[key][1], what))

    def term(self):
        return "c05_history_case %s %s" % (fq.lst(self.events), fq.nlist(self.outs))


def hist_dir(ctx, name):
    """plain scratch directory (how a cache path is spelled is varied elsewhere; it is not what this scenario is about)"""
    d = os.path.join(ctx.workdir, "history", name)
    shutil.rmtree(d, ignore_errors=True)
    os.makedirs(os.path.dirname(d), exist_ok=True)
    return d


def show(b, total):
    """the number quoted in messages (sum of the DD counts / of the histogram), or the exception that came instead"""
    return "raised %s" % b[1] if isinstance(b, list) and b[:1] == ["raised"] else "%.6f" % total


def show_ref(r):
    return "raised %s" % r["raised"] if r.get("raised") else "%.6f" % r["total"]


def run_mode(ctx, entry, cfg, cats, mode, w, seed):
    from props import c05 as base
    if mode == "w1":
        return fr.outcome(entry, cfg, cats, 1)
    if mode == "sim":
        with base.patched(simpool.Schedule("random", seed=seed)) as mp:
            out = fr.outcome(entry, cfg, cats, w)
        if mp.pool_sizes:
            ctx.bump("history/simulated-pool-used")
        return out
    return fr.outcome(entry, cfg, cats, w)          # real worker processes


def plan_round(rng, thorough):
    """every random decision of a round, made BEFORE the round runs: between discarding one configuration and creating
    the next, the harness itself then allocates (almost) nothing that stays, as in a program that loops over settings"""
    v_t = gen_value(rng)
    plan = dict(npatch=rng.choice([2, 3, 3, 4]), npatch_b=rng.choice([2, 3]), generic=rng.random() < 0.3,
                seed_a=rng.randrange(10 ** 6), seed_b=rng.randrange(10 ** 6), under_test=recipe_for(rng, v_t), equal=recipe_for(rng, v_t))
    steps, seen = [], [v_t]
    nuses, done = rng.randrange(5, 41), 0
    style = rng.choice(["loop", "loop", "mixed", "mixed", "batches"])       # loop: create-use-discard, little else in between
    p_use = dict(loop=0.92, mixed=0.70, batches=0.80)[style]
    p_now = dict(loop=0.95, mixed=0.65, batches=0.15)[style]
    while done < nuses:
        r = rng.random()
        if r < p_use:
            q = rng.random()
            if q < 0.55:
                v, vk = mutate(rng, v_t), "same-shape"
            elif q < 0.75:
                v, vk = gen_value(rng), "random"
            elif q < 0.90:
                v, vk = json.loads(json.dumps(v_t)), "equal-to-the-one-under-test"
            else:
                v, vk = json.loads(json.dumps(rng.choice(seen))), "repeated"
            seen.append(v)
            m = rng.random()
            steps.append(dict(step="use", rec=recipe_for(rng, v), vkey=canon(v), kind=vk, entry=rng.choice(["auto", "auto", "auto", "cross", "cross", "hist"]),
                              data="A" if rng.random() < 0.6 else "B", workers=rng.choice([2, 3, 5]), seed=rng.randrange(10 ** 6),
                              mode="w1" if m < 0.75 else "sim" if m < (0.92 if thorough else 0.97) else "real",
                              dispose="now" if rng.random() < p_now else "hold", gc=rng.choice([None, None, 0, 1, 2])))
            done += 1
        elif r < p_use + 0.3 * (1 - p_use):
            steps.append(dict(step="drop-held"))
        elif r < p_use + 0.55 * (1 - p_use):
            steps.append(dict(step="reopen-catalogs", data=rng.choice(["A", "B"])))
        elif r < p_use + 0.85 * (1 - p_use):
            steps.append(dict(step="pads", n=rng.choice([0, 0, 1, 2, 3, 5, 10, 50, 400]), kind=rng.randrange(7)))     # n = 0: drop one
        else:
            steps.append(dict(step="gc"))
    if rng.random() < 0.75:
        steps.append(dict(step="drop-held"))
    if rng.random() < 0.4:
        steps.append(dict(step="reopen-catalogs", data="A"))
    order = ["w1", "sim", "real", "equal-w1"]
    rng.shuffle(order)
    plan.update(style=style, steps=steps, order=order, workers=rng.choice([2, 3, plan["npatch"] + 2]),
                real_entries=list(fr.ENTRIES) if thorough else [rng.choice(["auto", "cross"])],
                seeds=[rng.randrange(10 ** 6) for _ in range(16)])
    return plan


class Thing:
    """an unrelated small object a program may create between two configurations"""


class SlotThing:
    __slots__ = ("a", "b", "c", "d")


PAD_KINDS = (object, dict, list, lambda: [0.0] * 7, Thing, Thing, SlotThing)


def describe(plan, k):
    if k < 0:
        return "the configuration under test"
    st = plan["steps"][k]
    return "step %d: %s with %s, data set %s, made by %s" % (k, st["entry"], "1 worker" if st["mode"] == "w1" else "%s pool/%d workers" % (st["mode"], st["workers"]),
                                                            st["data"], st["rec"]["maker"])


def one_round(ctx, rnd, server, terms, metas):
    from props import c05 as base
    thorough = not ctx.quick()
    plan = plan_round(ctx.rng, thorough)
    npatch, generic = plan["npatch"], plan["generic"]
    sets = {"A": list(base.make_cats(ctx, plan["seed_a"], npatch, suffix="_hA%d" % rnd, generic=generic, dirfn=hist_dir)),
            "B": list(base.make_cats(ctx, plan["seed_b"], plan["npatch_b"], suffix="_hB%d" % rnd, generic=generic, dirfn=hist_dir))}
    all_dirs = [str(c.cache_directory) for cs in sets.values() for c in cs]
    copies = {"A": [], "B": []}
    for ds in ("A", "B"):
        for k, c in enumerate(sets[ds]):        # the reference process works on its own copies of the caches
            d = hist_dir(ctx, "fresh_%d_%s%d" % (rnd, ds, k))
            shutil.copytree(str(c.cache_directory), d)
            copies[ds].append(d)
    rec_t = plan["under_test"]
    v_t, vkey_t = rec_t["value"], canon(rec_t["value"])
    cid = ("history", rnd)
    # every measurement of the round - the steps of the history too - has its reference in a process without history
    for k, st in enumerate(plan["steps"]):
        if st["step"] == "use":
            server.ask("%d.%d" % (rnd, k), st["rec"], copies[st["data"]], [st["entry"]])
    server.ask("%d.t" % rnd, rec_t, copies["A"], fr.ENTRIES)

    log = Log()
    held, pads = [], []
    for k, st in enumerate(plan["steps"]):
        kind = st["step"]
        if kind == "use":
            cfg = fr.make_config(st["rec"])
            log.alloc(cfg, st["vkey"])
            b, total = run_mode(ctx, st["entry"], cfg, tuple(sets[st["data"]]), st["mode"], st["workers"], st["seed"])
            st["digest"], st["total"], st["recycled"] = fr.digest(b), show(b, total), id(cfg) in log.dead
            log.use(cfg, st["vkey"], st["entry"], st["data"], st["digest"], k)
            ctx.bump("history/step/use-%s/%s/%s" % (st["entry"], st["mode"], st["kind"]))
            del b
            if st["dispose"] == "now":
                log.free(cfg)
                del cfg
                if st["gc"] is not None:
                    gc.collect(st["gc"])
            else:
                held.append(cfg)
                del cfg
        elif kind == "drop-held":
            for c in held:
                log.free(c)
            c = None
            del held[:]
            gc.collect()
        elif kind == "reopen-catalogs":
            sets[st["data"]] = [impl.Catalog(str(c.cache_directory), max_workers=1) for c in sets[st["data"]]]
        elif kind == "pads":
            if st["n"] == 0:
                if pads:
                    pads.pop()
            else:
                pads.append([PAD_KINDS[st["kind"]]() for _ in range(st["n"])])
        else:
            gc.collect()

    # ---- the configuration under test
    discarded = len(log.dead)
    cfg = fr.make_config(rec_t)
    recycled = log.alloc(cfg, vkey_t)
    cfg_eq = fr.make_config(plan["equal"])
    log.alloc(cfg_eq, vkey_t)
    w = plan["workers"]
    got = {}
    seeds = iter(plan["seeds"])
    for mode in plan["order"]:
        c = cfg_eq if mode == "equal-w1" else cfg
        for entry in (plan["real_entries"] if mode == "real" else fr.ENTRIES):
            b, total = run_mode(ctx, entry, c, tuple(sets["A"]), "w1" if mode == "equal-w1" else mode, w, next(seeds))
            dg = fr.digest(b)
            got[(mode, entry)] = (dg, show(b, total))
            log.use(c, vkey_t, entry, "A", dg, -1)
            del b
    for c in held:
        log.free(c)
    del held[:]
    log.free(cfg)
    log.free(cfg_eq)
    del cfg, cfg_eq, c
    gc.collect()

    def answer(rid):
        try:
            return server.get(rid)
        except Exception as e:
            return dict(ok=False, error="%s: %s" % (type(e).__name__, e))
    step_refs = {k: answer("%d.%d" % (rnd, k)) for k, st in enumerate(plan["steps"]) if st["step"] == "use"}
    ans = answer("%d.t" % rnd)
    replay = dict(round=rnd, npatch=npatch, generic_weights=generic, under_test=rec_t, equal_object=plan["equal"], workers=w, order=plan["order"],
                  style=plan["style"], discarded_configurations=discarded, address_recycled=recycled,
                  history=[{k: v for k, v in st.items() if k not in ("vkey", "digest")} for st in plan["steps"]])
    # results that earlier configurations of ANOTHER value gave for the same entry on data set A (evidence for "stale")
    vcls_t = log.vals.get(vkey_t)
    earlier = {}
    for (vc, a), (r, k) in log.first.items():
        if vc != vcls_t:
            earlier.setdefault(a, {})[r] = k
    # ---- the steps of the history: each is a measurement after the history before it
    ndisc = 0
    for k, st in enumerate(plan["steps"]):
        if st["step"] != "use":
            continue
        ref = step_refs[k]
        if not ref.get("ok"):
            ctx.disagree("fresh-process-reference", cid, dict(step=k, error=ref.get("error"), traceback=ref.get("traceback"), recipe=st["rec"]))
        elif ref["result"][st["entry"]]["digest"] != st["digest"]:
            entry = st["entry"]
            a = log.args.get((entry, st["data"]))
            vc = log.vals.get(st["vkey"])
            r = log.res.get(st["digest"])
            same = [k2 for (vc2, a2), (r2, k2) in log.first.items() if a2 == a and r2 == r and vc2 != vc and k2 < k]
            note = "%s, after %d earlier configurations%s, differs from the same measurement in a process without history (%s against %s)%s" % (
                describe(plan, k), ndisc, " (at the address of a discarded one)" if st["recycled"] else "", st["total"], show_ref(ref["result"][entry]),
                "; bit-identical to what an earlier configuration of ANOTHER value gave (%s)" % describe(plan, same[0]) if same else "")
            if st["mode"] == "w1":
                ctx.fail("c05-%s-one-worker-differs-from-fresh-process-after-history" % entry, note, dict(replay, entry=entry, step=k), case=cid)
            else:
                ctx.fail("c05-%s-pool-differs-from-fresh-process-after-history:%s" % (entry, "simulated-pool" if st["mode"] == "sim" else "real-pool"),
                         note, dict(replay, entry=entry, step=k), case=cid)
        ndisc += 1
    if not ans.get("ok"):
        ctx.disagree("fresh-process-reference", cid, dict(error=ans.get("error"), traceback=ans.get("traceback"), under_test=rec_t))
    else:
        fresh = ans["result"]
        for entry in fr.ENTRIES:
            ref_dg, ref_total = fresh[entry]["digest"], show_ref(fresh[entry])
            note = "after %d discarded configurations (%s)" % (
                discarded, "the one under test lives at the address of one of them" if recycled else "the one under test does not live at the address of one of them")
            w1 = got[("w1", entry)]

            def stale(dg):
                k = earlier.get(log.args.get((entry, "A")), {}).get(log.res.get(dg))
                return "" if k is None else "; bit-identical to what an earlier, discarded configuration of ANOTHER value gave (%s)" % describe(plan, k)
            if w1[0] != ref_dg:
                ctx.fail("c05-%s-one-worker-differs-from-fresh-process-after-history" % entry,
                         "%s with 1 worker in a process %s differs from the same measurement in a process without history "
                         "(total DD / histogram weight %s against %s)%s" % (entry, note, w1[1], ref_total, stale(w1[0])), dict(replay, entry=entry), case=cid)
            for mode, label in (("sim", "simulated-pool"), ("real", "real-pool")):
                if (mode, entry) not in got:
                    continue
                g = got[(mode, entry)]
                if g[0] != ref_dg:
                    ctx.fail("c05-%s-pool-differs-from-fresh-process-after-history:%s" % (entry, label),
                             "%s with %d workers (%s) started from a parent %s differs from the same measurement in a process without "
                             "history (%s against %s)%s" % (entry, w, label, note, g[1], ref_total, stale(g[0])), dict(replay, entry=entry, pool=label), case=cid)
                if g[0] != w1[0]:
                    ctx.fail("c05-%s-depends-on-worker-count-after-history" % entry,
                             "%s of ONE configuration object and the same catalogs gives other results with 1 worker than with %d workers "
                             "(%s) %s (%s against %s; process without history: %s)" % (entry, w, label, note, w1[1], g[1], ref_total),
                             dict(replay, entry=entry, pool=label), case=cid)
            e = got[("equal-w1", entry)]
            if e[0] != w1[0] or e[0] != ref_dg:
                ctx.fail("c05-%s-differs-between-equal-configurations-after-history" % entry,
                         "%s with two configuration objects of equal value, both with 1 worker, %s: %s and %s (process without history: %s)"
                         % (entry, note, w1[1], e[1], ref_total), dict(replay, entry=entry), case=cid)
    for entry, ds, first, second in log.clashes[:3]:
        ctx.fail("c05-%s-not-a-function-of-the-configuration-value-in-a-history" % entry,
                 "two measurements of one history with equal configuration value, entry point and data set differ: [%s] and [%s]"
                 % (describe(plan, first), describe(plan, second)), dict(replay, entry=entry, data=ds), case=cid)
    distinguishing = len({r for (vc, a), (r, _) in log.first.items()}) > len(log.args)
    ctx.count(key=("history", rnd, vkey_t, len(plan["steps"]), w), nontrivial=recycled or log.reused > 0,
              kind="history/%s/%s/%s" % (plan["style"], "address-of-config-under-test-recycled" if recycled else "identity-reused-in-history" if log.reused else "no-identity-reused",
                                         "values-distinguished" if distinguishing else "values-not-distinguished"))
    ctx.bump("history/discarded-configurations", discarded)
    ctx.bump("history/identities-handed-out-again", log.reused)
    ctx.sample(dict(scenario="history", style=plan["style"], discarded_configurations=discarded, address_recycled=recycled, under_test=rec_t,
                    first_steps=replay["history"][:3]), limit=6)
    terms.append(log.term())
    metas.append((cid, dict(replay, events=len(log.events))))
    del pads[:]
    for d in all_dirs + copies["A"] + copies["B"]:
        shutil.rmtree(d, ignore_errors=True)


def run(ctx):
    """returns (terms, metas) of the Coq correspondence (one logged history per round)"""
    impl.set_threads(16)
    terms, metas = [], []
    server = FreshServer(ctx)
    try:
        for rnd in range(ctx.n(6, 36)):
            one_round(ctx, rnd, server, terms, metas)
    finally:
        server.close()
    return terms, metas


def finish(ctx, terms, metas):
    codes = ctx.shards("Cases_C05H", HEADER, terms, shard=12)
    for (cid, meta), c in zip(metas, codes):
        if c:
            ctx.disagree("Cases_C05H", cid, dict(code=c, meaning={1: "not a history of the allocator model", 2: "results and measurements do not match in number",
                                                                   3: "results are not a function of (value, arguments)"}.get(c, "shard failed"), meta=meta))
