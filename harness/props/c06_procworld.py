#!/venv/bin/python
"""C06 (iv) - PROCESS-backed MPI worlds and MULTI-CALL histories.

The simulated world of harness/sim/mpi4py runs the ranks as threads of one interpreter: all ranks share every module-level
object of the library (memos, caches, globals), so per-process state that goes stale on SOME ranks only cannot show.  Under a
real `mpiexec` every rank is its own OS process that lives across all library calls of the user's script.  This module builds
such a world:

 * a ZYGOTE interpreter (`python c06_procworld.py --zygote`) imports the heavy third-party packages (never `yaw`, never an
   `mpi4py`) and then serves world requests: for a world of N ranks it forks N processes; each child installs a stand-in
   `mpi4py` package (sys.modules of that child only; class ProcComm below: point-to-point messages over one
   multiprocessing queue per rank, per-sender FIFO matching with tags and ANY_SOURCE, eager / synchronous / mixed standard
   sends, collectives built from point-to-point messages with reserved tags, Split, pickling of communicator handles) and only
   then imports `yaw` from the tree under test, so the library selects its MPI branches at import time exactly as under mpiexec.
   A world of size 1 gets no stand-in at all: that is the plain single-process run.
 * every rank runs the SAME scenario script (run_script): a history of library calls on a few cache paths - create, measure,
   re-create another catalog at the same path (overwrite=True) from different data, measure again, build trees with another
   binning, re-open, read the trees on every rank, write / read result files at a re-used path ... - generated at random from
   a small grammar (gen_scenario) for 2-5 ranks.
 * ORACLES.  (a) the property's own statement: the root's result of every call equals the result of the same call in the
   single-process run of the same script (exact: floats as hex); every rank returns (a rank that does not come back within the
   time limit = hang = violation, reported with the call it was in).  (b) `probe` steps: EVERY rank reads the trees of a cache
   through the library's reader (yaw.catalog.trees.BinnedTrees); what it reads must be the trees of the data that is in the cache
   NOW - number of records and sum of weights per patch and redshift bin, computed by this module from the generating columns
   with its own bin membership test (independent of the library).  The history of (re)builds and per-rank reads is replayed in
   Coq against Model/RankMemo.v (`c06_memo_case`: every read returns the current version; theorems C06_world_*).
 * a self-check of the stand-in (FIFO per sender, tags, wildcard, synchronous sends, collectives, Split, communicator handles
   through pickle) runs in a 3-process world every time.

Nothing here looks at how the library keeps or does not keep state: the histories are the input, the results the observable.
"""
import json
import os
import pickle
import queue as _queue
import random
import shutil
import signal
import subprocess
import sys
import threading
import time
import traceback
import types

HERE = os.path.dirname(os.path.abspath(__file__))
THIS = os.path.join(HERE, "c06_procworld.py")
REPO_SRC = os.environ.get("VERIF_REPO_SRC", "/repo/src")

# =============================================================================================
# 1. stand-in mpi4py (runs in the rank processes only)
# =============================================================================================
ANY_SOURCE = -1
ANY_TAG = -1
PROC_NULL = -2
UNDEFINED = -32766
_T_BCAST, _T_BCASTBUF, _T_GATHER, _T_SCATTER, _T_BAR_IN, _T_BAR_OUT, _T_ACK = -101, -102, -103, -104, -105, -106, -107

_P = None       # per-process world state (set by install)


class _ProcState:
    def __init__(self, rank, size, inboxes, sched, hosts, flags=None):
        self.rank, self.size, self.inboxes = rank, size, inboxes
        self.flags = flags            # shared with the launcher: [blocked?] * size + [messages received] * size
        self.sched = dict(sched or {})
        self.mode = self.sched.get("mode", "eager")
        self.policy = self.sched.get("policy", "fifo")
        self.jitter = float(self.sched.get("jitter", 0.0))
        self.rng = random.Random("%s/%d" % (self.sched.get("seed", 0), rank))
        self.hosts = hosts
        self.pending = []
        self.nsync = 0
        self.comms = {}
        self.stats = dict(sent=0, received=0, sync_sends=0, wildcard_receives=0, wildcard_decisions=0, collectives=0)

    def drain(self):
        while True:
            try:
                self.pending.append(self.inboxes[self.rank].get_nowait())
            except _queue.Empty:
                return

    def post(self, cid, dest_world, tag, payload, sync_id=None):
        self.stats["sent"] += 1
        self.inboxes[dest_world].put((cid, self.rank, tag, sync_id, payload))

    @staticmethod
    def _matches(m, cid, src, tag, sync_id):
        if m[0] != cid or (src != ANY_SOURCE and m[1] != src):
            return False
        if tag == ANY_TAG:
            if m[2] < 0:
                return False
        elif m[2] != tag:
            return False
        return sync_id is None or m[3] == sync_id

    def candidates(self, cid, src, tag, sync_id=None):
        """per sender the OLDEST pending message that matches (non-overtaking rule of MPI)"""
        cands = {}
        for i, m in enumerate(self.pending):
            if m[1] not in cands and self._matches(m, cid, src, tag, sync_id):
                cands[m[1]] = i
        return cands

    def take(self, cid, src, tag, sync_id=None):
        """blocking matched receive -> (source world rank, tag, payload)"""
        if src == ANY_SOURCE:
            self.stats["wildcard_receives"] += 1
            if self.jitter:
                time.sleep(self.rng.choice((0.0, 0.0, self.jitter, 3 * self.jitter)))
        while True:
            self.drain()
            cands = self.candidates(cid, src, tag, sync_id)
            if cands:
                if len(cands) > 1:
                    self.stats["wildcard_decisions"] += 1
                    pol = self.policy
                    if pol == "random":
                        s = self.rng.choice(sorted(cands))
                    elif pol == "low":
                        s = min(cands)
                    elif pol == "high":
                        s = max(cands)
                    elif pol == "lifo":
                        s = max(cands, key=lambda k: cands[k])
                    else:
                        s = min(cands, key=lambda k: cands[k])
                else:
                    s = next(iter(cands))
                m = self.pending.pop(cands[s])
                self.stats["received"] += 1
                if m[3] is not None and m[2] != _T_ACK:       # synchronous send: tell the sender that it was matched
                    self.post(cid, m[1], _T_ACK, b"", m[3])
                return m[1], m[2], m[4]
            if self.flags is not None:          # blocked on an empty inbox (the launcher recognises a deadlocked world by this)
                self.flags[self.rank] = 1
            msg = self.inboxes[self.rank].get()
            if self.flags is not None:
                self.flags[self.rank] = 0
                self.flags[self.size + self.rank] += 1
            self.pending.append(msg)


def _comm_by_id(cid):
    return _P.comms[cid]


class Status:
    def __init__(self):
        self.source, self.tag = ANY_SOURCE, ANY_TAG

    def Get_source(self):
        return self.source

    def Get_tag(self):
        return self.tag


class Request:
    def __init__(self, fn=None):
        self._fn, self._done, self._val = fn, fn is None, None

    def wait(self, status=None):
        if not self._done:
            self._val, self._done = self._fn(status), True
        return self._val

    Wait = wait

    def test(self, status=None):
        return True, self.wait(status)


class ProcComm:
    """communicator handle; `members` = world ranks, index = rank in this communicator"""

    def __init__(self, cid, members):
        self._cid, self._members, self._nsplit = cid, list(members), 0
        _P.comms[cid] = self

    def __reduce__(self):          # a communicator is a handle: pickling keeps identity (per process)
        return (_comm_by_id, (self._cid,))

    def __repr__(self):
        return "<process-world Comm %s members=%s>" % (self._cid, self._members)

    def __bool__(self):
        return True

    # -- basics
    def Get_size(self):
        return len(self._members)

    def Get_rank(self):
        try:
            return self._members.index(_P.rank)
        except ValueError:
            return UNDEFINED

    size = property(Get_size)
    rank = property(Get_rank)

    def Free(self):
        pass

    # -- point to point
    def _post(self, obj, dest, tag, sync=False):
        payload = pickle.dumps(obj, protocol=pickle.HIGHEST_PROTOCOL)
        if not sync:
            _P.post(self._cid, self._members[dest], tag, payload)
            return
        _P.nsync += 1
        _P.stats["sync_sends"] += 1
        sid = (_P.rank, _P.nsync)
        _P.post(self._cid, self._members[dest], tag, payload, sid)
        _P.take(self._cid, self._members[dest], _T_ACK, sid)

    def send(self, obj, dest, tag=0):
        if dest == PROC_NULL:
            return
        mode = _P.mode
        self._post(obj, dest, tag, sync=(mode == "sync" or (mode == "mixed" and _P.rng.random() < 0.5)))

    def ssend(self, obj, dest, tag=0):
        if dest != PROC_NULL:
            self._post(obj, dest, tag, sync=True)

    def isend(self, obj, dest, tag=0):
        if dest != PROC_NULL:
            self._post(obj, dest, tag, sync=False)
        return Request()

    def _take(self, source, tag, status=None):
        src = ANY_SOURCE if source == ANY_SOURCE else self._members[source]
        s, t, payload = _P.take(self._cid, src, tag)
        if status is not None:
            status.source, status.tag = self._members.index(s), t
        return pickle.loads(payload)

    def recv(self, buf=None, source=ANY_SOURCE, tag=ANY_TAG, status=None):
        return self._take(source, tag, status)

    def irecv(self, buf=None, source=ANY_SOURCE, tag=ANY_TAG):
        return Request(lambda status: self._take(source, tag, status))

    def iprobe(self, source=ANY_SOURCE, tag=ANY_TAG, status=None):
        _P.drain()
        src = ANY_SOURCE if source == ANY_SOURCE else self._members[source]
        cands = _P.candidates(self._cid, src, tag)
        if cands and status is not None:
            s = min(cands, key=lambda k: cands[k])
            status.source, status.tag = self._members.index(s), _P.pending[cands[s]][2]
        return bool(cands)

    Iprobe = iprobe

    # -- collectives (point-to-point messages with reserved tags; per-sender FIFO keeps successive calls apart)
    def bcast(self, obj=None, root=0):
        _P.stats["collectives"] += 1
        if self.Get_rank() == root:
            for d in range(self.Get_size()):
                if d != root:
                    self._post(obj, d, _T_BCAST)
            return obj
        return self._take(root, _T_BCAST)

    def Bcast(self, buf, root=0):
        import numpy as np
        _P.stats["collectives"] += 1
        arr = buf[0] if isinstance(buf, (list, tuple)) else buf
        if self.Get_rank() == root:
            for d in range(self.Get_size()):
                if d != root:
                    self._post(np.asarray(arr), d, _T_BCASTBUF)
        else:
            data = self._take(root, _T_BCASTBUF)
            np.asarray(arr)[...] = np.asarray(data).reshape(np.asarray(arr).shape)

    def gather(self, sendobj, root=0):
        _P.stats["collectives"] += 1
        if self.Get_rank() != root:
            self._post(sendobj, root, _T_GATHER)
            return None
        return [pickle.loads(pickle.dumps(sendobj)) if s == root else self._take(s, _T_GATHER) for s in range(self.Get_size())]

    def allgather(self, sendobj):
        return self.bcast(self.gather(sendobj, root=0), root=0)

    def scatter(self, sendobj=None, root=0):
        _P.stats["collectives"] += 1
        if self.Get_rank() == root:
            mine = None
            for d, item in enumerate(sendobj):
                if d == root:
                    mine = pickle.loads(pickle.dumps(item))
                else:
                    self._post(item, d, _T_SCATTER)
            return mine
        return self._take(root, _T_SCATTER)

    def Barrier(self):
        _P.stats["collectives"] += 1
        if self.Get_rank() == 0:
            for s in range(1, self.Get_size()):
                self._take(s, _T_BAR_IN)
            for d in range(1, self.Get_size()):
                self._post(None, d, _T_BAR_OUT)
        else:
            self._post(None, 0, _T_BAR_IN)
            self._take(0, _T_BAR_OUT)

    barrier = Barrier

    def Split(self, color=0, key=0):
        self._nsplit += 1
        info = self.allgather((color, key, _P.rank))
        if color == UNDEFINED:
            return COMM_NULL
        members = [w for c, k, w in sorted(info, key=lambda x: (x[1], x[2])) if c == color]
        return ProcComm("%s/%d:%s" % (self._cid, self._nsplit, color), members)

    def Dup(self):
        return self.Split(0, self.Get_rank())


class _NullComm:
    def __repr__(self):
        return "<process-world COMM_NULL>"

    def __bool__(self):
        return False

    def __reduce__(self):
        return (_null_comm, ())

    def __getattr__(self, name):
        raise RuntimeError("operation %s on COMM_NULL" % name)


def _null_comm():
    return COMM_NULL


COMM_NULL = _NullComm()


def install(rank, size, inboxes, sched, hosts, flags=None):
    """put the stand-in `mpi4py` / `mpi4py.MPI` into sys.modules of THIS process"""
    global _P
    _P = _ProcState(rank, size, inboxes, sched, hosts, flags)
    mpi = types.ModuleType("mpi4py.MPI")
    mpi.COMM_WORLD = ProcComm("w", range(size))
    mpi.COMM_NULL = COMM_NULL
    mpi.ANY_SOURCE, mpi.ANY_TAG, mpi.UNDEFINED, mpi.PROC_NULL = ANY_SOURCE, ANY_TAG, UNDEFINED, PROC_NULL
    mpi.Comm = mpi.Intracomm = ProcComm
    mpi.Status, mpi.Request = Status, Request
    mpi.Get_processor_name = lambda: (_P.hosts[_P.rank] if _P.hosts else "node0")
    mpi.Is_initialized = lambda: True
    mpi.Is_finalized = lambda: False
    mpi.__file__ = THIS
    pkg = types.ModuleType("mpi4py")
    pkg.MPI = mpi
    pkg.__file__ = THIS
    pkg.__path__ = []
    sys.modules["mpi4py"] = pkg
    sys.modules["mpi4py.MPI"] = mpi
    return mpi


# =============================================================================================
# 2. scenario interpreter (every rank of a world, and the single process, run this on the same script)
# =============================================================================================
def _cc():
    try:
        from props import c06_common as cc
    except ImportError:
        import c06_common as cc
    return cc


ROLE = {"D": "data", "R": "rand", "U": "unk", "V": "urand"}
FILE_OBSERVED = ("create", "load", "trees", "probe")       # steps whose observation reads files below the cache paths


def closed_edges(cfg):
    return [float(e) for e in cfg["edges"]], cfg.get("closed", "right")


def make_cfg(c, max_workers=None):
    from yaw import Configuration
    return Configuration.create(rmin=c["rmin"], rmax=c["rmax"], edges=[float(e) for e in c["edges"]],
                                closed=c.get("closed", "right"), max_workers=max_workers)


def read_trees(cat):
    """what THIS process reads as the trees of every patch of the catalog (library reader)"""
    cc = _cc()
    from yaw.catalog.trees import BinnedTrees
    out = {}
    for pid, patch in sorted(cat.items()):
        try:
            bt = BinnedTrees(patch)
        except FileNotFoundError:
            out[str(int(pid))] = "no trees"
            continue
        trees = bt.trees
        if not isinstance(trees, tuple):
            trees = (trees,)
        b = bt.binning
        out[str(int(pid))] = {
            "edges": None if b is None else [cc.fhex(e) for e in b.edges],
            "closed": None if b is None else str(getattr(b.closed, "value", b.closed)),
            "trees": [[int(t.num_records), cc.fhex(t.sum_weights)] for t in trees],
        }
    return out


def run_script(script, base, rank, size, mark, results):
    """fills `results`: per-step results of this rank (root: every step; other ranks: only what they observe themselves);
    what was appended before an exception stays available to the caller"""
    import logging
    import warnings
    import numpy as np
    import yaw
    from yaw import Catalog, Configuration, CorrFunc, HistData
    from yaw.utils import parallel
    cc = _cc()
    logging.getLogger("yaw").setLevel(logging.CRITICAL)
    warnings.simplefilter("ignore")
    root = rank == 0
    mw = script.get("max_workers")
    cmw = None if mw is None else max(2, mw)      # a creation on an MPI world needs a reader and a writer rank
    cats, specs, kept = {}, {}, {}
    os.makedirs(os.path.join(base, "out"), exist_ok=True)

    def path(slot):
        return os.path.join(base, "cache_" + slot)

    for k, step in enumerate(script["steps"]):
        mark(k)
        op = step["op"]
        res = None
        if op == "create":
            slot, spec = step["slot"], step["spec"]
            kw = cc.create_kwargs(spec)
            if step.get("progress"):
                kw["progress"] = True
            df = cc.make_df(cc.make_columns(spec, ROLE[slot]))
            cats[slot] = Catalog.from_dataframe(path(slot), df, chunksize=step.get("cs", spec["cs"]), max_workers=cmw,
                                                overwrite=True, **kw)
            specs[slot] = spec
            if root:
                res = cc.catalog_summary(cats[slot], with_center=(spec["mode"] != "name"))
        elif op == "load":
            slot = step["slot"]
            cats[slot] = Catalog(path(slot), max_workers=mw)
            if root:
                res = cc.catalog_summary(cats[slot], with_center=(specs[slot]["mode"] != "name"))
        elif op == "trees":
            slot = step["slot"]
            kw = dict(max_workers=mw, force=bool(step.get("force", False)))
            if step.get("leafsize"):
                kw["leafsize"] = int(step["leafsize"])
            if step.get("cfg") is None:
                cats[slot].build_trees(None, **kw)
            else:
                edges, closed = closed_edges(step["cfg"])
                cats[slot].build_trees(np.asarray(edges, dtype="f8"), closed=closed, **kw)
            if root:
                res = read_trees(cats[slot])
        elif op == "auto":
            cfs = yaw.autocorrelate(make_cfg(step["cfg"]), cats[step["data"]], cats[step["rand"]], max_workers=mw,
                                    count_rr=bool(step.get("count_rr", True)), progress=bool(step.get("progress", False)))
            kept[k] = cfs
            if root:
                res = cc.summarize(cfs)
        elif op == "cross":
            kw = {}
            if step.get("ref_rand"):
                kw["ref_rand"] = cats[step["ref_rand"]]
            if step.get("unk_rand"):
                kw["unk_rand"] = cats[step["unk_rand"]]
            cfs = yaw.crosscorrelate(make_cfg(step["cfg"]), cats[step["ref"]], cats[step["unk"]], max_workers=mw,
                                     progress=bool(step.get("progress", False)), **kw)
            kept[k] = cfs
            if root:
                res = cc.summarize(cfs)
        elif op == "hist":
            h = HistData.from_catalog(cats[step["slot"]], make_cfg(step["cfg"]), max_workers=mw)
            if root:
                res = cc.hist_summary(h)
        elif op == "probe":
            res = read_trees(cats[step["slot"]])          # every rank: what this process reads now
        elif op == "cf_io":
            p = os.path.join(base, "out", step["name"] + ".hdf")
            kept[step["of"]][0].to_file(p)
            back = CorrFunc.from_file(p)
            if root:
                res = dict(back=cc.summarize(back), equal=bool(back == kept[step["of"]][0]))
        elif op == "cfg_io":
            p = os.path.join(base, "out", step["name"] + ".yml")
            make_cfg(step["cfg"]).to_file(p)
            back = Configuration.from_file(p)
            if root:
                res = cc.summarize(back.to_dict())
        else:
            raise KeyError("unknown step " + op)
        results.append(res)
        if op in FILE_OBSERVED:
            # the observation of this step READS cache files (the root's summary of a catalog / of its trees, every rank's read of
            # the trees); the next call of the history may delete or rewrite them on another rank, so a correct script - like a
            # correct user program - synchronises before it goes on.  (Without this a rank that is still reading sees the
            # half-rebuilt cache of the NEXT call: a race of the script, not a result of the library.)
            parallel.COMM.Barrier()
    mark(len(script["steps"]))
    parallel.COMM.Barrier()         # (no-op in the single process) nothing may be left in flight when a rank exits
    return results


def run_selftest(rank, size):
    """pure communication script for the self-check of the stand-in (3 ranks, no library involved)"""
    from mpi4py import MPI
    import numpy as np
    c = MPI.COMM_WORLD
    out = {}
    out["rank_size"] = [c.Get_rank(), c.Get_size()]
    # per-sender FIFO + tags: rank 1 sends a(tag 1), b(tag 2), c(tag 1) to 0; a recv(tag 2) overtakes, tag 1 stays ordered
    if rank == 1:
        c.send("a", dest=0, tag=1)
        c.send("b", dest=0, tag=2)
        c.ssend("c", dest=0, tag=1)
    if rank == 0:
        out["tags"] = [c.recv(source=1, tag=2), c.recv(source=1, tag=1), c.recv(source=1, tag=1)]
    c.Barrier()
    # wildcard receive with a status
    if rank != 0:
        c.send(("from", rank), dest=0, tag=5)
    else:
        got = []
        for _ in range(size - 1):
            st = MPI.Status()
            v = c.recv(source=MPI.ANY_SOURCE, tag=5, status=st)
            got.append([v[1], st.Get_source(), st.Get_tag()])
        out["wild"] = sorted(got)
    out["bcast"] = c.bcast({"x": 7} if rank == 0 else None, root=0)
    out["bcast_root2"] = c.bcast("two" if rank == 2 else None, root=2)
    buf = np.arange(4.0) if rank == 0 else np.zeros(4)
    c.Bcast(buf, root=0)
    out["Bcast"] = buf.tolist()
    g = c.gather(rank * 10, root=0)
    out["gather"] = g
    # Split: ranks {0, 2} / rank 1 undefined; handle through pickle keeps identity
    sub = c.Split(1 if rank != 1 else MPI.UNDEFINED, rank)
    if rank != 1:
        out["split"] = [sub.Get_rank(), sub.Get_size(), pickle.loads(pickle.dumps(sub)) is sub]
        out["split_bcast"] = sub.bcast("sub" if sub.Get_rank() == 0 else None, root=0)
        sub.Barrier()
        sub.Free()
    else:
        out["split"] = [bool(sub)]
    out["iprobe_empty"] = c.iprobe(source=MPI.ANY_SOURCE, tag=9)
    c.Barrier()
    out["name"] = MPI.Get_processor_name()
    return out


SELFTEST_EXPECT = {
    0: dict(rank_size=[0, 3], tags=["b", "a", "c"], wild=[[1, 1, 5], [2, 2, 5]], bcast={"x": 7}, bcast_root2="two",
            Bcast=[0.0, 1.0, 2.0, 3.0], gather=[0, 10, 20], split=[0, 2, True], split_bcast="sub", iprobe_empty=False, name="node0"),
    1: dict(rank_size=[1, 3], bcast={"x": 7}, bcast_root2="two", Bcast=[0.0, 1.0, 2.0, 3.0], gather=None, split=[False],
            iprobe_empty=False, name="node0"),
    2: dict(rank_size=[2, 3], bcast={"x": 7}, bcast_root2="two", Bcast=[0.0, 1.0, 2.0, 3.0], gather=None, split=[1, 2, True],
            split_bcast="sub", iprobe_empty=False, name="node0"),
}


# =============================================================================================
# 3. zygote: forks one process per rank
# =============================================================================================
def _rank_main(rank, size, inboxes, job, where, flags):
    d = job["dir"]
    log = os.open(os.path.join(d, "rank%d.log" % rank), os.O_WRONLY | os.O_CREAT | os.O_TRUNC, 0o644)
    os.dup2(log, 1)
    os.dup2(log, 2)
    os.close(log)
    sys.stdout = os.fdopen(1, "w", buffering=1, closefd=False)
    sys.stderr = os.fdopen(2, "w", buffering=1, closefd=False)
    os.environ["YAW_NUM_THREADS"] = "1"
    out = dict(rank=rank, ok=False)
    outp = os.path.join(d, "rank%d.json" % rank)

    def mark(k):
        where[rank] = k

    rc = 0
    try:
        assert "yaw" not in sys.modules and "mpi4py" not in sys.modules, "zygote must not import yaw / mpi4py"
        if size > 1:
            install(rank, size, inboxes, job.get("sched"), job.get("hosts"), flags)
        if job.get("selftest"):
            out["results"] = run_selftest(rank, size)
        else:
            import yaw
            from yaw.utils import parallel
            out["yaw_file"] = os.path.realpath(yaw.__file__)
            out["use_mpi"] = bool(parallel.use_mpi())
            out["comm"] = type(parallel.COMM).__name__
            out["results"] = []
            run_script(job["script"], os.path.join(d, "data"), rank, size, mark, out["results"])
        out["ok"] = True
        if _P is not None:
            out["stats"] = _P.stats
            _P.drain()
            out["unreceived"] = len(_P.pending)
    except BaseException as err:        # noqa: B902  (report everything, then die with a non-zero status)
        out["error"] = [type(err).__name__, str(err)[:300]]
        out["tb"] = traceback.format_exc()[-2500:]
        out["step"] = int(where[rank])
        rc = 1
    with open(outp + ".tmp", "w") as fh:
        json.dump(out, fh)
    os.replace(outp + ".tmp", outp)
    sys.stdout.flush()
    sys.stderr.flush()
    if rc:
        # do not wait for queue feeder threads: the peers of a failed rank may never read
        os._exit(rc)


def run_world(job):
    """fork the ranks of one world, wait (time limit), collect -> dict"""
    import multiprocessing
    mp = multiprocessing.get_context("fork")
    size = int(job["size"])
    d = job["dir"]
    shutil.rmtree(d, ignore_errors=True)
    os.makedirs(os.path.join(d, "data"))
    inboxes = [mp.Queue() for _ in range(size)] if size > 1 else None
    where = mp.RawArray("i", [-1] * size)
    flags = mp.RawArray("l", [0] * (2 * size))
    procs = [mp.Process(target=_rank_main, args=(r, size, inboxes, job, where, flags)) for r in range(size)]
    t0 = time.time()
    for p in procs:
        p.start()
    limit = float(job.get("timeout", 120.0))
    outcome, first_bad = "ok", None
    quiet = float(job.get("quiet", 5.0))
    snap, since = None, t0
    while True:
        alive = [p.is_alive() for p in procs]
        bad = [r for r, p in enumerate(procs) if not alive[r] and p.exitcode != 0]
        now = time.time()
        if bad and first_bad is None:
            first_bad = now
        if not any(alive):
            break
        if first_bad is not None and now - first_bad > 1.5:
            # the others wait for a rank that is gone - but a rank that is still working (not blocked in a receive) may be on
            # its way to the same exception: it gets up to 20 s
            if size == 1 or now - first_bad > 20.0 or all(flags[r] == 1 for r in range(size) if alive[r]):
                outcome = "rank-failed"
                break
        if now - t0 > limit:
            outcome = "timeout"
            break
        # deadlock: every rank that is still there waits on an empty inbox and nothing was received for `quiet` seconds
        cur = (tuple(alive), tuple(flags))
        if size > 1 and cur == snap and all(flags[r] == 1 for r in range(size) if alive[r]):
            if now - since > quiet:
                outcome = "deadlock"
                break
        else:
            snap, since = cur, now
        time.sleep(0.02)
    stuck = [r for r, p in enumerate(procs) if p.is_alive()]
    for p in procs:
        if p.is_alive():
            p.kill()
    for p in procs:
        p.join(5)
    if inboxes:
        for q in inboxes:
            q.close()
            q.cancel_join_thread()
    ranks = {}
    for r, p in enumerate(procs):
        rec = dict(exitcode=p.exitcode, at=int(where[r]), stuck=r in stuck)
        fp = os.path.join(d, "rank%d.json" % r)
        if os.path.exists(fp):
            try:
                rec["out"] = json.load(open(fp))
            except Exception as err:
                rec["out_unreadable"] = repr(err)
        try:
            with open(os.path.join(d, "rank%d.log" % r), errors="replace") as fh:
                rec["log"] = fh.read()[-600:]
        except OSError:
            pass
        ranks[str(r)] = rec
    if outcome == "ok" and any(p.exitcode != 0 for p in procs):
        outcome = "rank-failed"
    if not job.get("keep"):
        shutil.rmtree(os.path.join(d, "data"), ignore_errors=True)
    return dict(id=job.get("id"), size=size, outcome=outcome, wall=round(time.time() - t0, 2), ranks=ranks)


def zygote_main():
    import numpy, scipy.spatial, pandas, h5py, yaml  # noqa: F401,E401
    import astropy.cosmology, astropy.units  # noqa: F401,E401
    try:
        import pyarrow  # noqa: F401
    except ImportError:
        pass
    proto = os.fdopen(os.dup(1), "w", buffering=1)
    os.dup2(2, 1)       # stray prints never reach the protocol stream
    assert "yaw" not in sys.modules and "mpi4py" not in sys.modules
    proto.write(json.dumps(dict(ready=True, pid=os.getpid())) + "\n")
    for line in sys.stdin:
        line = line.strip()
        if not line:
            continue
        job = json.loads(line)
        try:
            res = run_world(job)
        except Exception:
            res = dict(id=job.get("id"), outcome="zygote-error", tb=traceback.format_exc()[-2000:], ranks={})
        proto.write(json.dumps(res) + "\n")


# =============================================================================================
# 4. harness side: pool of zygotes
# =============================================================================================
class Zygote:
    def __init__(self, workdir):
        env = dict(os.environ, PYTHONPATH=REPO_SRC, VERIF_REPO_SRC=REPO_SRC, YAW_NUM_THREADS="1", PYTHONHASHSEED="0",
                   PYTHONDONTWRITEBYTECODE="1", OMP_NUM_THREADS="1", OPENBLAS_NUM_THREADS="1", MKL_NUM_THREADS="1")
        self.err = open(os.path.join(workdir, "zygote_%d.err" % id(self)), "w")
        self.p = subprocess.Popen(["/venv/bin/python", THIS, "--zygote"], env=env, stdin=subprocess.PIPE, stdout=subprocess.PIPE,
                                  stderr=self.err, text=True, start_new_session=True, cwd=workdir)
        self.ready = False

    def _readline(self, limit):
        timer = threading.Timer(limit, self.kill)
        timer.start()
        try:
            line = self.p.stdout.readline()
        finally:
            timer.cancel()
        return line

    def request(self, job):
        if not self.ready:
            line = self._readline(180)
            if not line:
                return None
            self.ready = True
        try:
            self.p.stdin.write(json.dumps(job) + "\n")
            self.p.stdin.flush()
        except (BrokenPipeError, OSError):
            return None
        line = self._readline(float(job.get("timeout", 120.0)) + 60)
        if not line:
            return None
        return json.loads(line)

    def kill(self):
        try:
            os.killpg(self.p.pid, signal.SIGKILL)
        except (ProcessLookupError, PermissionError):
            pass

    def close(self):
        try:
            self.p.stdin.close()
        except OSError:
            pass
        try:
            self.p.wait(10)
        except subprocess.TimeoutExpired:
            pass
        self.kill()
        self.p.wait()
        self.err.close()


class Runner:
    """runs world jobs on `n` zygotes in background threads"""

    def __init__(self, workdir, n):
        self.workdir, self.n = workdir, n
        os.makedirs(workdir, exist_ok=True)
        self.jobs = _queue.Queue()
        self.results = {}
        self.lock = threading.Lock()
        self.threads = []
        self.zygotes_lost = 0
        self.wall = 0.0
        self.t0 = time.time()

    def submit(self, job):
        self.jobs.put(job)

    def start(self):
        for _ in range(self.n):
            t = threading.Thread(target=self._serve, daemon=True)
            t.start()
            self.threads.append(t)

    def _serve(self):
        z = None
        while True:
            try:
                job = self.jobs.get_nowait()
            except _queue.Empty:
                break
            if z is None:
                z = Zygote(self.workdir)
            res = z.request(job)
            if res is None:
                with self.lock:
                    self.zygotes_lost += 1
                z.close()
                z = None
                res = dict(id=job["id"], outcome="zygote-lost", ranks={})
            with self.lock:
                self.results[job["id"]] = res
        if z is not None:
            z.close()
        with self.lock:
            self.wall = time.time() - self.t0      # (the last thread to finish leaves the total)

    def join(self):
        for t in self.threads:
            t.join()
        return self.results


# =============================================================================================
# 5. scenarios: a small grammar of multi-call histories
# =============================================================================================
EDGE_GRID = [k / 32.0 for k in range(4, 33)]          # 0.125 .. 1.0 ; redshifts are k/128: some lie exactly on an edge


def gen_cfg(rng):
    nb = rng.choice([1, 2, 2, 3, 4])
    lo = rng.choice([0.09375, 0.125, 0.25])
    hi = rng.choice([0.75, 0.875, 1.0])
    inner = sorted(rng.sample([e for e in EDGE_GRID if lo < e < hi], nb - 1))
    sc = rng.choice([([500.0], [60000.0]), ([500.0], [20000.0]), ([2000.0], [90000.0]), ([500.0, 4000.0], [20000.0, 60000.0])])
    return dict(edges=[lo] + inner + [hi], closed=rng.choice(["right", "right", "left"]), rmin=sc[0], rmax=sc[1])


def gen_spec(rng, base, same_n=None):
    n = same_n if same_n is not None else rng.choice([24, 36, 48, 60, 72] if base["mode"] == "centers" else [72, 96, 120])
    return dict(n=n, ncent=base["ncent"], mode=base["mode"], weights=rng.random() < 0.6, cs=rng.choice([7, 16, n, 4 * n]),
                dseed=rng.randrange(1, 10 ** 6))


def gen_scenario(rng, length, sid):
    """one history: {steps, max_workers}.  Slots D (data / reference), R (its randoms), U (unknown), V (its randoms) are cache
    paths; a slot is (re-)created with overwrite=True, measurements use whatever is in the slots at that moment"""
    base = dict(ncent=rng.choice([2, 3, 3, 4]), mode="centers" if rng.random() < 0.75 else "name")
    cfgs = [gen_cfg(rng) for _ in range(rng.choice([1, 2, 3]))]
    steps, have, measured = [], {}, []

    def create(slot, fresh=False):
        same_n = have[slot]["n"] if slot in have and not fresh and rng.random() < 0.5 else None
        spec = gen_spec(rng, base, same_n)
        have[slot] = spec
        st = dict(op="create", slot=slot, spec=spec)
        if rng.random() < 0.15:
            st["progress"] = True
        steps.append(st)

    def need(*slots):
        for s in slots:
            if s not in have:
                create(s, fresh=True)

    def measure(kind=None, cfg=None):
        kind = kind or rng.choice(["auto", "auto", "cross", "cross", "cross", "hist", "auto_u"])
        cfg = cfg or rng.choice(cfgs)
        if kind == "auto":
            need("D", "R")
            st = dict(op="auto", data="D", rand="R", cfg=cfg, count_rr=rng.random() < 0.7)
        elif kind == "auto_u":
            need("U", "V")
            st = dict(op="auto", data="U", rand="V", cfg=cfg, count_rr=rng.random() < 0.7)
        elif kind == "cross":
            how = rng.choice(["both", "ref", "unk"])
            need("D", "U")
            st = dict(op="cross", ref="D", unk="U", cfg=cfg)
            if how in ("both", "ref"):
                need("R")
                st["ref_rand"] = "R"
            if how in ("both", "unk"):
                need("V")
                st["unk_rand"] = "V"
        else:
            need("D")
            st = dict(op="hist", slot="D", cfg=cfg)
        if st["op"] != "hist" and rng.random() < 0.15:
            st["progress"] = True
        steps.append(st)
        measured.append(st)
        return st

    measure()
    while len(steps) < length:
        r = rng.random()
        if r < 0.30:
            slot = rng.choice(sorted(have))
            create(slot)
            if rng.random() < 0.75 and measured:
                # the same kind of measurement as before, on what is in the slots now
                prev = rng.choice([m for m in measured if slot in m.values()] or measured)
                steps.append(json.loads(json.dumps(prev)))
        elif r < 0.55:
            measure()
        elif r < 0.70:
            slot = rng.choice(sorted(have))
            st = dict(op="trees", slot=slot, cfg=rng.choice(cfgs + [None, gen_cfg(rng)]), force=rng.random() < 0.35)
            if rng.random() < 0.3:
                st["leafsize"] = rng.choice([1, 4, 64])
            steps.append(st)
        elif r < 0.82:
            steps.append(dict(op="probe", slot=rng.choice(sorted(have))))
        elif r < 0.88:
            steps.append(dict(op="load", slot=rng.choice(sorted(have))))
        elif r < 0.95:
            cands = [i for i, s in enumerate(steps) if s["op"] in ("auto", "cross")]
            if cands:
                steps.append(dict(op="cf_io", of=rng.choice(cands), name=rng.choice(["cf_a", "cf_a", "cf_b"])))
        else:
            steps.append(dict(op="cfg_io", cfg=rng.choice(cfgs), name="config"))
    if rng.random() < 0.6:
        steps.append(dict(op="probe", slot=rng.choice(sorted(have))))
    return dict(id=sid, steps=steps, base=base)


def corpus_scenarios():
    """hand-picked histories (run first, every tier): each measuring entry point, then every slot it used re-created at the
    same path - with the same number of records - and the same call again; a read of the trees on every rank in between"""
    base = dict(ncent=3, mode="centers")
    cfg = dict(edges=[0.125, 0.5, 1.0], closed="right", rmin=[500.0], rmax=[60000.0])
    cfg2 = dict(edges=[0.125, 0.375, 0.625, 0.875], closed="left", rmin=[500.0], rmax=[60000.0])

    def sp(dseed, n=48, weights=True):
        return dict(n=n, ncent=3, mode="centers", weights=weights, cs=16, dseed=dseed)

    auto = dict(op="auto", data="D", rand="R", cfg=cfg, count_rr=True)
    cross = dict(op="cross", ref="D", unk="U", ref_rand="R", unk_rand="V", cfg=cfg)
    a = [dict(op="create", slot="D", spec=sp(101)), dict(op="create", slot="R", spec=sp(102)), auto, dict(op="probe", slot="D"),
         dict(op="create", slot="D", spec=sp(103)), auto, dict(op="probe", slot="D"),
         dict(op="create", slot="R", spec=sp(104)), auto, dict(op="trees", slot="D", cfg=cfg2, force=False), dict(op="probe", slot="D"),
         auto, dict(op="probe", slot="D"), dict(op="hist", slot="D", cfg=cfg)]
    b = [dict(op="create", slot="D", spec=sp(201)), dict(op="create", slot="U", spec=sp(202, weights=False)),
         dict(op="create", slot="R", spec=sp(203)), dict(op="create", slot="V", spec=sp(204, weights=False)), cross,
         dict(op="cf_io", of=4, name="cf"),
         dict(op="create", slot="U", spec=sp(205, weights=False)), cross, dict(op="cf_io", of=7, name="cf"), dict(op="probe", slot="U"),
         dict(op="create", slot="V", spec=sp(206, weights=False)), dict(op="create", slot="D", spec=sp(207)), cross,
         dict(op="load", slot="D"), dict(op="trees", slot="D", cfg=cfg, force=True), cross, dict(op="probe", slot="D")]
    return [dict(id="corpus-auto", steps=json.loads(json.dumps(a)), base=base),
            dict(id="corpus-cross", steps=json.loads(json.dumps(b)), base=base)]


def step_paths(step):
    """the cache slots a step touches"""
    return sorted({v for k, v in step.items() if k in ("slot", "data", "rand", "ref", "unk", "ref_rand", "unk_rand") and v})


def history_class(steps, k):
    """what happened EARLIER in the same world to the slots step k uses"""
    used = step_paths(steps[k])
    created, rebuilt, called = {}, False, False
    for s in steps[:k]:
        if s["op"] == "create":
            created[s["slot"]] = created.get(s["slot"], 0) + 1
        elif s["op"] == "trees" and s["slot"] in used:
            rebuilt = True
        elif s["op"] in ("auto", "cross", "hist", "probe") and set(step_paths(s)) & set(used):
            called = True
    if any(created.get(u, 0) >= 2 for u in used) and called:
        return "after-overwrite"
    if rebuilt:
        return "after-tree-rebuild"
    return "repeated-call" if called else "first-call"


# ---------------------------------------------------------------------------------------------
# independent oracle for the `probe` steps, and the (re)build / read history for Model/RankMemo.v
# ---------------------------------------------------------------------------------------------
def oracle_trees(spec, slot, binning):
    """per patch: what the trees of the data generated for (spec, slot) hold - [records, sum of weights] per redshift bin
    (one entry without binning); bin membership by this function's own comparisons"""
    cc = _cc()
    cols = cc.make_columns(spec, ROLE[slot])
    out = {}
    for k in range(spec["ncent"]):
        idx = [i for i, p in enumerate(cols["pid"].tolist()) if p == k]
        w = cols["w"].tolist() if "w" in cols else None
        z = cols["z"].tolist()
        if binning is None:
            groups = [idx]
            ed, cl = None, None
        else:
            edges, cl = binning
            ed = [cc.fhex(e) for e in edges]
            groups = []
            for lo, hi in zip(edges[:-1], edges[1:]):
                if cl == "left":
                    groups.append([i for i in idx if lo <= z[i] < hi])
                else:
                    groups.append([i for i in idx if lo < z[i] <= hi])
        trees = []
        for g in groups:
            sw = float(len(g)) if w is None else sum(w[i] for i in g)      # multiples of 1/8: exact
            trees.append([len(g), cc.fhex(sw if g else 0.0)])
        out[str(k)] = dict(edges=ed, closed=cl, trees=trees)
    return out


def tree_history(steps):
    """walk the script: for every slot the data version in it and the binning of its trees after each step.
    -> list per step of dict slot -> (spec, binning or 'none' (no trees)), and per step the slots whose trees the step (re)builds"""
    cur, states, builds = {}, [], []
    for s in steps:
        b = []
        if s["op"] == "create":
            cur[s["slot"]] = (s["spec"], "none")
        elif s["op"] == "trees":
            cur[s["slot"]] = (cur[s["slot"]][0], None if s.get("cfg") is None else closed_edges(s["cfg"]))
            b = [s["slot"]]
        elif s["op"] == "auto":
            for sl in (s["data"], s["rand"]):
                cur[sl] = (cur[sl][0], closed_edges(s["cfg"]))
                b.append(sl)
        elif s["op"] == "cross":
            for sl in (s["ref"], s.get("ref_rand")):
                if sl:
                    cur[sl] = (cur[sl][0], closed_edges(s["cfg"]))
                    b.append(sl)
            for sl in (s["unk"], s.get("unk_rand")):
                if sl:
                    cur[sl] = (cur[sl][0], None)
                    b.append(sl)
        states.append(dict(cur))
        builds.append(b)
    return states, builds


SLOT_NO = {"D": 0, "R": 1, "U": 2, "V": 3}


def memo_history(steps, world_results, size):
    """the history of one world for Model/RankMemo.v: events Build file version | Drop file | Read rank file + the version
    each read returned (0 = no trees, >= 1 = index of the (data, binning) version whose oracle equals what the rank read,
    999 = matches no version this cache path ever held).  file = 8 * slot number + patch id.
    -> (events as Coq terms, observed versions, list of stale reads for the report)"""
    states, builds = tree_history(steps)
    versions = {}          # slot -> list of (key, oracle)   (version number = index + 1)
    events, observed, stale = [], [], []
    npatch = steps[0]["spec"]["ncent"] if steps and steps[0]["op"] == "create" else None

    def version_of(slot, state):
        spec, binning = state
        if binning == "none":
            return 0, None
        key = json.dumps([spec, binning], sort_keys=True)
        lst = versions.setdefault(slot, [])
        for i, (kk, orc) in enumerate(lst):
            if kk == key:
                return i + 1, orc
        lst.append((key, oracle_trees(spec, slot, binning)))
        return len(lst), lst[-1][1]

    for k, s in enumerate(steps):
        if npatch is None and s["op"] == "create":
            npatch = s["spec"]["ncent"]
        if s["op"] == "create":
            for p in range(s["spec"]["ncent"]):
                events.append("MDrop %d" % (8 * SLOT_NO[s["slot"]] + p))
        for sl in builds[k]:
            v, _ = version_of(sl, states[k][sl])
            for p in range(states[k][sl][0]["ncent"]):
                events.append("MBuild 0 %d %d" % (8 * SLOT_NO[sl] + p, v))
        if s["op"] == "probe":
            sl = s["slot"]
            v, orc = version_of(sl, states[k][sl])
            for r in range(size):
                got = world_results[r][k]
                for p in range(states[k][sl][0]["ncent"]):
                    mine = (got or {}).get(str(p))
                    if v == 0:
                        o = 0 if mine == "no trees" else 999
                    elif mine == orc[str(p)]:
                        o = v
                    elif mine == "no trees":
                        o = 0
                    else:
                        o = 999
                        for i, (_, other) in enumerate(versions.get(sl, [])):
                            if mine == other[str(p)]:
                                o = i + 1
                                break
                    events.append("MRead %d %d" % (r, 8 * SLOT_NO[sl] + p))
                    observed.append(o)
                    if o != v:
                        stale.append(dict(step=k, slot=sl, rank=r, patch=p, current_version=v, read_version=o,
                                          expected=(orc or {}).get(str(p), "no trees"), read=mine))
    return events, observed, stale


# =============================================================================================
# 6. the check: plan, run, compare
# =============================================================================================
HEADER_M = "From Verif Require Import Prelude RankMemo.\nOpen Scope nat_scope.\n"


def draw_world(rng, sid, k):
    size = rng.choice([2, 3, 3, 4, 4, 5])
    hosts = None
    if size >= 3 and rng.random() < 0.2:          # two nodes, at least two ranks on the root's node
        hosts = ["node0", "node0"] + [rng.choice(["node0", "node1"]) for _ in range(size - 2)]
        rng.shuffle(hosts)
        hosts[0] = "node0"
        if hosts.count("node0") < 2:
            hosts[1] = "node0"
    mw = rng.choice([None, None, None, 2, 3, size])
    return dict(id="%s/w%d" % (sid, k), size=size, max_workers=mw, hosts=hosts,
                sched=dict(mode=rng.choice(["eager", "eager", "sync", "mixed"]), seed=rng.randrange(10 ** 6),
                           policy=rng.choice(["fifo", "random", "random", "lifo", "low", "high"]),
                           jitter=rng.choice([0.0, 0.0, 0.001, 0.004])))


def plan(ctx):
    rng = random.Random("c06-procworld-%d" % ctx.seed)
    scen = corpus_scenarios()
    for i in range(ctx.n(10, 60)):
        scen.append(gen_scenario(rng, rng.choice(ctx.n([7, 9, 11], [8, 11, 14, 18])), "s%03d" % i))
    for sc in scen:
        nw = 2 if sc["id"].startswith("corpus") else ctx.n(1, 3)
        sc["worlds"] = [draw_world(rng, sc["id"], k) for k in range(nw)]
        if sc["id"].startswith("corpus"):
            sc["worlds"][0].update(size=3, max_workers=None, hosts=None)
            sc["worlds"][1].update(size=4, hosts=None)
    return scen


def world_job(root, sc, w, timeout):
    return dict(id=w["id"], size=w["size"], dir=os.path.join(root, w["id"].replace("/", "_")), timeout=timeout,
                script=dict(steps=sc["steps"], max_workers=w["max_workers"]), sched=w["sched"], hosts=w["hosts"])


def ref_job(root, sc, timeout):
    return dict(id=sc["id"] + "/ref", size=1, dir=os.path.join(root, sc["id"] + "_ref"), timeout=timeout,
                script=dict(steps=sc["steps"], max_workers=None))


def start(ctx, scenarios=None, zygotes=None):
    """plan and launch (background threads); returns the handle for finish()"""
    root = os.path.join(ctx.workdir, "pw")
    scen = plan(ctx) if scenarios is None else scenarios
    timeout = 150.0
    run = Runner(root, zygotes or ctx.n(5, 8))
    run.submit(dict(id="selftest", size=3, dir=os.path.join(root, "selftest"), timeout=60.0, selftest=True,
                    sched=dict(mode="eager", policy="fifo", seed=0)))
    # the longest jobs first
    jobs = []
    for sc in scen:
        jobs.append(ref_job(root, sc, timeout))
        jobs += [world_job(root, sc, w, timeout) for w in sc["worlds"]]
    for j in sorted(jobs, key=lambda j: -len(j["script"]["steps"]) * (j["size"] + 1)):
        run.submit(j)
    run.start()
    return dict(run=run, scen=scen, root=root, timeout=timeout)


def rank_out(res, r):
    return ((res.get("ranks") or {}).get(str(r)) or {}).get("out") or {}


def describe_step(step):
    s = {k: v for k, v in step.items() if k not in ("spec", "cfg")}
    if "spec" in step:
        s["data"] = "n=%d seed=%d%s" % (step["spec"]["n"], step["spec"]["dseed"], " weights" if step["spec"]["weights"] else "")
    if step.get("cfg"):
        s["bins"] = "%s %s" % (step["cfg"]["edges"], step["cfg"].get("closed"))
    return s


OP_WHAT = {"create": "Catalog.from_dataframe(overwrite=True)", "load": "Catalog(cache)", "trees": "Catalog.build_trees",
           "auto": "yaw.autocorrelate", "cross": "yaw.crosscorrelate", "hist": "HistData.from_catalog",
           "probe": "BinnedTrees(patch).trees on every rank", "cf_io": "CorrFunc.to_file/from_file", "cfg_io": "Configuration.to_file/from_file",
           "end": "the end of the script"}


def judge(ctx, sc, w, ref, res, st, report=True):
    """compare one world with the single-process run of the same script; returns the list of (signature, text, extra)"""
    cc = _cc()
    steps = sc["steps"]
    size = w["size"]
    found = []
    replay = dict(entry="procworld", scenario=sc["id"], steps=steps, world_size=size, max_workers=w["max_workers"],
                  schedule=w["sched"], processor_name_per_rank=w["hosts"],
                  how="/venv/bin/python /verif/harness/props/c06_procworld.py --run <this file> [--src <tree>/src]: one OS process per "
                      "rank, every rank runs `steps`; compared with the single-process run of the same steps")

    def op_at(k):
        return steps[k]["op"] if 0 <= k < len(steps) else "end"

    # the single-process run may REFUSE a call of the history (a documented check raises): then every rank of the world has to
    # leave that call the same way, and everything before it is compared as usual
    refused = ref.get("_refused")
    nsteps = len(steps) if not refused else refused[0]
    consistent = False
    if refused and res["outcome"] not in ("timeout", "deadlock"):
        per = {r: (rank_out(res, int(r)).get("error") or [None])[0] for r in res["ranks"]}
        at = {r: rank_out(res, int(r)).get("step") for r in res["ranks"]}
        consistent = (res["outcome"] == "rank-failed" and not any(v.get("stuck") for v in res["ranks"].values())
                      and all(per[r] == refused[1] and at[r] == refused[0] for r in per))
        if not consistent:
            found.append(("c06-procworld-%s-refusal-differs:%s" % (op_at(refused[0]).replace("_", "-"), refused[1]),
                          "%d ranks as separate processes: the single-process run refuses call %d of the history (%s) with %s; in the world "
                          "the ranks end with %s at steps %s (outcome %s, ranks killed while waiting: %s)"
                          % (size, refused[0], OP_WHAT[op_at(refused[0])], refused[1], json.dumps(per, sort_keys=True),
                             json.dumps(at, sort_keys=True), res["outcome"], sorted(r for r, v in res["ranks"].items() if v.get("stuck"))),
                          dict(step=refused[0], single_process_raises=refused[1], per_rank=per)))

    if res["outcome"] in ("timeout", "deadlock"):
        at = {r: v["at"] for r, v in res["ranks"].items()}
        stuck = sorted(int(r) for r, v in res["ranks"].items() if v.get("stuck"))
        k = min([at[str(r)] for r in stuck] or [0])
        found.append(("c06-procworld-%s-hang:%s" % (op_at(k).replace("_", "-"), history_class(steps, k) if k < len(steps) else "end"),
                      "%d ranks as separate processes, %s (step %d of the history) did not return on ranks %s (%s); "
                      "step per rank when the world was stopped: %s; the single-process run of the same history ends"
                      % (size, OP_WHAT[op_at(k)], k, stuck,
                         "deadlock: every rank still there waits in a receive, nothing in flight" if res["outcome"] == "deadlock"
                         else "stopped after %.0f s" % res.get("wall", 0), json.dumps(at, sort_keys=True)),
                      dict(step=k, stuck_ranks=stuck, step_per_rank=at)))
    elif refused and not consistent:
        pass
    elif res["outcome"] != "ok" and not refused:
        bad = sorted(int(r) for r, v in res["ranks"].items() if v.get("exitcode") not in (0, None) and not v.get("stuck"))
        r0 = bad[0] if bad else 0
        o = rank_out(res, r0)
        err = o.get("error") or ["died", "exit code %s" % res["ranks"].get(str(r0), {}).get("exitcode")]
        k = o.get("step", res["ranks"].get(str(r0), {}).get("at", 0))
        found.append(("c06-procworld-%s-rank-exception:%s" % (op_at(k).replace("_", "-"), err[0]),
                      "%d ranks as separate processes, %s (step %d of the history): rank %d ended with %s: %s (the single-process run of the "
                      "same history returns); the other ranks: %s\n%s"
                      % (size, OP_WHAT[op_at(k)], k, r0, err[0], err[1],
                         json.dumps({r: [v.get("exitcode"), v.get("at")] for r, v in res["ranks"].items()}, sort_keys=True),
                         (o.get("tb") or res["ranks"].get(str(r0), {}).get("log") or "")[-900:]),
                      dict(step=k, rank=r0, error=err)))
    else:
        got = rank_out(res, 0).get("results") or []
        want = rank_out(ref, 0).get("results") or []
        steps = steps[:nsteps]
        for k, step in enumerate(steps):
            if step["op"] == "probe":
                continue
            a, b = want[k] if k < len(want) else None, got[k] if k < len(got) else None
            d = cc.first_diff(a, b)
            if d:
                hc = history_class(steps, k)
                found.append(("c06-procworld-%s-root-result-differs:%s" % (step["op"].replace("_", "-"), hc),
                              "%d ranks as separate processes, call %d of the history (%s, %s): the root's result differs from the "
                              "single-process run of the same history at %s; calls so far: %s"
                              % (size, k, OP_WHAT[step["op"]], hc, d[:300], json.dumps([describe_step(s) for s in steps[:k + 1]])[:1500]),
                              dict(step=k, first_difference=d[:400])))
                break
        # probes: every rank against the data that is in the cache now (independent oracle) - also the single process
        per_rank = [(rank_out(res, r).get("results") or []) + [None] * len(steps) for r in range(size)]
        events, observed, stale = memo_history(steps, per_rank, size)
        if events:
            st["mterms"].append("c06_memo_case %d [%s] [%s]" % (size, "; ".join(events), "; ".join(str(o) for o in observed)))
            st["mmeta"].append(dict(world=w["id"], replay=replay, stale=stale[:6], nreads=len(observed)))
        if stale:
            s0 = stale[0]
            kind = "stale" if s0["read_version"] not in (999,) else "wrong"
            hc = history_class(steps, s0["step"])
            found.append(("c06-procworld-rank-reads-%s-trees:%s" % (kind, hc),
                          "%d ranks as separate processes, step %d (every rank reads the trees of cache %s through BinnedTrees): rank %d "
                          "reads for patch %d %s, the data in the cache now gives %s (version %d of this path; the rank read %s); "
                          "%d such reads in this world; calls so far: %s"
                          % (size, s0["step"], s0["slot"], s0["rank"], s0["patch"], json.dumps(s0["read"])[:200],
                             json.dumps(s0["expected"])[:200], s0["current_version"],
                             "version %d, an EARLIER content of the path" % s0["read_version"] if kind == "stale" else "something that never was in this path",
                             len(stale), json.dumps([describe_step(s) for s in steps[:s0["step"] + 1]])[:1500]),
                          dict(stale_reads=stale[:6])))
    if report:
        for sig, text, extra in found:
            ctx.fail(sig, text, dict(replay, **extra), case=("pw", w["id"]))
    return found


def judge_reference(ctx, sc, ref, st):
    """the single-process run must end, and its own probe reads must match the oracle (else the oracle or the generator is wrong)"""
    o = rank_out(ref, 0)
    steps = sc["steps"]
    if ref["outcome"] == "rank-failed" and o.get("error") and isinstance(o.get("step"), int) and 0 <= o["step"] < len(steps) \
            and o.get("yaw_file", "").startswith(os.path.realpath(REPO_SRC) + "/") and not o.get("use_mpi"):
        # a call of the history is refused by the single-process run (e.g. patch centres computed from sparse data are not aligned)
        ref["_refused"] = (o["step"], o["error"][0])
        ctx.bump("procworld_histories_with_a_call_refused_by_the_single_process:%s/%s" % (steps[o["step"]]["op"], o["error"][0]))
        steps = steps[:o["step"]]
    elif ref["outcome"] != "ok" or not o.get("ok"):
        ctx.disagree("procworld-reference(single-process run of a generated history did not end normally)", ("pw", sc["id"]),
                     dict(outcome=ref["outcome"], error=o.get("error"), tb=(o.get("tb") or "")[-1200:], step=o.get("step"),
                          log=(ref.get("ranks", {}).get("0", {}) or {}).get("log"), steps=[describe_step(s) for s in sc["steps"]]))
        return False
    if o.get("use_mpi") or not o.get("yaw_file", "").startswith(os.path.realpath(REPO_SRC) + "/"):
        ctx.disagree("procworld-reference(not the single-process branches of the tree under test)", ("pw", sc["id"]), o)
        return False
    events, observed, stale = memo_history(steps, [(o.get("results") or []) + [None] * len(steps)], 1)
    if stale:
        s0 = stale[0]
        ctx.fail("c06-procworld-single-process-reads-%s-trees:%s" % ("stale" if s0["read_version"] != 999 else "wrong",
                                                                      history_class(sc["steps"], s0["step"])),
                 "single process, step %d: BinnedTrees reads %s for patch %d of cache %s, the data in the cache now gives %s; calls so far: %s"
                 % (s0["step"], json.dumps(s0["read"])[:200], s0["patch"], s0["slot"], json.dumps(s0["expected"])[:200],
                    json.dumps([describe_step(s) for s in sc["steps"][:s0["step"] + 1]])[:1500]),
                 dict(entry="procworld", scenario=sc["id"], steps=sc["steps"], world_size=1, stale_reads=stale[:6]), case=("pw", sc["id"] + "/ref"))
    if events:
        st["mterms"].append("c06_memo_case 1 [%s] [%s]" % ("; ".join(events), "; ".join(str(x) for x in observed)))
        st["mmeta"].append(dict(world=sc["id"] + "/ref", replay=dict(entry="procworld", scenario=sc["id"], steps=sc["steps"], world_size=1),
                                stale=stale[:6], nreads=len(observed)))
    return True


def shrink(ctx, h, sc, w, sig, at=None, budget_s=45.0, max_runs=16):
    """greedy removal of steps while the same signature is reproduced (only after a failure)"""
    t0 = time.time()
    steps = list(sc["steps"])
    runs = 0

    def valid(ss):
        have, kept = set(), set()
        for i, s in enumerate(ss):
            if s["op"] == "create":
                have.add(s["slot"])
            elif any(p not in have for p in step_paths(s)):
                return False
            if s["op"] in ("auto", "cross"):
                kept.add(i)
            if s["op"] == "cf_io" and s["of"] not in kept:
                return False
        return True

    def remap(ss, removed):
        out = []
        for s in ss:
            if s["op"] == "cf_io":
                if s["of"] == removed:
                    return None
                s = dict(s, of=s["of"] - (1 if s["of"] > removed else 0))
            out.append(s)
        return out

    os.makedirs(os.path.join(h["root"], "shrink"), exist_ok=True)
    zs = [Zygote(os.path.join(h["root"], "shrink")) for _ in range(2)]
    try:
        i = len(steps) - 1
        first = at is not None and at + 1 < len(steps)
        while i >= 0 and runs < max_runs and time.time() - t0 < budget_s:
            if first:               # everything after the failing call goes at once
                cand, first, i = steps[:at + 1], False, at
            else:
                cand = remap(steps[:i] + steps[i + 1:], i)
                i -= 1
            if cand is None or not cand or not valid(cand):
                continue
            sc2 = dict(id="%s-shrink%d" % (sc["id"], runs), steps=cand, base=sc.get("base"))
            w2 = dict(w, id=sc2["id"] + "/w")
            root = os.path.join(h["root"], "shrink")
            jobs = [ref_job(root, sc2, h["timeout"]), world_job(root, sc2, w2, h["timeout"])]
            got = [None, None]

            def ask(k):
                got[k] = zs[k].request(jobs[k])

            ts = [threading.Thread(target=ask, args=(k,)) for k in range(2)]
            for t in ts:
                t.start()
            for t in ts:
                t.join()
            runs += 1
            ref, res = got
            if not ref or not res:
                break
            if ref["outcome"] != "ok":
                continue
            st2 = dict(mterms=[], mmeta=[])
            if any(s2 == sig for s2, _, _ in judge(ctx, sc2, w2, ref, res, st2, report=False)):
                steps = cand
    finally:
        for z in zs:
            z.close()
    return steps, runs


def finish(ctx, h):
    """wait for the worlds, compare, report"""
    run, scen = h["run"], h["scen"]
    out = run.join()
    st = dict(mterms=[], mmeta=[])
    # self-check of the stand-in
    sres = out.get("selftest") or {}
    sgot = {r: rank_out(sres, r).get("results") for r in range(3)}
    sok = sres.get("outcome") == "ok" and all(sgot[r] == SELFTEST_EXPECT[r] for r in range(3))
    ctx.obligation("process-world stand-in mpi4py self-check (tags and per-sender FIFO, wildcard + status, synchronous send, bcast from "
                   "two roots, Bcast, gather, Split with UNDEFINED, communicator handle through pickle, iprobe, Barrier; 3 processes)",
                   sok, json.dumps(dict(outcome=sres.get("outcome"), got=sgot, ranks={r: {k: v for k, v in x.items() if k != "out"}
                                                                                     for r, x in (sres.get("ranks") or {}).items()}))[:3000])
    nworlds, walls, failures = 0, [], []
    stats = dict(wildcard_decisions=0, sync_sends=0, sent=0, collectives=0)
    for sc in scen:
        ref = out.get(sc["id"] + "/ref")
        if ref is None or ref.get("outcome") in ("zygote-lost", "zygote-error"):
            ctx.obligation("process world: single-process run of history %s was carried out" % sc["id"], False, json.dumps(ref)[:2000])
            continue
        walls.append(ref.get("wall", 0))
        ref_ok = judge_reference(ctx, sc, ref, st)
        ops = [s["op"] for s in sc["steps"]]
        ctx.bump("procworld_history_length:%d" % len(ops))
        for op in ops:
            ctx.bump("procworld_calls:" + op)
        for k, s in enumerate(sc["steps"]):
            if s["op"] in ("auto", "cross", "hist", "probe", "trees"):
                ctx.bump("procworld_call_history:%s/%s" % (s["op"], history_class(sc["steps"], k)))
        for w in sc["worlds"]:
            res = out.get(w["id"])
            if res is None or res.get("outcome") in ("zygote-lost", "zygote-error"):
                ctx.obligation("process world %s was carried out" % w["id"], False, json.dumps(res)[:2000])
                continue
            nworlds += 1
            walls.append(res.get("wall", 0))
            mpi_ok = all(rank_out(res, r).get("use_mpi") and rank_out(res, r).get("comm") == "ProcComm"
                         and rank_out(res, r).get("yaw_file", "").startswith(os.path.realpath(REPO_SRC) + "/")
                         for r in range(w["size"]) if rank_out(res, r).get("ok"))
            if not mpi_ok:
                ctx.obligation("process world %s ran the MPI branches of the tree under test" % w["id"], False,
                               json.dumps({r: {k: v for k, v in rank_out(res, r).items() if k != "results"} for r in range(w["size"])})[:2000])
                continue
            multi = sum(1 for k, s in enumerate(sc["steps"]) if history_class(sc["steps"], k) != "first-call" and s["op"] != "create")
            ctx.count(key=("procworld", json.dumps(sc["steps"], sort_keys=True), w["size"], w["max_workers"], json.dumps(w["sched"], sort_keys=True),
                           tuple(w["hosts"] or ())), nontrivial=multi >= 1 and w["size"] >= 2,
                      kind="procworld/size%d/mw%s/%s%s" % (w["size"], w["max_workers"], w["sched"]["mode"], "/two-nodes" if w["hosts"] and len(set(w["hosts"])) > 1 else ""))
            for r in range(w["size"]):
                for k2 in stats:
                    stats[k2] += (rank_out(res, r).get("stats") or {}).get(k2, 0)
            if not ref_ok:
                continue
            found = judge(ctx, sc, w, ref, res, st)
            if found:
                failures.append((sc, w, found[0][0], found[0][2].get("step")))
            else:
                ctx.bump("procworld_worlds_equal_to_single_process")
            ctx.sample(dict(kind="process-world", world=w, calls=[describe_step(s) for s in sc["steps"]], outcome=res["outcome"],
                            equal=not found), limit=8)
    # Coq: every history of (re)builds and per-rank reads against Model/RankMemo.v
    if st["mterms"]:
        codes = ctx.shards("Cases_C06M", HEADER_M, st["mterms"], shard=100)
        for m, c in zip(st["mmeta"], codes):
            if c is None:
                continue
            if bool(c & 2) != bool(m["stale"]):
                ctx.disagree("Cases_C06M(per-rank reads: Coq checker vs harness)", ("pw", m["world"]), dict(code=c, stale=m["stale"], replay=m["replay"]))
            if c & 1:
                ctx.disagree("Cases_C06M(history not well formed: rank beyond the world / reads and observations differ in number)",
                             ("pw", m["world"]), dict(code=c, replay=m["replay"]))
    # minimise the first failure of each signature (bounded), attach the shortened history to the report
    seen = set()
    for sc, w, sig, at in failures:
        if sig in seen or len(seen) >= 2:
            continue
        seen.add(sig)
        try:
            small, runs = shrink(ctx, h, sc, w, sig, at)
        except Exception:
            continue
        for f in ctx.failures:
            if f["signature"] == sig and f["case"] == ("pw", w["id"]):
                f["replay"]["shortest_history_with_the_same_failure"] = small
                f["replay"]["shrink_runs"] = runs
                break
    ctx.extra["process_worlds"] = dict(
        histories=len(scen), worlds=nworlds, zygotes=run.n, zygotes_lost=run.zygotes_lost, wall_s=round(run.wall, 1),
        max_world_wall_s=max(walls) if walls else None, per_rank_reads_replayed_in_coq=sum(m["nreads"] for m in st["mmeta"]),
        message_stats=stats,
        what="every rank = one forked OS process with its own import of the tree under test and a stand-in mpi4py over multiprocessing "
             "queues; every rank runs the same multi-call history; root results vs the single-process run of the same history, "
             "per-rank tree reads vs an oracle computed from the generating data")
    ctx.log("process worlds: %d histories, %d worlds, %d failures (%.1fs in background)" % (len(scen), nworlds, len(failures), run.wall))
    shutil.rmtree(h["root"], ignore_errors=True)


def replay(ctx, r):
    """re-run the world of a replay file (entry == 'procworld')"""
    sc = dict(id="replay", steps=r["steps"], base=None)
    w = dict(id="replay/w0", size=r["world_size"], max_workers=r.get("max_workers"), sched=r.get("schedule") or {}, hosts=r.get("processor_name_per_rank"))
    sc["worlds"] = [w] if r["world_size"] > 1 else []
    h = start(ctx, scenarios=[sc], zygotes=2)
    finish(ctx, h)


# =============================================================================================
# 7. command line: zygote / standalone run of one history
# =============================================================================================
class _MiniCtx:
    def __init__(self, workdir):
        self.workdir, self.failures, self.seed, self.tier = workdir, [], 0, "quick"

    def fail(self, sig, text, replay, case=None):
        self.failures.append(dict(signature=sig, what=text, replay=replay, case=case))


def main(argv):
    if "--zygote" in argv:
        sys.path.insert(0, HERE)
        import c06_procworld as me          # the classes must live in an importable module (pickled communicator handles)
        me.zygote_main()
        return 0
    if "--run" in argv:
        global REPO_SRC
        path = argv[argv.index("--run") + 1]
        if "--src" in argv:
            REPO_SRC = argv[argv.index("--src") + 1]
        body = json.load(open(path))
        r = body.get("replay", body)
        import tempfile
        wd = tempfile.mkdtemp(prefix="c06_procworld_")
        sys.path.insert(0, HERE)
        sys.path.insert(0, REPO_SRC)
        ctx = _MiniCtx(wd)
        steps = r.get("shortest_history_with_the_same_failure") if "--short" in argv else r["steps"]
        sc = dict(id="run", steps=steps)
        w = dict(id="run/w0", size=r["world_size"], max_workers=r.get("max_workers"), sched=r.get("schedule") or {}, hosts=r.get("processor_name_per_rank"))
        run = Runner(os.path.join(wd, "pw"), 2)
        run.submit(ref_job(run.workdir, sc, 150.0))
        run.submit(world_job(run.workdir, sc, w, 150.0))
        run.start()
        out = run.join()
        st = dict(mterms=[], mmeta=[])
        found = judge(ctx, sc, w, out["run/ref"], out["run/w0"], st)
        for f in ctx.failures:
            print("FAIL %s\n  %s" % (f["signature"], f["what"][:1500]))
        print("single-process: %s, world: %s; %d failures" % (out["run/ref"]["outcome"], out["run/w0"]["outcome"], len(found)))
        shutil.rmtree(wd, ignore_errors=True)
        return 1 if found else 0
    print(__doc__)
    return 2


if __name__ == "__main__":
    sys.exit(main(sys.argv[1:]))
