"""C07 — measurements are independent of what was cached before.

Tie: random (and a few hand-picked) histories of Catalog.build_trees (3 edge sets x 2 closed
sides, unbinned, forced / unforced, requests that raise), real yaw.autocorrelate /
yaw.crosscorrelate calls (catalogs change role between reference and unknown, several scale
sets) and Catalog(cache) reopenings are run on three small catalogs whose redshifts sit on the
bin edges; histories also contain builds of ONE patch (the public per-patch call
BinnedTrees.build(catalog[p], Binning | None, force=...), first / last / any patch), which leave
the patches of one catalog with trees for different binnings.  After every operation the
`binning` file (as BinnedTrees decodes it) and the unpickled trees.pkl (tuple or single tree,
records per tree) of every patch are compared inside Coq with the per-patch state vector of
Model/TreeCache.v (c07_ccase).  Every history ends with a
measurement whose CorrFunc list is compared (`==` and bitwise on every counts / sum_weights
array) with the same measurement on freshly created caches of the same data.
"""
import os
import pickle
import random
import shutil
import traceback

import numpy as np

from lib import floatq as fq
from lib import impl

ALLOWED_AXIOMS = []
TRUSTED = [
    "harness-side observation of a patch directory: BinnedTrees(patch).binning (the implementation's own decoder of the "
    "`binning` file) and pickle.load of trees.pkl (tuple / single AngularTree, num_records); scipy KDTree pair counting is "
    "exercised, not modelled",
]
ASSUMPTIONS = [
    "a cache directory is used by one catalog in one role per measurement (the same cache passed twice to one "
    "crosscorrelate call is outside the statement)",
    "the pair counts of a measurement are a function of the patch data, the configuration and the content of trees.pkl "
    "(compared end-to-end against fresh caches on every history, not proved)",
]
RULE = ("cases = (history of <= 8 operations on 3 catalogs, data seed); distinct by (operations, data seed); non-trivial when, "
        "before the final measurement, a participating catalog was asked for a binning different from the one the final "
        "measurement asks for (the reuse decision sees a stored binning that must be rejected or was replaced)")

HEADER = "From Verif Require Import Prelude TreeCache.\nOpen Scope Q_scope.\n"

CATS = ["X", "Y", "R"]
EDGE_SETS = [
    [0.25, 0.5, 0.75, 1.0],     # 3 bins
    [0.25, 0.5, 1.0],           # 2 bins (other bin count)
    [0.25, 0.625, 0.75, 1.0],   # 3 bins, other edges (same count as set 0)
    [0.25, 0.5000000000000001, 0.75, 1.0],   # set 0 with one edge moved by one ulp (0.5 -> nextafter(0.5, 1))
]
INVALID_EDGES = [[0.5], [0.5, 0.25, 1.0], [0.25, 0.25, 1.0]]
SCALES = [
    dict(rmin=0.05, rmax=3.0, unit="deg"),
    dict(rmin=[0.1, 0.5], rmax=[1.0, 4.0], unit="deg"),
    dict(rmin=500.0, rmax=20000.0, unit="kpc"),
]
Z_ON_EDGE = [0.25, 0.5, 0.5000000000000001, 0.625, 0.75, 1.0]
Z_OTHER = [0.125, 0.375, 0.5625, 0.875, 1.25]
CENTERS = [(30.0, 10.0), (42.0, -5.0), (55.0, 20.0)]


# ---------------------------------------------------------------- data
def gen_data(dseed):
    """three catalogs with the same 2-3 named patches; points in symmetric pairs around the patch
    centre (so the patch centres of all catalogs coincide), redshifts mostly exactly on bin edges"""
    prng = random.Random(dseed)
    npatch = prng.choice([2, 3])
    npairs = 5 if npatch == 3 else 7
    data = {}
    for name in CATS:
        cols = dict(ra=[], dec=[], pid=[], z=[], w=[])
        for k in range(npatch):
            for j in range(npairs):
                dx, dy = prng.randrange(-16, 17) / 16.0, prng.randrange(-16, 17) / 16.0
                if j == 0:
                    dx = 1.0   # one pair at full distance: the patch radius is >= 1 deg in every catalog
                w = prng.randrange(1, 9) / 4.0   # same weight for both members: the (weighted) centre stays put
                for s in (1, -1):
                    cols["ra"].append(CENTERS[k][0] + s * dx)
                    cols["dec"].append(CENTERS[k][1] + s * dy)
                    cols["pid"].append(k)
                    cols["z"].append(prng.choice(Z_ON_EDGE) if prng.random() < 0.75 else prng.choice(Z_OTHER))
                    cols["w"].append(w)
        data[name] = dict(cols=cols, weights=prng.random() < 0.5)
    return data


def create(path, d):
    shutil.rmtree(path, ignore_errors=True)
    kw = dict(ra_name="ra", dec_name="dec", redshift_name="z", patch_name="pid", max_workers=1)
    if d["weights"]:
        kw["weight_name"] = "w"
    return impl.Catalog.from_dataframe(path, impl.make_df(d["cols"]), **kw)


# ---------------------------------------------------------------- operations
def make_config(c):
    return impl.Configuration.create(edges=EDGE_SETS[c["edges"]], closed=c["closed"], **SCALES[c["scales"]])


def participants(op):
    """catalog name -> role ('ref' / 'unk') for a measurement"""
    if op["op"] == "auto":
        return {op["data"]: "ref", op["rand"]: "ref"}
    out = {op["ref"]: "ref", op["unk"]: "unk"}
    out[op["rand"]] = "ref" if op["rand_role"] == "ref_rand" else "unk"
    return out


def patch_index(op, npatch):
    """build_patch ops name the patch by an integer taken modulo the number of patches (-1 = last)"""
    return op["patch"] % npatch


def requests(op, npatch=3):
    """catalog name -> (coq catalog-level op, requested binning or None when nothing is requested /
    it raises); binning = None (unbinned) or (edges, closed)"""
    kind = op["op"]
    if kind == "build":
        b = None if op["edges"] is None else (EDGE_SETS[op["edges"]], op["closed"])
        return {op["cat"]: ("(All (%s))" % coq_build(b, op["force"]), ("req", b))}
    if kind == "build_patch":
        b = None if op["edges"] is None else (EDGE_SETS[op["edges"]], op["closed"])
        return {op["cat"]: ("(One %s %s %s)" % (fq.nat(patch_index(op, npatch)), coq_binning(b), fq.b(op["force"])),
                            ("req", b))}
    if kind == "build_invalid":
        b = (INVALID_EDGES[op["edges"]], op["closed"])
        return {op["cat"]: ("(All (%s))" % coq_build(b, False), None)}
    if kind == "reopen":
        return {op["cat"]: ("(All Reopen)", None)}
    c = op["cfg"]
    out = {}
    for name, role in participants(op).items():
        b = (EDGE_SETS[c["edges"]], c["closed"]) if role == "ref" else None
        out[name] = ("(All %s)" % coq_measure(c, role), ("req", b))
    return out


def coq_binning(b):
    if b is None:
        return "None"
    return "(Some (%s, %s))" % (fq.qlist(b[0]), fq.b(b[1] == "left"))


def coq_build(b, force):
    return "Build %s %s" % (coq_binning(b), fq.b(force))


def coq_measure(c, role):
    sc = SCALES[c["scales"]]
    rmin, rmax = np.atleast_1d(sc["rmin"]), np.atleast_1d(sc["rmax"])
    scales = fq.lst([fq.pair(fq.q(a), fq.q(b_)) for a, b_ in zip(rmin, rmax)])
    return "(Measure {| c_edges := %s; c_closed := %s; c_scales := %s |} %s)" % (
        fq.qlist(EDGE_SETS[c["edges"]]), fq.b(c["closed"] == "left"), scales,
        "Reference" if role == "ref" else "Unknown")


def measure(cats, op):
    cfg = make_config(op["cfg"])
    if op["op"] == "auto":
        return impl.yaw.autocorrelate(cfg, cats[op["data"]], cats[op["rand"]], max_workers=1)
    kw = {op["rand_role"]: cats[op["rand"]]}
    return impl.yaw.crosscorrelate(cfg, cats[op["ref"]], cats[op["unk"]], max_workers=1, **kw)


def apply_op(cats, paths, op):
    """run one operation on the real code; returns the result of a measurement (else None)"""
    kind = op["op"]
    if kind == "build":
        if op["edges"] is None:
            cats[op["cat"]].build_trees(None, closed=op["closed"], force=op["force"], max_workers=1)
        else:
            cats[op["cat"]].build_trees(EDGE_SETS[op["edges"]], closed=op["closed"], force=op["force"], max_workers=1)
    elif kind == "build_patch":
        from yaw.binning import Binning
        from yaw.catalog.trees import BinnedTrees
        cat = cats[op["cat"]]
        pids = sorted(cat.keys())
        binning = None if op["edges"] is None else Binning(EDGE_SETS[op["edges"]], closed=op["closed"])
        BinnedTrees.build(cat[pids[patch_index(op, len(pids))]], binning, force=op["force"])
    elif kind == "build_invalid":
        try:
            cats[op["cat"]].build_trees(INVALID_EDGES[op["edges"]], closed=op["closed"], max_workers=1)
        except ValueError:
            pass   # expected; whether the cache was left alone is seen by the state comparison
    elif kind == "reopen":
        cats[op["cat"]] = impl.Catalog(paths[op["cat"]], max_workers=1)
    else:
        return measure(cats, op)
    return None


# ---------------------------------------------------------------- observation
def observe(cat):
    """per patch id: (decoded binning file | 'nofile', trees content | 'nofile')"""
    from yaw.catalog.trees import BinnedTrees
    out = {}
    for pid, patch in cat.items():
        try:
            bt = BinnedTrees(patch)
            b = None if bt.binning is None else ([float(x) for x in bt.binning.edges], str(bt.binning.closed))
            bobs = ("file", b)
        except FileNotFoundError:
            bt, bobs = None, "nofile"
        tpath = os.path.join(str(patch.cache_path), "trees.pkl")
        if os.path.exists(tpath):
            with open(tpath, "rb") as f:
                trees = pickle.load(f)
            if isinstance(trees, tuple):
                tobs = ("file", (True, [int(t.num_records) for t in trees]))
            else:
                tobs = ("file", (False, [int(trees.num_records)]))
        else:
            tobs = "nofile"
        out[int(pid)] = (bobs, tobs)
    return out


def raw_codec_agrees(cat):
    """informational: the documented file format (1 byte + float64 edges) decodes to what the
    implementation's reader returns; returns (agree, total)"""
    from yaw.catalog.trees import BinnedTrees
    ok = n = 0
    for pid, patch in cat.items():
        p = os.path.join(str(patch.cache_path), "binning")
        if not os.path.exists(p):
            continue
        raw = open(p, "rb").read()
        n += 1
        try:
            edges = np.frombuffer(raw[1:], dtype="<f8")
            mine = None if len(edges) == 0 else ([float(x) for x in edges], "left" if raw[0] else "right")
            bt = BinnedTrees(patch)
            theirs = None if bt.binning is None else ([float(x) for x in bt.binning.edges], str(bt.binning.closed))
            ok += int(mine == theirs)
        except Exception:
            pass
    return ok, n


def coq_obs(o):
    bobs, tobs = o
    bs = "None" if bobs == "nofile" else "(Some %s)" % coq_binning(bobs[1])
    ts = "None" if tobs == "nofile" else "(Some (%s, %s))" % (fq.b(tobs[1][0]), fq.nlist(tobs[1][1]))
    return "(%s, %s)" % (bs, ts)


def corr_arrays(cf):
    out = []
    for kind in ("dd", "dr", "rd", "rr"):
        pc = getattr(cf, kind)
        if pc is None:
            out.append((kind, None))
            continue
        out.append((kind, (np.asarray(pc.counts.counts).tobytes(), np.asarray(pc.counts.counts).shape,
                           np.asarray(pc.sum_weights.sum_weights1).tobytes(),
                           np.asarray(pc.sum_weights.sum_weights2).tobytes())))
    return out


def same_result(a, b):
    """list[CorrFunc] equal with == and bitwise on every array; returns (ok, reason)"""
    if len(a) != len(b):
        return False, "number of scales differs"
    for i, (x, y) in enumerate(zip(a, b)):
        if not (x == y):
            diff = [k for (k, u), (_, v) in zip(corr_arrays(x), corr_arrays(y)) if u != v]
            return False, "scale %d: CorrFunc != (arrays differing: %s)" % (i, diff)
        if corr_arrays(x) != corr_arrays(y):
            return False, "scale %d: arrays not bitwise equal" % i
    return True, ""


# ---------------------------------------------------------------- one history
def run_history(ctx, tag, data, ops, record=True):
    """creates caches for `data`, applies ops (the last one is a measurement); returns
    (per catalog: list of coq ops, list of per-patch observations, final request), result, cats"""
    paths = {n: impl.fresh_dir(ctx, "%s_%s" % (tag, n)) for n in CATS}
    cats = {n: create(paths[n], data[n]) for n in CATS}
    per = {n: dict(ops=[], obs=[], final=None) for n in CATS}
    result = None
    for i, op in enumerate(ops):
        result = apply_op(cats, paths, op)
        if record:
            for name, (cop, req) in requests(op, len(cats[CATS[0]])).items():
                per[name]["ops"].append(cop)
                per[name]["obs"].append(observe(cats[name]))
                if i == len(ops) - 1:
                    per[name]["final"] = req
    return per, result, cats, paths


def fresh_result(ctx, tag, data, final_op, flipped=False):
    paths = {n: impl.fresh_dir(ctx, "%s_%s" % (tag, n)) for n in CATS}
    cats = {n: create(paths[n], data[n]) for n in CATS}
    res = measure(cats, final_op)
    res_flip = None
    if flipped:
        f = dict(final_op, cfg=dict(final_op["cfg"], closed="left" if final_op["cfg"]["closed"] == "right" else "right"))
        res_flip = measure(cats, f)
    for p in paths.values():
        shutil.rmtree(p, ignore_errors=True)
    return res, res_flip


def is_measure(op):
    return op["op"] in ("auto", "cross")


def nontrivial(ops):
    fin = requests(ops[-1])
    for op in ops[:-1]:
        for name, (_, req) in requests(op).items():
            if name in fin and req is not None and req != fin[name][1]:
                return True
    return False


def followup_for(op):
    """a measurement that asks every catalog touched by `op` for what `op` asked for (used by the
    search over prefixes: an unforced build of the same binning must then reuse the trees)"""
    if is_measure(op):
        return op
    if op["op"] not in ("build", "build_patch"):
        return None
    cat = op["cat"]
    others = [n for n in CATS if n != cat]
    if op["edges"] is None:
        return dict(op="cross", cfg=dict(edges=0, closed="right", scales=0), ref=others[0], unk=cat,
                    rand=others[1], rand_role="ref_rand")
    cfg = dict(edges=op["edges"], closed=op["closed"], scales=0)
    if cat == "R":
        return dict(op="auto", cfg=cfg, data="X", rand="R")
    return dict(op="auto", cfg=cfg, data=cat, rand="R")


def search_prefixes(ctx, idx, spec):
    """§2.3 step 4: look for a prefix of the history after which a measurement differs from fresh caches"""
    data = gen_data(spec["dseed"])
    ops = spec["ops"]
    for j in range(1, len(ops) + 1):
        fu = followup_for(ops[j - 1])
        if fu is None:
            continue
        cand = ops[:j] if is_measure(ops[j - 1]) else ops[:j] + [fu]
        try:
            _, res, _, paths = run_history(ctx, "s%d_%d" % (idx, j), data, cand, record=False)
            fres, _ = fresh_result(ctx, "sf%d_%d" % (idx, j), data, cand[-1])
            for p in paths.values():
                shutil.rmtree(p, ignore_errors=True)
        except Exception:
            continue
        ok, why = same_result(res, fres)
        if not ok:
            ctx.fail("c07-measurement-differs-from-fresh-cache",
                     "measurement after a cache history differs from the same measurement on fresh caches (%s); "
                     "shortest failing prefix has %d operations" % (why, len(cand)),
                     dict(dseed=spec["dseed"], ops=cand), case=idx)
            return True
    return False


def one_history(ctx, idx, spec, terms, owners):
    data = gen_data(spec["dseed"])
    ops = spec["ops"]
    per, res, cats, paths = run_history(ctx, "h%d" % idx, data, ops)
    ok_raw, n_raw = 0, 0
    for n in CATS:
        a, b_ = raw_codec_agrees(cats[n])
        ok_raw, n_raw = ok_raw + a, n_raw + b_
    ctx.bump("binning_files_matching_documented_format", ok_raw)
    ctx.bump("binning_files_seen", n_raw)
    fres, fflip = fresh_result(ctx, "f%d" % idx, data, ops[-1], flipped=True)
    ok, why = same_result(res, fres)
    if not ok:
        ctx.fail("c07-measurement-differs-from-fresh-cache",
                 "measurement after a cache history differs from the same measurement on fresh caches (%s)" % why,
                 dict(spec), case=idx)
    if not same_result(fres, fflip)[0]:
        ctx.bump("closed_side_changes_final_result")
    # coq terms: one per catalog (state vector over its patches; patch ids are 0..n-1 = positions)
    for n in CATS:
        if not per[n]["ops"]:
            continue
        redshifts = {int(pid): [float(z) for z in patch.redshifts] for pid, patch in cats[n].items()}
        pids = sorted(redshifts)
        assert pids == list(range(len(pids))), pids
        final = per[n]["final"]
        fstr = "None" if final is None else "(Some %s)" % coq_binning(final[1])
        terms.append("c07_ccase %s %s %s %s" % (
            fq.lst(per[n]["ops"]), fq.lst([fq.qlist(redshifts[p]) for p in pids]),
            fq.lst([fq.lst([coq_obs(o[p]) for p in pids]) for o in per[n]["obs"]]), fstr))
        owners.append((idx, n))
    nt = nontrivial(ops)
    ctx.count(key=(spec["dseed"], repr(ops)), nontrivial=nt, kind="final:%s/len%d" % (ops[-1]["op"], len(ops)))
    for op in ops[:-1]:
        ctx.bump("op:" + op["op"] + (":force" if op.get("force") else "") + (":unbinned" if op["op"] in ("build", "build_patch") and op["edges"] is None else ""))
    if any(op["op"] == "build_patch" for op in ops):
        ctx.bump("histories_with_single_patch_builds")
    ctx.sample(dict(spec=spec, final_request={n: per[n]["final"] for n in CATS},
                    observed_after_last_op={n: per[n]["obs"][-1] for n in CATS if per[n]["obs"]}), limit=3)
    for p in paths.values():
        shutil.rmtree(p, ignore_errors=True)


# ---------------------------------------------------------------- generators
def rand_cfg(rng, near=None):
    if near is not None and rng.random() < 0.55:
        k = rng.random()
        if k < 0.4:      # same edges, other closed side
            return dict(edges=near["edges"], closed="left" if near["closed"] == "right" else "right", scales=rng.randrange(3))
        if k < 0.7:      # same number of edges, other edges, same closed side
            e = {0: rng.choice([2, 3]), 2: 0, 3: 0}.get(near["edges"], near["edges"])
            return dict(edges=e, closed=near["closed"], scales=rng.randrange(3))
        return dict(edges=near["edges"], closed=near["closed"], scales=rng.randrange(3))   # identical binning
    return dict(edges=rng.randrange(len(EDGE_SETS)), closed=rng.choice(["left", "right"]), scales=rng.randrange(3))


def rand_measure(rng, near=None):
    cfg = rand_cfg(rng, near)
    if rng.random() < 0.5:
        return dict(op="auto", cfg=cfg, data=rng.choice(["X", "Y"]), rand="R")
    ref = rng.choice(["X", "Y"])
    return dict(op="cross", cfg=cfg, ref=ref, unk="Y" if ref == "X" else "X", rand="R",
                rand_role=rng.choice(["ref_rand", "unk_rand"]))


def rand_history(rng):
    final = rand_measure(rng)
    ops = []
    for _ in range(rng.randrange(0, 8)):
        r = rng.random()
        if r < 0.14:   # build ONE patch (first / last / any), mostly for a binning close to the final one
            if rng.random() < 0.2:
                e, cl = None, rng.choice(["left", "right"])
            else:
                c = rand_cfg(rng, final["cfg"])
                e, cl = c["edges"], c["closed"]
            ops.append(dict(op="build_patch", cat=rng.choice(CATS), patch=rng.choice([0, 0, -1, -1, 1]), edges=e, closed=cl,
                            force=rng.random() < 0.25))
        elif r < 0.42:
            if rng.random() < 0.3:
                ops.append(dict(op="build", cat=rng.choice(CATS), edges=None, closed=rng.choice(["left", "right"]),
                                force=rng.random() < 0.3))
            else:
                c = rand_cfg(rng, final["cfg"])
                ops.append(dict(op="build", cat=rng.choice(CATS), edges=c["edges"], closed=c["closed"],
                                force=rng.random() < 0.3))
        elif r < 0.48:
            ops.append(dict(op="build_invalid", cat=rng.choice(CATS), edges=rng.randrange(len(INVALID_EDGES)),
                            closed=rng.choice(["left", "right"])))
        elif r < 0.62:
            ops.append(dict(op="reopen", cat=rng.choice(CATS)))
        else:
            ops.append(rand_measure(rng, final["cfg"]))
    return ops + [final]


def corpus():
    c = lambda e, cl, s=0: dict(edges=e, closed=cl, scales=s)  # noqa: E731
    auto = lambda cfg, d="X": dict(op="auto", cfg=cfg, data=d, rand="R")  # noqa: E731
    cross = lambda cfg, ref, unk, rr="ref_rand": dict(op="cross", cfg=cfg, ref=ref, unk=unk, rand="R", rand_role=rr)  # noqa: E731
    build = lambda cat, e, cl="right", force=False: dict(op="build", cat=cat, edges=e, closed=cl, force=force)  # noqa: E731
    bpatch = lambda cat, p, e, cl="right", force=False: dict(op="build_patch", cat=cat, patch=p, edges=e, closed=cl, force=force)  # noqa: E731
    return [
        # patches of one catalog hold trees for DIFFERENT binnings (same bin count):
        # all patches hold A, only patch 0 is rebuilt for B, then measure with B
        [auto(c(0, "right")), bpatch("X", 0, 2, "right"), auto(c(2, "right"))],
        # mirror image: all patches hold B, only the LAST patch is rebuilt for A, then measure with B
        [auto(c(2, "right")), bpatch("X", -1, 0, "right"), auto(c(2, "right"))],
        # the same with the closed side as the only difference, on the random catalog, forced single-patch build
        [auto(c(0, "left")), bpatch("R", 0, 0, "right", True), auto(c(0, "right"))],
        [auto(c(0, "right"), "Y"), bpatch("R", -1, 0, "left"), bpatch("Y", 1, 0, "left"), auto(c(0, "right"), "Y")],
        # a single patch unbinned among binned ones and vice versa (roles swap afterwards)
        [auto(c(1, "left")), bpatch("X", 0, None), cross(c(1, "left"), "Y", "X")],
        [cross(c(0, "right"), "Y", "X"), bpatch("X", 0, 0, "right"), auto(c(0, "right"))],
        # single-patch build on a fresh cache (the other patches have no files yet)
        [bpatch("X", 0, 3, "left"), bpatch("R", -1, 3, "left"), auto(c(3, "left"))],
        # same edges, other closed side
        [build("X", 0, "left"), build("R", 0, "left"), auto(c(0, "right"))],
        [auto(c(0, "right")), auto(c(0, "left"))],
        # same number of edges, other edges
        [auto(c(0, "right")), auto(c(2, "right"))],
        [build("X", 2, "left"), build("R", 2, "left"), auto(c(0, "left"))],
        # edges that differ in the last digit only
        [auto(c(0, "right")), auto(c(3, "right"))],
        [auto(c(3, "left")), dict(op="reopen", cat="X"), auto(c(0, "left"))],
        # other bin count, reopenings in between
        [auto(c(0, "left")), dict(op="reopen", cat="X"), dict(op="reopen", cat="R"), auto(c(1, "left"))],
        # roles swapped: binned <-> unbinned
        [cross(c(0, "left"), "X", "Y"), cross(c(0, "left"), "Y", "X")],
        [build("Y", None), build("X", 0, "right", True), cross(c(0, "left"), "X", "Y", "unk_rand")],
        [build("X", None), build("R", None), auto(c(1, "right"))],
        # a request that raises leaves the cache alone
        [build("R", 2, "left"), dict(op="build_invalid", cat="Y", edges=0, closed="left"),
         dict(op="build_invalid", cat="R", edges=1, closed="right"), auto(c(2, "right"), "Y")],
        # same binning, other scales: trees are reused
        [auto(c(0, "left", 0)), auto(c(0, "left", 2)), auto(c(0, "left", 1))],
    ]


def specs(ctx):
    rng = ctx.rng
    out = [dict(dseed=1000 + i, ops=ops, origin="corpus") for i, ops in enumerate(corpus())]
    for _ in range(ctx.n(25, 400)):
        out.append(dict(dseed=rng.randrange(10 ** 6), ops=rand_history(rng), origin="random"))
    return out


# ---------------------------------------------------------------- entry points
def run_specs(ctx, all_specs):
    impl.set_threads(1)
    terms, owners = [], []
    done = {}
    for idx, spec in enumerate(all_specs):
        try:
            one_history(ctx, idx, spec, terms, owners)
            done[idx] = spec
        except Exception as e:
            ctx.count(key=(spec["dseed"], repr(spec["ops"])), kind="raised")
            ctx.fail("c07-raises:%s" % type(e).__name__,
                     "a valid build / measurement history raised %s: %s" % (type(e).__name__, e),
                     dict(spec, traceback=traceback.format_exc()[-1500:]), case=idx)
    codes = ctx.shards("Cases_C07", HEADER, terms, shard=200)
    bad = {}
    for (idx, name), c in zip(owners, codes):
        if c:
            bad.setdefault(idx, []).append((name, c))
    searched = 0
    for idx, lst in sorted(bad.items()):
        spec = done[idx]
        allc = 0
        for _, c in lst:
            allc |= c
        if allc & 4:
            ctx.obligation("harness:c07-final-request(case %d)" % idx, False, repr(lst))
        if allc & 2:
            ctx.fail("c07-trees-not-those-of-requested-binning",
                     "after the final build the cached trees / binning file of a patch are not those of the requested "
                     "binning in every patch (catalog, code): %s" % lst[:4], dict(spec), case=idx)
        if allc & 1:
            ctx.disagree("Cases_C07", idx, dict(cases=lst[:6], spec=spec))
            if searched < 12:     # search budget
                searched += 1
                search_prefixes(ctx, idx, spec)


def run(ctx):
    run_specs(ctx, specs(ctx))


def replay(ctx, body):
    spec = body.get("replay", body)
    run_specs(ctx, [dict(dseed=spec["dseed"], ops=spec["ops"])])
