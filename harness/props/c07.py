"""C07 — measurements are independent of what was cached before.

Tie: random (and a few hand-picked) histories of Catalog.build_trees (3 edge sets x 2 closed
sides, unbinned, forced / unforced, requests that raise), real yaw.autocorrelate /
yaw.crosscorrelate calls (catalogs change role between reference and unknown, several scale
sets) and Catalog(cache) reopenings are run on three small catalogs whose redshifts sit on the
bin edges; histories also contain builds of ONE patch (the public per-patch call
BinnedTrees.build(catalog[p], Binning | None, force=...), first / last / any patch), which leave
the patches of one catalog with trees for different binnings.  After every operation the
`binning` file (as BinnedTrees decodes it) and the unpickled trees.pkl (tuple or single tree,
records per tree) of every patch are compared inside Coq with the per-patch state vector of
Model/TreeCache.v (c07_ccase).  Every history ends with a
measurement whose CorrFunc list is compared (`==` and bitwise on every counts / sum_weights
array) with the same measurement on freshly created caches of the same data.

Processes: every step of a history has an executor -- the measuring process itself (max_workers=1),
a REAL multiprocessing pool (max_workers=2/3 with YAW_NUM_THREADS raised: forked workers build the
trees and count the pairs) or a forked CHILD process that runs the whole call while the measuring
process stays alive with its Catalog objects (kept alive or reopened later by `reopen` steps).
Histories mix these freely (sequential / pooled / child steps in any order, final measurement by
anyone).  `peek` steps read BinnedTrees(patch).trees of every patch of a catalog IN the measuring
process; what they return is compared inside Coq (c07_pcase, bit 3) with the process model of
Model/TreeCache.v under the code's policy (nothing is kept in memory: a peek returns the trees
file).  The files after every step are compared as before, whoever executed the step.

Patch metadata: a Catalog object reports number of records, sum of weights, centre and radius of every patch; the object
that creates a cache computes them, Catalog(cache) reads them back from meta.yml, and a measurement uses them (totals
normalise the counts; centre + radius decide through the patch linkage dist(c_i, c_j) <= r_i + r_j + largest angle which
patch pairs are counted at all).  After every step of every history the metadata of the object in use (replaced by
`reopen` steps) are compared inside Coq (c07_mcase, exact float64 values) with those of the creating object: the model
(Model/TreeCache.v, mst / mrun) says a reopened catalog holds what was computed from the records.  Linkage-limit family
(geom="edge"): 2-4 patches on one great circle (equator or tilted, centres from the records or explicit patch_centers,
radian or degree input, generic float64 coordinates and weights) whose facing farthest records are exactly
dist(c_k, c_k+1) - r_k - r_k+1 apart; the scale limit of the final measurement (rad / deg / arcmin, one or two scales) is
that slack (computed from what the created Catalog objects report) plus a margin of 1e-9 ... 1e-12 rad, so the closest
patch pair is linked by that margin and its facing records are counted; the history reopens participants of the final
measurement (right after creation / after measurements and builds with other binnings and scales / twice) and measures,
any executor.  Result against fresh caches as for all histories; a fresh measurement with the scale limit lowered by
4e-8 rad shows that the facing records were counted.  A differing measurement together with differing metadata of a
reopened catalog is reported as a failing input; differing metadata alone break the tie (ctx.disagree).

Options (props/c07_options.py, run last in the same long-lived process): histories whose measurements differ in their
OPTIONS from step to step (rmin / rmax, unit, rweight, resolution, cosmology, both max_workers, closed side, binning,
entry point; "explicit value, then unset", "one option changed", other spellings of the same value), executed by the
process itself, the simulated pool and a real pool; every measurement is compared bit for bit with the same measurement
made by a process that has done nothing else on caches of its own; Model/EffOptions.v (c07_ocase) ties the effective
options (unset = default) and says which histories would expose a record of options shared between measurements.
"""
import os
import pickle
import random
import shutil
import traceback
import multiprocessing

import numpy as np

from lib import floatq as fq
from lib import impl

ALLOWED_AXIOMS = []
TRUSTED = [
    "harness-side observation of a patch directory: BinnedTrees(patch).binning (the implementation's own decoder of the "
    "`binning` file) and pickle.load of trees.pkl (tuple / single AngularTree, num_records); scipy KDTree pair counting is "
    "exercised, not modelled",
    "processes: pools are the real multiprocessing pools of the implementation (fork start method), child steps run in a "
    "real forked child of the measuring process (harness: multiprocessing fork context + pipe); the Coq process model "
    "abstracts a pool as 'building workers and counting workers are forked from the measuring process' and a child as one "
    "forked process",
    "harness-side observation of patch metadata: Catalog.get_num_records / get_sum_weights / get_centers / get_radii of the "
    "object in use, converted exactly; the scale limit of the linkage-limit family is chosen by evaluating the documented "
    "linkage rule on these values (no verdict depends on it: whether the facing records are counted is measured)",
    "option histories: the process without history is a child forked per request from a server interpreter "
    "(props/c07_options.py run as a script, same source tree) that imports the library and does nothing else; results are "
    "compared by SHA-1 of the bit patterns of all counts / sum_weights arrays; the simulated pool is sim/pool.py",
]
ASSUMPTIONS = [
    "a cache directory is used by one catalog in one role per measurement (the same cache passed twice to one "
    "crosscorrelate call is outside the statement)",
    "the pair counts of a measurement are a function of the patch data, the configuration and the content of trees.pkl "
    "(compared end-to-end against fresh caches on every history, not proved)",
    "patch linkage (C07_count_linked_all etc.): stated for any distance that is symmetric and satisfies the triangle "
    "inequality, with rational values; the angular distance on the sphere is such a distance (not formalised here), the "
    "float64 evaluation of the linkage test is exercised at margins down to 1e-12 rad, not modelled",
    "options (C07_effective_options_history_independent etc.): the theorems are about the options a process USES as a "
    "function of its history of configurations; that the pair counts are a function of the options in use, the records and "
    "the trees is exercised end-to-end against processes without history, not proved",
]
RULE = ("cases = (history of <= 10 steps on 3 catalogs, every step with its executor: measuring process / real pool of 2-3 "
        "workers / forked child process, data seed); distinct by (steps incl. executors, data seed); non-trivial when, "
        "before the final measurement, a participating catalog was asked for a binning different from the one the final "
        "measurement asks for (the reuse decision sees a stored binning that must be rejected or was replaced); "
        "linkage-limit cases (generated geometry + scale limit, history with reopen steps, data seed): non-trivial when the "
        "fresh measurement counts the facing records of the closest patch pair within 4e-8 rad of the scale limit (lowering "
        "the limit changes the result) and the final measurement runs on a Catalog object reopened from its cache; "
        "option histories (2-6 measurements in the long-lived process, options as written per step, executors, data seed): "
        "distinct by (steps by value, data seed); non-trivial when Model/EffOptions.v alias_exposed marks a step, i.e. a "
        "record of options shared between measurements and updated only with the options that are set would use other "
        "effective options there than the configuration says (an option set earlier is unset now, and it matters)")

HEADER = "From Verif Require Import Prelude TreeCache.\nOpen Scope Q_scope.\n"

CATS = ["X", "Y", "R"]
EDGE_SETS = [
    [0.25, 0.5, 0.75, 1.0],     # 3 bins
    [0.25, 0.5, 1.0],           # 2 bins (other bin count)
    [0.25, 0.625, 0.75, 1.0],   # 3 bins, other edges (same count as set 0)
    [0.25, 0.5000000000000001, 0.75, 1.0],   # set 0 with one edge moved by one ulp (0.5 -> nextafter(0.5, 1))
]
INVALID_EDGES = [[0.5], [0.5, 0.25, 1.0], [0.25, 0.25, 1.0]]
SCALES = [
    dict(rmin=0.05, rmax=3.0, unit="deg"),
    dict(rmin=[0.1, 0.5], rmax=[1.0, 4.0], unit="deg"),
    dict(rmin=500.0, rmax=20000.0, unit="kpc"),
]
Z_ON_EDGE = [0.25, 0.5, 0.5000000000000001, 0.625, 0.75, 1.0]
Z_OTHER = [0.125, 0.375, 0.5625, 0.875, 1.25]
CENTERS = [(30.0, 10.0), (42.0, -5.0), (55.0, 20.0)]
Z_INSIDE = [0.375, 0.5625, 0.875]      # strictly inside a bin of every edge set
EDGE_MARGINS = [1e-9, 1e-10, 1e-9, 1e-11, 1e-12]   # rad: how far inside the linkage limit the closest patch pair lies
EDGE_INNER = 4e-8                      # rad: a scale limit lowered by this much no longer holds the facing records


# ---------------------------------------------------------------- data
def gen_data(dseed):
    """three catalogs with the same 2-3 named patches; points in symmetric pairs around the patch
    centre (so the patch centres of all catalogs coincide), redshifts mostly exactly on bin edges"""
    prng = random.Random(dseed)
    npatch = prng.choice([2, 3])
    npairs = 5 if npatch == 3 else 7
    data = {}
    for name in CATS:
        cols = dict(ra=[], dec=[], pid=[], z=[], w=[])
        for k in range(npatch):
            for j in range(npairs):
                dx, dy = prng.randrange(-16, 17) / 16.0, prng.randrange(-16, 17) / 16.0
                if j == 0:
                    dx = 1.0   # one pair at full distance: the patch radius is >= 1 deg in every catalog
                w = prng.randrange(1, 9) / 4.0   # same weight for both members: the (weighted) centre stays put
                for s in (1, -1):
                    cols["ra"].append(CENTERS[k][0] + s * dx)
                    cols["dec"].append(CENTERS[k][1] + s * dy)
                    cols["pid"].append(k)
                    cols["z"].append(prng.choice(Z_ON_EDGE) if prng.random() < 0.75 else prng.choice(Z_OTHER))
                    cols["w"].append(w)
        data[name] = dict(cols=cols, weights=prng.random() < 0.5)
    return data


def _frame(prng, tilted):
    """orthonormal (e1, e2, n): e1, e2 span the plane of a great circle (the equator when not tilted)"""
    if not tilted:
        return np.eye(3)
    inc, node = prng.uniform(-1.1, 1.1), prng.uniform(0.0, 6.0)
    e1 = np.array([np.cos(node), np.sin(node), 0.0])
    z = np.array([0.0, 0.0, 1.0])
    e2 = np.cos(inc) * np.cross(z, e1) + np.sin(inc) * z
    return np.array([e1, e2, np.cross(e1, e2)])


def _on_circle(fr, phi, a, b):
    """(ra, dec) in radian of the point at position phi + a along the great circle, b off it"""
    e1, e2, n = fr
    v = np.cos(b) * (np.cos(phi + a) * e1 + np.sin(phi + a) * e2) + np.sin(b) * n
    return float(np.arctan2(v[1], v[0]) % (2.0 * np.pi)), float(np.arcsin(max(-1.0, min(1.0, v[2]))))


def gen_edge_data(dseed):
    """three catalogs with the same 2-4 patches whose centres lie on ONE great circle (equator or tilted); every patch
    of every catalog has its two farthest records on that circle at +-R_k from the centre (they define the radius), the
    other records come in pairs mirrored at the centre and lie within 0.85 R_k, so the facing records of neighbouring
    patches are dist(c_k, c_k+1) - r_k - r_k+1 apart: exactly what the patch linkage leaves between two patches.  All
    neighbouring patches leave the same gap.  Patches either get their centre from the records (mean) or from explicit
    patch_centers; coordinates are generic float64 (nothing dyadic), given in radian or degrees."""
    prng = random.Random(dseed)
    npatch = prng.choice([2, 2, 3, 4])
    fr = _frame(prng, prng.random() < 0.65)
    explicit = prng.random() < 0.5
    degrees = prng.random() < 0.4
    radius = [prng.uniform(0.006, 0.010) for _ in range(npatch)]
    gap = prng.uniform(0.005, 0.009)          # > any difference of radii: every record is nearest to its own centre
    phi = [prng.uniform(0.2, 5.0)]
    for k in range(1, npatch):
        phi.append(phi[-1] + radius[k - 1] + radius[k] + gap)
    zext = prng.choice(Z_INSIDE)              # all facing records share a redshift bin (autocorrelation counts within a bin)
    centers = [_on_circle(fr, p, 0.0, 0.0) for p in phi]
    small = prng.choice(CATS) if prng.random() < 0.25 else None
    data = {}
    for name in CATS:
        cols = dict(ra=[], dec=[], pid=[], z=[], w=[])
        generic_w = prng.random() < 0.5
        size = 0.9 if name == small else 1.0       # one catalog may have smaller patches than the others
        for k in range(npatch):
            for j in range(prng.randrange(3, 6)):
                if j == 0:
                    a, b = size * radius[k], 0.0
                else:
                    a, b = prng.uniform(-0.6, 0.6) * radius[k], prng.uniform(-0.6, 0.6) * radius[k]
                w = prng.uniform(0.5, 2.0) if generic_w else prng.randrange(1, 9) / 4.0
                for s in (1, -1):
                    ra, dec = _on_circle(fr, phi[k], s * a, s * b)
                    cols["ra"].append(float(np.rad2deg(ra)) if degrees else ra)
                    cols["dec"].append(float(np.rad2deg(dec)) if degrees else dec)
                    cols["pid"].append(k)
                    cols["z"].append(zext if j == 0 else
                                     (prng.choice(Z_ON_EDGE) if prng.random() < 0.6 else prng.choice(Z_OTHER + Z_INSIDE)))
                    cols["w"].append(w)
        data[name] = dict(cols=cols, weights=prng.random() < 0.5,
                          create=dict(degrees=degrees, centers=centers if explicit else None))
    return data


def data_of(spec):
    return gen_edge_data(spec["dseed"]) if spec.get("geom") == "edge" else gen_data(spec["dseed"])


def create(path, d):
    shutil.rmtree(path, ignore_errors=True)
    kw = dict(ra_name="ra", dec_name="dec", redshift_name="z", max_workers=1)
    how = d.get("create") or dict(degrees=True, centers=None)
    kw["degrees"] = how["degrees"]
    if how["centers"] is None:
        kw["patch_name"] = "pid"
    else:     # records are assigned to the nearest centre, patch ids = positions in the list
        kw["patch_centers"] = impl.AngularCoordinates(how["centers"])
    if d["weights"]:
        kw["weight_name"] = "w"
    return impl.Catalog.from_dataframe(path, impl.make_df(d["cols"]), **kw)


# ---------------------------------------------------------------- operations
def scales_of(c):
    """an index into SCALES, or the scales themselves (the linkage-limit family computes them from the data)"""
    sc = c["scales"]
    return SCALES[sc] if isinstance(sc, int) else dict(rmin=sc["rmin"], rmax=sc["rmax"], unit=sc["unit"])


def make_config(c):
    return impl.Configuration.create(edges=EDGE_SETS[c["edges"]], closed=c["closed"], **scales_of(c))


def participants(op):
    """catalog name -> role ('ref' / 'unk') for a measurement"""
    if op["op"] == "auto":
        return {op["data"]: "ref", op["rand"]: "ref"}
    out = {op["ref"]: "ref", op["unk"]: "unk"}
    out[op["rand"]] = "ref" if op["rand_role"] == "ref_rand" else "unk"
    return out


def patch_index(op, npatch):
    """build_patch ops name the patch by an integer taken modulo the number of patches (-1 = last)"""
    return op["patch"] % npatch


def requests(op, npatch=3):
    """catalog name -> (coq catalog-level op, requested binning or None when nothing is requested /
    it raises); binning = None (unbinned) or (edges, closed)"""
    kind = op["op"]
    if kind == "build":
        b = None if op["edges"] is None else (EDGE_SETS[op["edges"]], op["closed"])
        return {op["cat"]: ("(All (%s))" % coq_build(b, op["force"]), ("req", b))}
    if kind == "build_patch":
        b = None if op["edges"] is None else (EDGE_SETS[op["edges"]], op["closed"])
        return {op["cat"]: ("(One %s %s %s)" % (fq.nat(patch_index(op, npatch)), coq_binning(b), fq.b(op["force"])),
                            ("req", b))}
    if kind == "build_invalid":
        b = (INVALID_EDGES[op["edges"]], op["closed"])
        return {op["cat"]: ("(All (%s))" % coq_build(b, False), None)}
    if kind == "reopen":
        return {op["cat"]: ("(All Reopen)", None)}
    if kind == "peek":
        return {op["cat"]: (None, None)}      # CPeek in the labelled history
    c = op["cfg"]
    out = {}
    for name, role in participants(op).items():
        b = (EDGE_SETS[c["edges"]], c["closed"]) if role == "ref" else None
        out[name] = ("(All %s)" % coq_measure(c, role), ("req", b))
    return out


def coq_binning(b):
    if b is None:
        return "None"
    return "(Some (%s, %s))" % (fq.qlist(b[0]), fq.b(b[1] == "left"))


def coq_build(b, force):
    return "Build %s %s" % (coq_binning(b), fq.b(force))


def coq_measure(c, role):
    sc = scales_of(c)
    rmin, rmax = np.atleast_1d(sc["rmin"]), np.atleast_1d(sc["rmax"])
    scales = fq.lst([fq.pair(fq.q(a), fq.q(b_)) for a, b_ in zip(rmin, rmax)])
    return "(Measure {| c_edges := %s; c_closed := %s; c_scales := %s |} %s)" % (
        fq.qlist(EDGE_SETS[c["edges"]]), fq.b(c["closed"] == "left"), scales,
        "Reference" if role == "ref" else "Unknown")


# ---------------------------------------------------------------- executors
MAX_POOL = 3   # YAW_NUM_THREADS during the check; every yaw call gets an explicit max_workers <= MAX_POOL


def workers_of(op):
    """requested worker count of a step (1 = sequential in the executing process)"""
    return int(op.get("workers", 1))


def effective_workers(op):
    """what yaw makes of the request on this machine (min(request, YAW_NUM_THREADS, cores per socket))"""
    from yaw.utils import parallel
    return int(parallel.get_size(workers_of(op)))


def executor(op):
    """'Self' | 'Pool' | 'Child' : the label of the step in the Coq process model"""
    if op["op"] in ("reopen", "peek"):
        return "Self"
    if op["op"] != "build_patch" and effective_workers(op) >= 2:
        return "Pool"       # (a pool inside a child process is a pool whose parent never used the trees itself)
    return "Child" if op.get("proc") == "child" else "Self"


def elsewhere(op):
    """the step is not executed (entirely) by the measuring process"""
    return op.get("proc") == "child" or (op["op"] in ("build", "build_invalid", "auto", "cross") and workers_of(op) >= 2)


def strip_exec(op):
    return {k: v for k, v in op.items() if k not in ("proc", "workers")}


class ChildFailure(Exception):
    pass


def in_child(fn):
    """run fn() in a forked child of this process; this process stays alive, keeps all its objects and only
    receives fn's (pickled) result.  An exception in the child is re-raised here under its own type name."""
    mp = multiprocessing.get_context("fork")
    rx, tx = mp.Pipe(duplex=False)

    def target():
        try:
            out = ("ok", fn())
        except BaseException as e:   # noqa: BLE001
            out = ("exc", type(e).__name__, str(e), traceback.format_exc()[-1500:])
        try:
            tx.send(out)
        finally:
            tx.close()

    proc = mp.Process(target=target)
    proc.start()
    tx.close()
    try:
        out = rx.recv()
    except EOFError:
        out = ("exc", "ChildDied", "child process ended without a result", "")
    finally:
        rx.close()
    proc.join()
    if out[0] == "exc":
        raise type(out[1], (ChildFailure,), {})("in child process: %s\n%s" % (out[2], out[3]))
    return out[1]


def measure(cats, op):
    cfg = make_config(op["cfg"])
    w = workers_of(op)
    if op["op"] == "auto":
        return impl.yaw.autocorrelate(cfg, cats[op["data"]], cats[op["rand"]], max_workers=w)
    kw = {op["rand_role"]: cats[op["rand"]]}
    return impl.yaw.crosscorrelate(cfg, cats[op["ref"]], cats[op["unk"]], max_workers=w, **kw)


def peek(cat):
    """BinnedTrees(patch).trees of every patch, read in THIS process: pid -> 'nofile' | (is tuple, records per tree)"""
    from yaw.catalog.trees import BinnedTrees
    out = {}
    for pid, patch in cat.items():
        try:
            trees = BinnedTrees(patch).trees
        except FileNotFoundError:
            out[int(pid)] = "nofile"
            continue
        if isinstance(trees, tuple):
            out[int(pid)] = (True, [int(t.num_records) for t in trees])
        else:
            out[int(pid)] = (False, [int(trees.num_records)])
    return out


def apply_op(cats, paths, op):
    """run one step on the real code with its executor; returns the result of a measurement / peek (else None)"""
    if op.get("proc") == "child" and op["op"] not in ("reopen", "peek"):
        here = dict(op, proc="here")
        return in_child(lambda: apply_op_here(cats, paths, here))
    return apply_op_here(cats, paths, op)


def apply_op_here(cats, paths, op):
    kind = op["op"]
    if kind == "build":
        if op["edges"] is None:
            cats[op["cat"]].build_trees(None, closed=op["closed"], force=op["force"], max_workers=workers_of(op))
        else:
            cats[op["cat"]].build_trees(EDGE_SETS[op["edges"]], closed=op["closed"], force=op["force"],
                                        max_workers=workers_of(op))
    elif kind == "build_patch":
        from yaw.binning import Binning
        from yaw.catalog.trees import BinnedTrees
        cat = cats[op["cat"]]
        pids = sorted(cat.keys())
        binning = None if op["edges"] is None else Binning(EDGE_SETS[op["edges"]], closed=op["closed"])
        BinnedTrees.build(cat[pids[patch_index(op, len(pids))]], binning, force=op["force"])
    elif kind == "build_invalid":
        try:
            cats[op["cat"]].build_trees(INVALID_EDGES[op["edges"]], closed=op["closed"], max_workers=workers_of(op))
        except ValueError:
            pass   # expected; whether the cache was left alone is seen by the state comparison
    elif kind == "reopen":
        cats[op["cat"]] = impl.Catalog(paths[op["cat"]], max_workers=1)
    elif kind == "peek":
        return peek(cats[op["cat"]])
    else:
        return measure(cats, op)
    return None


# ---------------------------------------------------------------- observation
def observe(cat):
    """per patch id: (decoded binning file | 'nofile', trees content | 'nofile')"""
    from yaw.catalog.trees import BinnedTrees
    out = {}
    for pid, patch in cat.items():
        try:
            bt = BinnedTrees(patch)
            b = None if bt.binning is None else ([float(x) for x in bt.binning.edges], str(bt.binning.closed))
            bobs = ("file", b)
        except FileNotFoundError:
            bt, bobs = None, "nofile"
        tpath = os.path.join(str(patch.cache_path), "trees.pkl")
        if os.path.exists(tpath):
            with open(tpath, "rb") as f:
                trees = pickle.load(f)
            if isinstance(trees, tuple):
                tobs = ("file", (True, [int(t.num_records) for t in trees]))
            else:
                tobs = ("file", (False, [int(trees.num_records)]))
        else:
            tobs = "nofile"
        out[int(pid)] = (bobs, tobs)
    return out


META_FIELDS = ["num_records", "sum_weights", "center_ra", "center_dec", "radius"]


def meta_obs(cat):
    """what a Catalog object reports about its patches (public getters): pid -> [num_records, sum_weights, centre ra,
    centre dec, radius] as python floats"""
    pids = [int(p) for p in cat.keys()]
    num, sw = cat.get_num_records(), cat.get_sum_weights()
    cen = np.asarray(cat.get_centers().data, dtype=np.float64).reshape(-1, 2)
    rad = np.asarray(cat.get_radii().data, dtype=np.float64).reshape(-1)
    return {p: [float(num[i]), float(sw[i]), float(cen[i][0]), float(cen[i][1]), float(rad[i])] for i, p in enumerate(pids)}


def meta_changes(created, row):
    """[(pid, field, created value, value now)] where the bit patterns differ"""
    out = []
    for p in sorted(created):
        now = row.get(p)
        if now is None:
            out.append((p, "patch-missing", None, None))
            continue
        for f, a, b_ in zip(META_FIELDS, created[p], now):
            if float(a).hex() != float(b_).hex():
                out.append((p, f, a, b_))
    return out


def coq_meta_row(row):
    return fq.lst([fq.qlist(row[p]) for p in sorted(row)])


def raw_codec_agrees(cat):
    """informational: the documented file format (1 byte + float64 edges) decodes to what the
    implementation's reader returns; returns (agree, total)"""
    from yaw.catalog.trees import BinnedTrees
    ok = n = 0
    for pid, patch in cat.items():
        p = os.path.join(str(patch.cache_path), "binning")
        if not os.path.exists(p):
            continue
        raw = open(p, "rb").read()
        n += 1
        try:
            edges = np.frombuffer(raw[1:], dtype="<f8")
            mine = None if len(edges) == 0 else ([float(x) for x in edges], "left" if raw[0] else "right")
            bt = BinnedTrees(patch)
            theirs = None if bt.binning is None else ([float(x) for x in bt.binning.edges], str(bt.binning.closed))
            ok += int(mine == theirs)
        except Exception:
            pass
    return ok, n


def coq_obs(o):
    bobs, tobs = o
    bs = "None" if bobs == "nofile" else "(Some %s)" % coq_binning(bobs[1])
    ts = "None" if tobs == "nofile" else "(Some (%s, %s))" % (fq.b(tobs[1][0]), fq.nlist(tobs[1][1]))
    return "(%s, %s)" % (bs, ts)


def corr_arrays(cf):
    out = []
    for kind in ("dd", "dr", "rd", "rr"):
        pc = getattr(cf, kind)
        if pc is None:
            out.append((kind, None))
            continue
        out.append((kind, (np.asarray(pc.counts.counts).tobytes(), np.asarray(pc.counts.counts).shape,
                           np.asarray(pc.sum_weights.sum_weights1).tobytes(),
                           np.asarray(pc.sum_weights.sum_weights2).tobytes())))
    return out


def same_result(a, b):
    """list[CorrFunc] equal with == and bitwise on every array; returns (ok, reason)"""
    if len(a) != len(b):
        return False, "number of scales differs"
    for i, (x, y) in enumerate(zip(a, b)):
        if not (x == y):
            diff = [k for (k, u), (_, v) in zip(corr_arrays(x), corr_arrays(y)) if u != v]
            return False, "scale %d: CorrFunc != (arrays differing: %s)" % (i, diff)
        if corr_arrays(x) != corr_arrays(y):
            return False, "scale %d: arrays not bitwise equal" % i
    return True, ""


# ---------------------------------------------------------------- one history
def run_history(ctx, tag, data, ops, record=True):
    """creates caches for `data`, applies ops (the last one is a measurement); returns
    (per catalog: list of labelled coq ops, per-patch file observations, peek rows, final request), result, cats"""
    paths = {n: impl.fresh_dir(ctx, "%s_%s" % (tag, n)) for n in CATS}
    cats = {n: create(paths[n], data[n]) for n in CATS}
    per = {n: dict(ops=[], obs=[], loaded=[], final=None, meta0=meta_obs(cats[n]) if record else None, meta=[]) for n in CATS}
    result = None
    for i, op in enumerate(ops):
        result = apply_op(cats, paths, op)
        if record:
            for name, (cop, req) in requests(op, len(cats[CATS[0]])).items():
                per[name]["ops"].append("CPeek" if cop is None else "(CDo %s %s)" % (executor(op), cop))
                per[name]["obs"].append(observe(cats[name]))
                per[name]["meta"].append(meta_obs(cats[name]))     # of the object in use (replaced by reopen steps)
                per[name]["loaded"].append(result if op["op"] == "peek" else None)
                if i == len(ops) - 1:
                    per[name]["final"] = req
    return per, result, cats, paths


def coq_lobs(o):
    return "None" if o == "nofile" else "(Some (%s, %s))" % (fq.b(o[0]), fq.nlist(o[1]))


def fresh_result(ctx, tag, data, final_op, flipped=False, inner=False):
    """the final measurement on freshly created caches; optionally (afterwards, same catalogs) the same with the other
    closed side and with all upper scale limits lowered by EDGE_INNER rad"""
    paths = {n: impl.fresh_dir(ctx, "%s_%s" % (tag, n)) for n in CATS}
    cats = {n: create(paths[n], data[n]) for n in CATS}
    res = measure(cats, final_op)
    res_flip = None
    if flipped:
        f = dict(final_op, cfg=dict(final_op["cfg"], closed="left" if final_op["cfg"]["closed"] == "right" else "right"))
        res_flip = measure(cats, f)
    if inner:
        res_flip = (res_flip, measure(cats, dict(final_op, cfg=dict(final_op["cfg"], scales=lowered(final_op["cfg"]["scales"])))))
    for p in paths.values():
        shutil.rmtree(p, ignore_errors=True)
    return res, res_flip


def lowered(sc, by=EDGE_INNER):
    """explicit angular scales with every upper limit lowered by `by` rad"""
    f = UNIT_PER_RAD[sc["unit"]]
    rmax = [float(x) - by * f for x in np.atleast_1d(sc["rmax"])]
    return dict(sc, rmax=rmax if isinstance(sc["rmax"], list) else rmax[0])


def is_measure(op):
    return op["op"] in ("auto", "cross")


def nontrivial(ops):
    fin = requests(ops[-1])
    for op in ops[:-1]:
        for name, (_, req) in requests(op).items():
            if name in fin and req is not None and req != fin[name][1]:
                return True
    return False


def followup_for(op):
    """a measurement that asks every catalog touched by `op` for what `op` asked for (used by the
    search over prefixes: an unforced build of the same binning must then reuse the trees)"""
    if is_measure(op):
        return op
    if op["op"] not in ("build", "build_patch"):
        return None
    cat = op["cat"]
    others = [n for n in CATS if n != cat]
    if op["edges"] is None:
        return dict(op="cross", cfg=dict(edges=0, closed="right", scales=0), ref=others[0], unk=cat,
                    rand=others[1], rand_role="ref_rand")
    cfg = dict(edges=op["edges"], closed=op["closed"], scales=0)
    if cat == "R":
        return dict(op="auto", cfg=cfg, data="X", rand="R")
    return dict(op="auto", cfg=cfg, data=cat, rand="R")


def search_prefixes(ctx, idx, spec):
    """§2.3 step 4: look for a prefix of the history after which a measurement differs from fresh caches"""
    data = data_of(spec)
    ops = spec["ops"]
    for j in range(1, len(ops) + 1):
        fu = followup_for(ops[j - 1])
        if fu is None:
            continue
        cand = ops[:j] if is_measure(ops[j - 1]) else ops[:j] + [fu]
        try:
            _, res, _, paths = run_history(ctx, "s%d_%d" % (idx, j), data, cand, record=False)
            fres, _ = fresh_result(ctx, "sf%d_%d" % (idx, j), data, cand[-1])
            for p in paths.values():
                shutil.rmtree(p, ignore_errors=True)
        except Exception:
            continue
        ok, why = same_result(res, fres)
        if not ok:
            ctx.fail("c07-measurement-differs-from-fresh-cache",
                     "measurement after a cache history differs from the same measurement on fresh caches (%s); "
                     "shortest failing prefix has %d operations" % (why, len(cand)),
                     replay_of(spec, ops=cand), case=idx)
            return True
    return False


def mixes_processes(ops):
    """some step touches the trees in the measuring process itself and some step is executed elsewhere"""
    tree_ops = [op for op in ops if op["op"] not in ("reopen", "build_invalid")]
    return any(elsewhere(op) for op in tree_ops) and any(not elsewhere(op) for op in tree_ops)


def differs_from_fresh(ctx, tag, data, ops):
    """re-run a history on new directories; (differs, why) against fresh caches; an exception counts as differing"""
    try:
        _, res, _, paths = run_history(ctx, tag, data, ops, record=False)
        fres, _ = fresh_result(ctx, tag + "f", data, ops[-1])
        for p in paths.values():
            shutil.rmtree(p, ignore_errors=True)
    except Exception as e:   # noqa: BLE001
        return True, "raises %s" % type(e).__name__
    ok, why = same_result(res, fres)
    return (not ok), why


def replay_of(spec, **more):
    out = dict(dseed=spec["dseed"], ops=spec["ops"])
    if spec.get("geom"):
        out["geom"] = spec["geom"]
    out.update(more)
    return out


def report_difference(ctx, idx, spec, data, why, meta_diff=()):
    """the final measurement of spec differs from fresh caches: shrink the history (drop steps while it still differs,
    bounded) and name the structure: does it need a reopened catalog whose patch metadata are not those of the creating
    object?  does it need steps executed outside the measuring process?"""
    ops = list(spec["ops"])
    budget = 14
    i = 0
    while i < len(ops) - 1 and budget > 0:
        cand = ops[:i] + ops[i + 1:]
        budget -= 1
        if differs_from_fresh(ctx, "m%d_%d" % (idx, budget), data, cand)[0]:
            ops = cand
        else:
            i += 1
    replay = replay_of(spec, shrunk_ops=ops)
    if meta_diff and any(op["op"] == "reopen" for op in ops):
        kept = [op for op in ops if op["op"] != "reopen"]
        if not differs_from_fresh(ctx, "n%d" % idx, data, kept)[0]:
            fields = sorted({f for _, _, ch in meta_diff for _, f, _, _ in ch})
            ctx.fail("c07-measurement-differs-after-reopen:patch-metadata-not-as-created",
                     "measurement after a cache history differs from the same measurement on fresh caches (%s); the history "
                     "reopens a catalog (Catalog(cache)) and the reopened object reports other patch metadata (%s) than the "
                     "object that created the cache; without the reopen steps the shrunk history gives the fresh result; "
                     "shrunk history: %s; first metadata differences (catalog, step, [(patch, field, created, reopened)]): %s"
                     % (why, ", ".join(fields), [op["op"] for op in ops], [(n, i, ch[:3]) for n, i, ch in meta_diff[:3]]),
                     dict(replay, metadata_differences=[(n, i, ch[:4]) for n, i, ch in meta_diff[:6]]), case=idx)
            return
    if any(elsewhere(op) for op in ops):
        seq = [strip_exec(op) for op in ops]
        if not differs_from_fresh(ctx, "q%d" % idx, data, seq)[0]:
            ctx.fail("c07-measurement-differs-after-steps-in-other-processes",
                     "measurement after a cache history differs from the same measurement on fresh caches (%s); the same "
                     "steps all executed by the measuring process itself (max_workers=1, no child process) give the fresh "
                     "result: something a process holds in memory survives a rebuild done by another process; shrunk "
                     "history: %s" % (why, [(op["op"], executor(op)) for op in ops]), replay, case=idx)
            return
    ctx.fail("c07-measurement-differs-from-fresh-cache",
             "measurement after a cache history differs from the same measurement on fresh caches (%s); shrunk history has "
             "%d steps" % (why, len(ops)), replay, case=idx)


def one_history(ctx, idx, spec, terms, owners):
    data = data_of(spec)
    ops = spec["ops"]
    per, res, cats, paths = run_history(ctx, "h%d" % idx, data, ops)
    ok_raw, n_raw = 0, 0
    for n in CATS:
        a, b_ = raw_codec_agrees(cats[n])
        ok_raw, n_raw = ok_raw + a, n_raw + b_
    ctx.bump("binning_files_matching_documented_format", ok_raw)
    ctx.bump("binning_files_seen", n_raw)
    edge = spec.get("geom") == "edge"
    fres, fflip = fresh_result(ctx, "f%d" % idx, data, ops[-1], flipped=True, inner=edge)
    finner = None
    if edge:
        fflip, finner = fflip
    # the metadata every Catalog object in use reported after every step, against the creating object (bit patterns)
    meta_diff = []
    for n in CATS:
        for i, row in enumerate(per[n]["meta"]):
            ch = meta_changes(per[n]["meta0"], row)
            if ch:
                meta_diff.append((n, i, ch))
    if meta_diff:
        ctx.bump("histories_with_changed_patch_metadata")
    ok, why = same_result(res, fres)
    if not ok:
        report_difference(ctx, idx, spec, data, why, meta_diff)
    if not same_result(fres, fflip)[0]:
        ctx.bump("closed_side_changes_final_result")
    # coq terms: one per catalog (state vector over its patches; patch ids are 0..n-1 = positions)
    for n in CATS:
        if not per[n]["ops"]:
            continue
        redshifts = {int(pid): [float(z) for z in patch.redshifts] for pid, patch in cats[n].items()}
        pids = sorted(redshifts)
        assert pids == list(range(len(pids))), pids
        final = per[n]["final"]
        fstr = "None" if final is None else "(Some %s)" % coq_binning(final[1])
        terms.append("c07_pcase %s %s %s %s %s" % (
            fq.lst(per[n]["ops"]), fq.lst([fq.qlist(redshifts[p]) for p in pids]),
            fq.lst([fq.lst([coq_obs(o[p]) for p in pids]) for o in per[n]["obs"]]),
            fq.lst([fq.lst([] if l is None else [coq_lobs(l[p]) for p in pids]) for l in per[n]["loaded"]]), fstr))
        owners.append((idx, n, "trees"))
        terms.append("c07_mcase %s %s %s" % (fq.lst(per[n]["ops"]), coq_meta_row(per[n]["meta0"]),
                                              fq.lst([coq_meta_row(r) for r in per[n]["meta"]])))
        owners.append((idx, n, "meta"))
    nt = nontrivial(ops)
    mixed = mixes_processes(ops)
    reopened = {op["cat"] for op in ops[:-1] if op["op"] == "reopen"} & set(participants(ops[-1]))
    if reopened:
        ctx.bump("histories_measuring_on_a_reopened_catalog")
    if edge:
        # non-trivial: the facing records of the closest patch pair are counted by the fresh measurement and lie within
        # EDGE_INNER of the scale limit (lowering the limit changes the result), and the final measurement runs on a
        # catalog object that was reopened from the cache
        tight = not same_result(fres, finner)[0]
        ctx.bump("edge:facing_records_counted_within_%.0e_rad_of_scale_limit" % EDGE_INNER, int(tight))
        ctx.bump("edge:final_on_reopened_catalog", int(bool(reopened)))
        ctx.bump("edge:margin_%.0e" % spec["edge"]["margin"] if spec.get("edge") else "edge:replayed")
        nt = tight and bool(reopened)
    ctx.count(key=(spec["dseed"], repr(ops)), nontrivial=nt,
              kind="%sfinal:%s/len%d%s" % ("linkage-limit/" if edge else "", ops[-1]["op"], len(ops),
                                           "/mixed-processes" if mixed else ""))
    if mixed:
        ctx.bump("histories_mixing_processes")
        if nt:
            ctx.bump("histories_mixing_processes_nontrivial")
    for op in ops:
        ctx.bump("executor:%s%s" % (executor(op), ":final" if op is ops[-1] else ""))
        if workers_of(op) >= 2 and effective_workers(op) < 2:
            ctx.bump("pool_requested_but_only_one_worker_available")
    for op in ops[:-1]:
        ctx.bump("op:" + op["op"] + (":force" if op.get("force") else "") + (":unbinned" if op["op"] in ("build", "build_patch") and op["edges"] is None else ""))
    if any(op["op"] == "build_patch" for op in ops):
        ctx.bump("histories_with_single_patch_builds")
    ctx.sample(dict(spec=spec, final_request={n: per[n]["final"] for n in CATS},
                    observed_after_last_op={n: per[n]["obs"][-1] for n in CATS if per[n]["obs"]}), limit=3)
    for p in paths.values():
        shutil.rmtree(p, ignore_errors=True)


# ---------------------------------------------------------------- generators
def rand_cfg(rng, near=None):
    if near is not None and rng.random() < 0.55:
        k = rng.random()
        if k < 0.4:      # same edges, other closed side
            return dict(edges=near["edges"], closed="left" if near["closed"] == "right" else "right", scales=rng.randrange(3))
        if k < 0.7:      # same number of edges, other edges, same closed side
            e = {0: rng.choice([2, 3]), 2: 0, 3: 0}.get(near["edges"], near["edges"])
            return dict(edges=e, closed=near["closed"], scales=rng.randrange(3))
        return dict(edges=near["edges"], closed=near["closed"], scales=rng.randrange(3))   # identical binning
    return dict(edges=rng.randrange(len(EDGE_SETS)), closed=rng.choice(["left", "right"]), scales=rng.randrange(3))


def rand_measure(rng, near=None):
    cfg = rand_cfg(rng, near)
    if rng.random() < 0.5:
        return dict(op="auto", cfg=cfg, data=rng.choice(["X", "Y"]), rand="R")
    ref = rng.choice(["X", "Y"])
    return dict(op="cross", cfg=cfg, ref=ref, unk="Y" if ref == "X" else "X", rand="R",
                rand_role=rng.choice(["ref_rand", "unk_rand"]))


def rand_history(rng):
    final = rand_measure(rng)
    ops = []
    for _ in range(rng.randrange(0, 8)):
        r = rng.random()
        if r < 0.14:   # build ONE patch (first / last / any), mostly for a binning close to the final one
            if rng.random() < 0.2:
                e, cl = None, rng.choice(["left", "right"])
            else:
                c = rand_cfg(rng, final["cfg"])
                e, cl = c["edges"], c["closed"]
            ops.append(dict(op="build_patch", cat=rng.choice(CATS), patch=rng.choice([0, 0, -1, -1, 1]), edges=e, closed=cl,
                            force=rng.random() < 0.25))
        elif r < 0.42:
            if rng.random() < 0.3:
                ops.append(dict(op="build", cat=rng.choice(CATS), edges=None, closed=rng.choice(["left", "right"]),
                                force=rng.random() < 0.3))
            else:
                c = rand_cfg(rng, final["cfg"])
                ops.append(dict(op="build", cat=rng.choice(CATS), edges=c["edges"], closed=c["closed"],
                                force=rng.random() < 0.3))
        elif r < 0.48:
            ops.append(dict(op="build_invalid", cat=rng.choice(CATS), edges=rng.randrange(len(INVALID_EDGES)),
                            closed=rng.choice(["left", "right"])))
        elif r < 0.62:
            ops.append(dict(op="reopen", cat=rng.choice(CATS)))
        else:
            ops.append(rand_measure(rng, final["cfg"]))
    if rng.random() < 0.35:
        return ops + [final]           # every step by the measuring process itself
    return mix_processes(rng, ops, final)


def rand_executor(rng, op, p_here=0.4):
    """here (sequential) / real pool of 2-3 workers / forked child (sequential or with its own pool)"""
    if op["op"] in ("reopen", "peek"):
        return op
    r = rng.random()
    if r < p_here:
        return op
    if op["op"] == "build_patch":      # a direct per-patch call has no worker count
        return dict(op, proc="child")
    if r < p_here + 0.6 * (1 - p_here):
        return dict(op, workers=rng.choice([2, 2, 3]))
    if r < p_here + 0.9 * (1 - p_here):
        return dict(op, proc="child")
    return dict(op, proc="child", workers=2)


def neighbour_cfg(rng, cfg):
    """another binning, mostly with the same number of bins (other closed side / other edges / edges one ulp apart)"""
    k = rng.random()
    flip = "left" if cfg["closed"] == "right" else "right"
    if k < 0.35 or (cfg["edges"] == 1 and k < 0.85):
        return dict(cfg, closed=flip)
    if k < 0.85:
        return dict(cfg, edges={0: rng.choice([2, 3]), 2: 0, 3: rng.choice([0, 2])}[cfg["edges"]])
    return dict(cfg, edges=rng.choice([e for e in range(len(EDGE_SETS)) if e != cfg["edges"]]), closed=rng.choice(["left", "right"]))


def mix_processes(rng, ops, final):
    """give every step an executor, add peeks, and (half of the time) end the history with the shape that separates
    processes: the catalogs of the final measurement are used for a NEIGHBOURING binning by the measuring process itself,
    then for the final binning by someone else (pool / child: measurement or builds), then the final measurement"""
    ops = [rand_executor(rng, op) for op in ops]
    final_cats = list(participants(final))
    if rng.random() < 0.55:
        ops = ops[:rng.randrange(0, 5)] if ops else ops
        tail = [dict(final, cfg=dict(neighbour_cfg(rng, final["cfg"]), scales=rng.randrange(3)))]      # here, sequential
        if rng.random() < 0.4:
            tail.append(dict(op="peek", cat=rng.choice(final_cats)))
        r = rng.random()
        if r < 0.55:      # the final request as a measurement executed elsewhere
            tail.append(rand_executor(rng, dict(final, cfg=dict(final["cfg"], scales=rng.randrange(3))), p_here=0.0))
        elif r < 0.85:    # ... as catalog-wide builds executed elsewhere (each catalog in its role)
            for name, (_, req) in requests(final).items():
                b = req[1]
                tail.append(rand_executor(rng, dict(op="build", cat=name, edges=None if b is None else final["cfg"]["edges"],
                                                    closed=final["cfg"]["closed"], force=rng.random() < 0.3), p_here=0.0))
        else:             # ... as single-patch builds in a child process
            for name, (_, req) in requests(final).items():
                b = req[1]
                tail.append(dict(op="build_patch", cat=name, patch=rng.choice([0, -1, 1]), proc="child",
                                 edges=None if b is None else final["cfg"]["edges"], closed=final["cfg"]["closed"],
                                 force=rng.random() < 0.3))
        if rng.random() < 0.3:
            tail.append(dict(op="reopen", cat=rng.choice(final_cats)))       # Catalog objects reopened instead of kept alive
        if rng.random() < 0.35:
            tail.append(dict(op="peek", cat=rng.choice(final_cats)))
        ops = ops + tail
        final = rand_executor(rng, final, p_here=0.6)
    else:
        out = []
        for op in ops:
            out.append(op)
            if rng.random() < 0.2:
                out.append(dict(op="peek", cat=rng.choice(CATS)))
        ops = out[:9]
        final = rand_executor(rng, final, p_here=0.5)
    return ops + [final]


def corpus():
    c = lambda e, cl, s=0: dict(edges=e, closed=cl, scales=s)  # noqa: E731
    auto = lambda cfg, d="X": dict(op="auto", cfg=cfg, data=d, rand="R")  # noqa: E731
    cross = lambda cfg, ref, unk, rr="ref_rand": dict(op="cross", cfg=cfg, ref=ref, unk=unk, rand="R", rand_role=rr)  # noqa: E731
    build = lambda cat, e, cl="right", force=False: dict(op="build", cat=cat, edges=e, closed=cl, force=force)  # noqa: E731
    bpatch = lambda cat, p, e, cl="right", force=False: dict(op="build_patch", cat=cat, patch=p, edges=e, closed=cl, force=force)  # noqa: E731
    pool = lambda op, w=2: dict(op, workers=w)  # noqa: E731
    child = lambda op: dict(op, proc="child")  # noqa: E731
    peek_ = lambda cat: dict(op="peek", cat=cat)  # noqa: E731
    reopen = lambda cat: dict(op="reopen", cat=cat)  # noqa: E731
    return [
        # ---- histories whose steps are executed by DIFFERENT processes (same bin count unless noted)
        # sequential A, pooled B (workers rebuild), sequential B (no rebuild in the measuring process)
        [auto(c(0, "right")), pool(auto(c(2, "right"))), auto(c(2, "right"))],
        # the pooled measurement itself is the final one (its counting workers are forked from the measuring process)
        [auto(c(0, "right")), pool(auto(c(2, "right")), 3)],
        # the rebuild for B is done by catalog-wide builds in a pool / in a child process, Catalog objects kept alive
        [auto(c(2, "left")), pool(build("X", 0, "left")), pool(build("R", 0, "left"), 3), auto(c(0, "left"))],
        [auto(c(0, "right"), "Y"), child(build("Y", 3, "right")), child(build("R", 3, "right")), auto(c(3, "right"), "Y")],
        # ... by a whole measurement in a child process; afterwards the catalogs are reopened, not kept alive
        [auto(c(0, "left")), child(auto(c(0, "right"))), reopen("X"), reopen("R"), auto(c(0, "right"))],
        # ... by single-patch builds in a child process (every patch / one patch only)
        [auto(c(0, "right")), child(bpatch("X", 0, 2)), child(bpatch("X", 1, 2)), child(bpatch("X", -1, 2)),
         child(build("R", 2, "right")), auto(c(2, "right"))],
        [auto(c(0, "right")), child(bpatch("X", 0, 2)), auto(c(2, "right"))],
        # roles swap between processes: binned <-> unbinned trees of the same patch
        [cross(c(0, "left"), "X", "Y"), pool(cross(c(0, "left"), "Y", "X")), cross(c(0, "left"), "Y", "X")],
        [cross(c(1, "right"), "X", "Y", "unk_rand"), child(cross(c(1, "right"), "Y", "X", "unk_rand")),
         pool(cross(c(1, "right"), "Y", "X", "unk_rand"))],
        # other bin count between processes
        [auto(c(1, "left")), pool(auto(c(0, "left"))), auto(c(0, "left"))],
        # peeks of the measuring process around rebuilds done elsewhere (forced / unforced), then the measurement
        [build("X", 0, "right"), peek_("X"), child(build("X", 2, "right", True)), peek_("X"), build("R", 2, "right"),
         auto(c(2, "right"))],
        [auto(c(0, "left")), peek_("R"), pool(auto(c(0, "right"))), peek_("R"), peek_("X"), auto(c(0, "right"))],
        [peek_("X"), pool(build("X", None)), peek_("X"), child(build("X", 1, "left")), peek_("X"), pool(auto(c(1, "left")))],
        # pooled first, sequential afterwards; everything pooled; everything in children
        [pool(auto(c(0, "right"))), auto(c(2, "right")), pool(auto(c(0, "right"))), auto(c(0, "right"))],
        [pool(auto(c(0, "right"))), pool(auto(c(2, "right")), 3), pool(auto(c(2, "right")))],
        [child(auto(c(3, "left"))), child(auto(c(0, "left"))), child(auto(c(0, "left")))],
        # a request that raises in a pool / child leaves cache and measuring process alone
        [auto(c(2, "left"), "Y"), pool(dict(op="build_invalid", cat="Y", edges=1, closed="left")),
         child(dict(op="build_invalid", cat="R", edges=0, closed="right")), child(auto(c(0, "left"), "Y")), auto(c(0, "left"), "Y")],
        # ---- single process
        # patches of one catalog hold trees for DIFFERENT binnings (same bin count):
        # all patches hold A, only patch 0 is rebuilt for B, then measure with B
        [auto(c(0, "right")), bpatch("X", 0, 2, "right"), auto(c(2, "right"))],
        # mirror image: all patches hold B, only the LAST patch is rebuilt for A, then measure with B
        [auto(c(2, "right")), bpatch("X", -1, 0, "right"), auto(c(2, "right"))],
        # the same with the closed side as the only difference, on the random catalog, forced single-patch build
        [auto(c(0, "left")), bpatch("R", 0, 0, "right", True), auto(c(0, "right"))],
        [auto(c(0, "right"), "Y"), bpatch("R", -1, 0, "left"), bpatch("Y", 1, 0, "left"), auto(c(0, "right"), "Y")],
        # a single patch unbinned among binned ones and vice versa (roles swap afterwards)
        [auto(c(1, "left")), bpatch("X", 0, None), cross(c(1, "left"), "Y", "X")],
        [cross(c(0, "right"), "Y", "X"), bpatch("X", 0, 0, "right"), auto(c(0, "right"))],
        # single-patch build on a fresh cache (the other patches have no files yet)
        [bpatch("X", 0, 3, "left"), bpatch("R", -1, 3, "left"), auto(c(3, "left"))],
        # same edges, other closed side
        [build("X", 0, "left"), build("R", 0, "left"), auto(c(0, "right"))],
        [auto(c(0, "right")), auto(c(0, "left"))],
        # same number of edges, other edges
        [auto(c(0, "right")), auto(c(2, "right"))],
        [build("X", 2, "left"), build("R", 2, "left"), auto(c(0, "left"))],
        # edges that differ in the last digit only
        [auto(c(0, "right")), auto(c(3, "right"))],
        [auto(c(3, "left")), dict(op="reopen", cat="X"), auto(c(0, "left"))],
        # other bin count, reopenings in between
        [auto(c(0, "left")), dict(op="reopen", cat="X"), dict(op="reopen", cat="R"), auto(c(1, "left"))],
        # roles swapped: binned <-> unbinned
        [cross(c(0, "left"), "X", "Y"), cross(c(0, "left"), "Y", "X")],
        [build("Y", None), build("X", 0, "right", True), cross(c(0, "left"), "X", "Y", "unk_rand")],
        [build("X", None), build("R", None), auto(c(1, "right"))],
        # a request that raises leaves the cache alone
        [build("R", 2, "left"), dict(op="build_invalid", cat="Y", edges=0, closed="left"),
         dict(op="build_invalid", cat="R", edges=1, closed="right"), auto(c(2, "right"), "Y")],
        # same binning, other scales: trees are reused
        [auto(c(0, "left", 0)), auto(c(0, "left", 2)), auto(c(0, "left", 1))],
    ]


# ---------------------------------------------------------------- histories at the patch-linkage limit
UNIT_PER_RAD = {"rad": 1.0, "deg": 180.0 / np.pi, "arcmin": 60.0 * 180.0 / np.pi}


def link_slack(cats):
    """the documented patch linkage (PatchLinkage: the catalog with most records gives centres and radii, a radius is
    enlarged to hold the patch of every other catalog; two patches are linked when dist(c_i, c_j) <= r_i + r_j + largest
    angle) evaluated on what the Catalog objects report: {(i, j): dist(c_i, c_j) - r_i - r_j}, i < j (the largest value
    over the choice of the reference catalog).  Only used to CHOOSE a scale limit; no verdict depends on it."""
    out = {}
    for ref in cats:      # whichever catalog serves as the reference: keep the largest slack
        centers = ref.get_centers()
        radii = np.array(ref.get_radii().data, dtype=np.float64)
        for c in cats:
            if c is not ref:
                radii = np.maximum(radii, np.asarray(c.get_radii().data) + np.asarray(centers.distance(c.get_centers()).data))
        for i in range(len(radii)):
            dist = np.asarray(centers.distance(centers[i]).data)
            for j in range(i + 1, len(radii)):
                out[(i, j)] = max(out.get((i, j), -np.inf), float(dist[j] - radii[i] - radii[j]))
    return out


def calibrate_edge(ctx, tag, data, final_op):
    """create the catalogs of the final measurement once and return the largest slack between neighbouring patches (all
    neighbours leave the same slack up to rounding), or None when the geometry is not the intended one"""
    parts = list(participants(final_op))
    paths = {n: impl.fresh_dir(ctx, "%s_%s" % (tag, n)) for n in parts}
    try:
        cats = {n: create(paths[n], data[n]) for n in parts}
        npatch = len(cats[parts[0]])
        if any(sorted(int(p) for p in c.keys()) != list(range(npatch)) for c in cats.values()):
            return None
        slack = link_slack(list(cats.values()))
        adj = [slack[(k, k + 1)] for k in range(npatch - 1)]
    finally:
        for p in paths.values():
            shutil.rmtree(p, ignore_errors=True)
    if min(adj) < 1e-3 or max(adj) - min(adj) > 1e-12:
        return None
    return max(adj)


def edge_scales(theta, unit, multi):
    f = UNIT_PER_RAD[unit]
    if multi:     # two scales; the second one reaches the limit
        return dict(rmin=[theta / 64.0 * f, theta / 8.0 * f], rmax=[theta / 2.0 * f, theta * f], unit=unit)
    return dict(rmin=theta / 64.0 * f, rmax=theta * f, unit=unit)


def edge_substitute(op, theta, unit, multi):
    """replace the symbolic scales of a template ('edge': up to the linkage limit, 'edge-half', 'edge-wide')"""
    if not is_measure(op) or not isinstance(op["cfg"]["scales"], str):
        return op
    t = {"edge": theta, "edge-half": 0.5 * theta, "edge-wide": 2.0 * theta}[op["cfg"]["scales"]]
    return dict(op, cfg=dict(op["cfg"], scales=edge_scales(t, unit, multi)))


def edge_history(rng):
    """template of a history whose final measurement (scales 'edge') runs on catalogs reopened from their caches:
    0-3 earlier steps (measurements with neighbouring binnings and any scales, builds, single-patch builds), reopen steps
    for a non-empty subset of the final participants (after / before / between the earlier steps), sometimes one more
    measurement or a peek on the reopened objects; every step with an executor"""
    final = rand_measure(rng)
    final["cfg"]["scales"] = "edge"
    parts = list(participants(final))
    pre = []
    for _ in range(rng.choice([0, 1, 1, 2, 3])):
        r = rng.random()
        if r < 0.55:
            m = dict(final, cfg=neighbour_cfg(rng, final["cfg"])) if rng.random() < 0.6 else rand_measure(rng, final["cfg"])
            m["cfg"] = dict(m["cfg"], scales=rng.choice([0, 1, 2, "edge", "edge-half", "edge-wide"]))
            pre.append(m)
        elif r < 0.8:
            c = neighbour_cfg(rng, final["cfg"])
            pre.append(dict(op="build", cat=rng.choice(parts), edges=None if rng.random() < 0.25 else c["edges"],
                            closed=c["closed"], force=rng.random() < 0.3))
        else:
            c = neighbour_cfg(rng, final["cfg"])
            pre.append(dict(op="build_patch", cat=rng.choice(parts), patch=rng.choice([0, -1, 1]), edges=c["edges"],
                            closed=c["closed"], force=rng.random() < 0.3))
    who = [n for n in parts if rng.random() < 0.7] or [rng.choice(parts)]
    if rng.random() < 0.2:
        who.append(rng.choice(CATS))          # reopened twice / a catalog that does not take part
    rng.shuffle(who)
    reopens = [dict(op="reopen", cat=n) for n in who]
    r = rng.random()
    if r < 0.65:
        ops = pre + reopens
    elif r < 0.8:
        ops = reopens + pre                   # reopened right after creation; the earlier steps run on the reopened objects
    else:
        k = rng.randrange(len(pre) + 1)
        ops = pre[:k] + reopens[:1] + pre[k:] + reopens[1:]
    if rng.random() < 0.25:
        ops.append(dict(final, cfg=dict(neighbour_cfg(rng, final["cfg"]), scales=rng.choice([0, "edge", "edge-wide"]))))
    if rng.random() < 0.15:
        ops.append(dict(op="peek", cat=rng.choice(parts)))
    ops = [rand_executor(rng, op, p_here=0.55) for op in ops]
    return ops + [rand_executor(rng, final, p_here=0.6)]


def edge_corpus():
    c = lambda e, cl, s="edge": dict(edges=e, closed=cl, scales=s)  # noqa: E731
    auto = lambda cfg, d="X": dict(op="auto", cfg=cfg, data=d, rand="R")  # noqa: E731
    cross = lambda cfg, ref, unk, rr="ref_rand": dict(op="cross", cfg=cfg, ref=ref, unk=unk, rand="R", rand_role=rr)  # noqa: E731
    reopen = lambda cat: dict(op="reopen", cat=cat)  # noqa: E731
    pool = lambda op, w=2: dict(op, workers=w)  # noqa: E731
    child = lambda op: dict(op, proc="child")  # noqa: E731
    return [
        # measure with another binning (wider scales), reopen both catalogs, measure up to the linkage limit
        [auto(c(2, "left", "edge-wide")), reopen("X"), reopen("R"), auto(c(0, "right"))],
        # reopened right after creation, nothing else before (only the random catalog / only the data catalog)
        [reopen("R"), auto(c(0, "left"))],
        [reopen("Y"), auto(c(1, "right"), "Y")],
        # cross-correlation, roles swapped before, unknown and its randoms reopened
        [cross(c(0, "left", 0), "Y", "X"), reopen("Y"), reopen("R"), cross(c(0, "left"), "X", "Y", "unk_rand")],
        # earlier steps in a pool / a child process, the final measurement pooled on the reopened objects
        [pool(auto(c(3, "right", "edge-half"))), child(dict(op="build", cat="X", edges=None, closed="right", force=True)),
         reopen("X"), reopen("R"), pool(auto(c(0, "right")), 3)],
        # reopened twice with a measurement in between (same binning: trees reused)
        [reopen("X"), auto(c(2, "right", 1)), reopen("X"), reopen("R"), auto(c(2, "right"))],
    ]


def edge_specs(ctx, rng):
    out = []
    templates = [(2000 + i, ops, "corpus") for i, ops in enumerate(edge_corpus())]
    for _ in range(ctx.n(9, 100)):
        templates.append((rng.randrange(10 ** 6), edge_history(rng), "random"))
    for i, (dseed, ops, origin) in enumerate(templates):
        margin = EDGE_MARGINS[i % len(EDGE_MARGINS)] if origin == "corpus" else rng.choice(EDGE_MARGINS)
        unit = ["rad", "rad", "deg", "rad", "arcmin", "rad"][i % 6] if origin == "corpus" else rng.choice(["rad", "rad", "rad", "deg", "arcmin"])
        multi = (i % 4 == 3) if origin == "corpus" else rng.random() < 0.25
        slack = calibrate_edge(ctx, "cal%d" % i, gen_edge_data(dseed), ops[-1])
        if slack is None:
            ctx.bump("edge:geometry_rejected")
            continue
        theta = slack + margin
        out.append(dict(dseed=dseed, geom="edge", origin=origin + "/linkage-limit",
                        ops=[edge_substitute(op, theta, unit, multi) for op in ops],
                        edge=dict(slack=slack, margin=margin, unit=unit, two_scales=multi)))
    return out


def specs(ctx):
    rng = ctx.rng
    out = [dict(dseed=1000 + i, ops=ops, origin="corpus") for i, ops in enumerate(corpus())]
    for _ in range(ctx.n(25, 400)):
        out.append(dict(dseed=rng.randrange(10 ** 6), ops=rand_history(rng), origin="random"))
    return out + edge_specs(ctx, rng)


# ---------------------------------------------------------------- entry points
def run_specs(ctx, all_specs):
    impl.set_threads(MAX_POOL)   # every yaw call below passes an explicit max_workers (1 unless the step asks for a pool)
    try:
        run_specs_(ctx, all_specs)
    finally:
        impl.set_threads(1)


def run_specs_(ctx, all_specs):
    terms, owners = [], []
    done = {}
    for idx, spec in enumerate(all_specs):
        try:
            one_history(ctx, idx, spec, terms, owners)
            done[idx] = spec
        except Exception as e:
            ctx.count(key=(spec["dseed"], repr(spec["ops"])), kind="raised")
            where = "-after-steps-in-other-processes" if any(elsewhere(op) for op in spec["ops"]) and not raises_too(
                ctx, idx, spec) else ""
            ctx.fail("c07-raises%s:%s" % (where, type(e).__name__),
                     "a valid build / measurement history raised %s: %s%s" % (
                         type(e).__name__, e, " (the same steps all executed by the measuring process itself do not raise)"
                         if where else ""),
                     dict(spec, traceback=traceback.format_exc()[-1500:]), case=idx)
    codes = ctx.shards("Cases_C07", HEADER, terms, shard=200)
    bad, bad_meta = {}, {}
    for (idx, name, what), c in zip(owners, codes):
        if c:
            (bad if what == "trees" else bad_meta).setdefault(idx, []).append((name, c))
    for idx, lst in sorted(bad_meta.items()):
        # a broken tie unless a differing measurement of the same case (ctx.fail above) makes it a failing input
        ctx.disagree("Cases_C07_meta", idx,
                     dict(what="a Catalog object in use reports patch metadata (num_records, sum_weights, centre, radius; "
                               "exact float64 values) other than the object that created the cache; the model says a "
                               "reopened catalog reads back what was computed from the records",
                          catalogs=[n for n, _ in lst], spec=done[idx]))
    searched = 0
    for idx, lst in sorted(bad.items()):
        spec = done[idx]
        allc = 0
        for _, c in lst:
            allc |= c
        if allc & 4:
            ctx.obligation("harness:c07-final-request(case %d)" % idx, False, repr(lst))
        if any(c & 8 and not c & 1 for _, c in lst):   # the files are as modelled, what the accessor returned is not
            ctx.fail("c07-trees-accessor-differs-from-trees-file",
                     "BinnedTrees(patch).trees read in the measuring process (a peek step) is not the content of trees.pkl "
                     "the history left on disk (is-a-tuple / records per tree differ), (catalog, code): %s; steps and "
                     "executors: %s" % (lst[:4], [(op["op"], executor(op)) for op in spec["ops"]]), dict(spec), case=idx)
        if allc & 2:
            ctx.fail("c07-trees-not-those-of-requested-binning",
                     "after the final build the cached trees / binning file of a patch are not those of the requested "
                     "binning in every patch (catalog, code): %s" % lst[:4], dict(spec), case=idx)
        if allc & 1:
            ctx.disagree("Cases_C07", idx, dict(cases=lst[:6], spec=spec))
            if searched < 12:     # search budget
                searched += 1
                search_prefixes(ctx, idx, spec)


def raises_too(ctx, idx, spec):
    """does the history also raise when every step is executed by the measuring process itself"""
    try:
        data = data_of(spec)
        _, _, _, paths = run_history(ctx, "r%d" % idx, data, [strip_exec(op) for op in spec["ops"]], record=False)
        for p in paths.values():
            shutil.rmtree(p, ignore_errors=True)
        return False
    except Exception:   # noqa: BLE001
        return True


OPT_SCRIPT = r"""
import json, sys, shutil, tempfile, warnings
warnings.simplefilter("ignore")
import numpy as np, pandas as pd, yaw
from yaw import Catalog, Configuration
from yaw.coordinates import AngularCoordinates
spec = json.loads(sys.stdin.read())
rng = np.random.default_rng(spec["dseed"])
n = 240
zs = [0.1, 0.15, 0.2, 0.3, 0.4, 0.45, 0.5, 0.7]
df = pd.DataFrame({"ra": rng.uniform(10, 12, n), "dec": rng.uniform(-1, 1, n), "z": rng.choice(zs, n)})
cent = AngularCoordinates(np.deg2rad([[10.5, 0.0], [11.5, 0.0]]))
def make(d):
    return Catalog.from_dataframe(d, df, ra_name="ra", dec_name="dec", redshift_name="z", patch_centers=cent, max_workers=1)
def measure(cat, other, step):
    kind, edges, closed = step["kind"], step.get("edges"), step.get("closed", "right")
    if kind == "build":
        cat.build_trees(edges, closed=closed, force=step.get("force", False), max_workers=1)
        return None
    cfg = Configuration.create(rmin=1, rmax=30, unit="arcmin", edges=edges, closed=closed, max_workers=1)
    if kind == "auto":
        res = yaw.autocorrelate(cfg, cat, cat, count_rr=False, max_workers=1)
    else:      # cat as the unbinned (unknown) sample of a cross-correlation
        res = yaw.crosscorrelate(cfg, other, cat, unk_rand=cat, max_workers=1)
    return [c.dd.counts.counts.tolist() for c in res], [c.dd.sum_weights.sum_weights1.tolist() for c in res], [c.dd.sum_weights.sum_weights2.tolist() for c in res]
t = tempfile.mkdtemp()
out = []
for i, hist in enumerate(spec["histories"]):
    a, ra = make(t + "/h%d" % i), make(t + "/hr%d" % i)
    for step in hist[:-1]:
        measure(a, ra, step)
    got = measure(a, ra, hist[-1])
    b, rb = make(t + "/f%d" % i), make(t + "/fr%d" % i)
    want = measure(b, rb, hist[-1])
    out.append(got == want)
shutil.rmtree(t)
print(json.dumps(dict(debug=__debug__, same=out)))
"""


def optimised_probe(ctx):
    """the same guarantee in an interpreter started with -O / PYTHONOPTIMIZE=1 (assert statements are compiled away):
    a few histories run there, result compared with fresh caches inside that interpreter"""
    from lib import optmode
    A, B = [0.1, 0.3, 0.5, 0.7], [0.1, 0.2, 0.4, 0.7]
    histories = [
        [dict(kind="auto", edges=A), dict(kind="auto", edges=B)],                                    # other edges, same bin count
        [dict(kind="auto", edges=A, closed="right"), dict(kind="auto", edges=A, closed="left")],   # other closed side, redshifts on edges
        [dict(kind="auto", edges=A), dict(kind="cross", edges=B)],                                   # binned, then the unbinned role
        [dict(kind="build", edges=[0.1, 0.4, 0.7]), dict(kind="auto", edges=A)],                     # other bin count
        [dict(kind="auto", edges=B), dict(kind="build", edges=A, force=True), dict(kind="auto", edges=A)],
    ]
    for label, flags, env in (("-O", ("-O",), None), ("PYTHONOPTIMIZE=1", (), {"PYTHONOPTIMIZE": "1"})):
        r = optmode.run(OPT_SCRIPT, dict(dseed=ctx.rng.randrange(10 ** 6), histories=histories), flags=flags, env_extra=env)
        res = r.get("result")
        ok = res is not None and res.get("debug") is False
        ctx.obligation("optimised-interpreter probe ran (%s)" % label, ok, "rc=%s %s" % (r.get("rc"), r.get("stderr")))
        if not ok:
            continue
        for i, same in enumerate(res["same"]):
            ctx.count(key=("optimised", label, i), nontrivial=True, kind="optimised-interpreter/%s" % label)
            if not same:
                ctx.fail("c07-measurement-differs-from-fresh-cache:optimised-interpreter",
                         "with python %s (assert statements compiled away) the measurement after the history %s differs from the same "
                         "measurement on fresh caches" % (label, histories[i]),
                         dict(interpreter=label, history=histories[i], script="harness/props/c07.py:OPT_SCRIPT"), case=("optimised", label, i))


def run(ctx):
    run_specs(ctx, specs(ctx))
    optimised_probe(ctx)
    from props import c07_options
    c07_options.run(ctx)      # last: the process has all the histories above behind it


def replay(ctx, body):
    spec = body.get("replay", body)
    if spec.get("kind") == "options":
        from props import c07_options
        return c07_options.replay(ctx, spec)
    run_specs(ctx, [dict(dseed=spec["dseed"], ops=spec["ops"], geom=spec.get("geom"))])
