"""C18 - loads that FAIL (called from props/c18.py:run; same shard family Cases_C18).

Every other section of C18 drives the readers over healthy sources.  Here the source raises while a chunk is loaded: the
proxies around the data frame / the h5py datasets / the FITS HDU / pyarrow's ParquetFile / the random generator make the
k-th load attempted at the source raise - MemoryError, OSError (EIO, EAGAIN, ESTALE, EINTR, ENOMEM), TimeoutError, ValueError,
KeyboardInterrupt, the errors of the source's own library (pyarrow's ArrowMemoryError / ArrowInvalid / ...), a few more - ONCE
(the same request succeeds when it is made again) or from then on, at the first / a middle / the last chunk, at the first or at
a later column of the load.  Routes: a complete pass over the public reader object (for-loop, next() calls, list(), the progress
display), get_probe, Catalog.from_dataframe / from_file / from_random (given ids, given centres, generated centres = a probing
and a writing pass; sequentially and with 2-3 workers on the simulated pool; on a fresh path and over an older catalog), and
after every one of them a second, complete pass over the same reader object.

Oracle = the statement, not the library: a pass in which a load failed has exactly two acceptable outcomes - the exception
reaches the caller (after a prefix of the stream), or the pass delivers every record of the source exactly once, in order, in
chunks of exactly the requested size.  For a creation: it raises and no catalog is left that opens (an older catalog may survive
untouched), or the catalog stores every record exactly once and every load asked for what the healthy pass asks.  Judged in Coq
by c18_fault_case (Model/ChunksBuf.v: f_pass = the pass as a partial function of the failing loads under `propagate` and under
`the same request again`; Props/C18.v: C18_fault_pass_exactly_once, C18_fault_retry_once_completes; the variant `halve the chunk
size and rewind by the new size` is C18_fault_halve_rewind_refuted); what is wrong is named from the observation (records
missing / repeated / out of order / chunks resized).
"""
import errno
import io
import os
import shutil

import numpy as np

from lib import floatq as fq
from lib import impl

KINDS = ("df", "hdf5", "fits", "parquet", "random")
ROUTES = ("for", "for", "next", "list", "indicator")
CENTERS = [[0.0, -0.1], [0.0, 0.1]]      # radians: dec < 0 / dec > 0 (rows alternate)


# ---------------------------------------------------------------------------------------------------------------
# what a failing load raises
# ---------------------------------------------------------------------------------------------------------------
def exc_menu():
    import pyarrow as pa
    menu = [
        ("MemoryError", 6, lambda: MemoryError("Unable to allocate 1.00 GiB for an array with shape (134217728,) and data type float64")),
        ("OSError-EIO", 3, lambda: OSError(errno.EIO, os.strerror(errno.EIO))),
        ("OSError-EAGAIN", 3, lambda: OSError(errno.EAGAIN, os.strerror(errno.EAGAIN))),          # BlockingIOError
        ("OSError-ESTALE", 3, lambda: OSError(errno.ESTALE, os.strerror(errno.ESTALE))),
        ("OSError-EINTR", 1, lambda: OSError(errno.EINTR, os.strerror(errno.EINTR))),             # InterruptedError
        ("OSError-ENOMEM", 2, lambda: OSError(errno.ENOMEM, os.strerror(errno.ENOMEM))),
        ("OSError-h5py", 2, lambda: OSError("Can't synchronously read data (file read failed: time = now, errno = 5)")),
        ("TimeoutError", 4, lambda: TimeoutError("timed out")),
        ("ValueError", 4, lambda: ValueError("could not broadcast input array from shape (7,) into shape (9,)")),
        ("KeyboardInterrupt", 4, lambda: KeyboardInterrupt()),
        ("RuntimeError", 1, lambda: RuntimeError("Unable to read data (wrong B-tree signature)")),
        ("IndexError", 1, lambda: IndexError("index out of range")),
        ("KeyError", 1, lambda: KeyError("ra")),
        ("EOFError", 1, lambda: EOFError("unexpected end of file")),
        ("TypeError", 1, lambda: TypeError("buffer is too small for requested array")),
        ("ConnectionResetError", 1, lambda: ConnectionResetError(errno.ECONNRESET, os.strerror(errno.ECONNRESET))),
    ]
    for name, weight, text in (("ArrowMemoryError", 4, "malloc of size 1073741824 failed"),
                               ("ArrowInvalid", 3, "Corrupt snappy compressed data."),
                               ("ArrowIOError", 1, "Unexpected end of stream"),
                               ("ArrowCapacityError", 1, "array cannot contain more than 2147483646 bytes"),
                               ("ArrowNotImplementedError", 1, "Unsupported encoding"),
                               ("ArrowIndexError", 1, "Index out of bounds"),
                               ("ArrowKeyError", 1, "No such column"),
                               ("ArrowTypeError", 1, "Unsupported type in conversion")):
        cls = getattr(pa, name, None)
        if isinstance(cls, type) and issubclass(cls, BaseException):
            menu.append((name, weight, (lambda c, t: (lambda: c(t)))(cls, text)))
    return menu


def exc_family(e):
    """the family of an exception for the signature (the concrete class goes into the message)"""
    try:
        import pyarrow as pa
        if isinstance(e, pa.ArrowException):
            return "ArrowException"
    except ImportError:
        pass
    for cls in (KeyboardInterrupt, MemoryError, TimeoutError, OSError, ValueError, LookupError, EOFError, TypeError, RuntimeError):
        if isinstance(e, cls):
            return cls.__name__
    return type(e).__name__


# ---------------------------------------------------------------------------------------------------------------
# the failing source
# ---------------------------------------------------------------------------------------------------------------
class Fault:
    """decides which load attempted at the source fails, and records every load: att = [dict(req, cols, failed)]
    A load = one slice request to the table / the first column + the requests of the same slice to the further columns
    (stages 0, 1, 2 ...); one row group; one call of the generator."""

    def __init__(self, k, stage, make_exc, persistent, cap):
        self.k, self.stage, self.make_exc, self.persistent, self.cap = k, stage, make_exc, persistent, cap
        self.att = []
        self.fired = []            # (index of the load, chunk-level attempt of the pass, exception instance)
        self.delivered = 0         # chunks the pass has handed over so far (kept by the driver of the pass)
        self.fired_in_pass = 0
        self.armed = True

    def new_pass(self):
        self.delivered, self.fired_in_pass = 0, 0
        return len(self.att)

    def load(self, req, col=None):
        cur = self.att[-1] if self.att else None
        if cur is None or col is None or cur["req"] != req or col in cur["cols"] or cur["failed"]:
            if len(self.att) >= self.cap:
                from props import c18 as base
                raise base.RunawayRequests("more than %d loads" % self.cap)
            cur = dict(req=req, cols=[], failed=False)
            self.att.append(cur)
        cur["cols"].append(col)
        self._stage(cur, len(cur["cols"]) - 1)

    def touch(self, col):
        """a further step of the current load (the data frame: the columns taken from the sliced table)"""
        if self.att and not self.att[-1]["failed"]:
            cur = self.att[-1]
            cur["cols"].append(col)
            self._stage(cur, len(cur["cols"]) - 1)

    def _stage(self, cur, stage):
        i = len(self.att) - 1
        hit = i >= self.k if self.persistent else (i == self.k and not self.fired)
        if self.armed and hit and stage == self.stage:
            cur["failed"] = True
            exc = self.make_exc()
            self.fired.append((i, self.delivered + self.fired_in_pass, exc))
            self.fired_in_pass += 1
            raise exc

    def ours(self, e):
        """is e (or what it was raised from / while handling) an exception this source raised?"""
        seen = 0
        while e is not None and seen < 12:
            if any(e is x for _, _, x in self.fired):
                return True
            e, seen = (e.__cause__ or e.__context__), seen + 1
        return False


class FFrameChunk:
    def __init__(self, df, flt):
        self.df, self.flt = df, flt

    def __getitem__(self, name):
        self.flt.touch(str(name))
        return self.df[name]

    def __len__(self):
        return len(self.df)

    def __getattr__(self, name):
        return getattr(self.df, name)


class FFrame:
    def __init__(self, df, flt):
        self.df, self.flt = df, flt

    def __len__(self):
        return len(self.df)

    def __getitem__(self, item):
        if isinstance(item, slice):
            self.flt.load((item.start, item.stop))
            return FFrameChunk(self.df[item], self.flt)
        return self.df[item]

    def __iter__(self):
        return iter(self.df)

    def __getattr__(self, name):
        return getattr(self.df, name)


class FDataset:
    def __init__(self, ds, flt, name):
        self.ds, self.flt, self.name = ds, flt, name

    def __len__(self):
        return len(self.ds)

    def __getitem__(self, item):
        if isinstance(item, slice):
            self.flt.load((item.start, item.stop), self.name)
        return self.ds[item]

    def __getattr__(self, name):
        return getattr(self.ds, name)


class FH5:
    def __init__(self, f, flt):
        self.f, self.flt = f, flt

    def __getitem__(self, name):
        return FDataset(self.f[name], self.flt, name)

    def close(self):
        self.f.close()

    def __getattr__(self, name):
        return getattr(self.f, name)

    def __enter__(self):
        return self

    def __exit__(self, *exc):
        self.f.close()


class FRec:
    def __init__(self, rec, flt):
        self.rec, self.flt = rec, flt

    def __len__(self):
        return len(self.rec)

    def __getitem__(self, name):
        if isinstance(name, str):
            return FDataset(self.rec[name], self.flt, name)
        return self.rec[name]

    def __getattr__(self, name):
        return getattr(self.rec, name)


class FHDU:
    def __init__(self, hdu, flt):
        self.hdu, self.flt = hdu, flt

    @property
    def data(self):
        return FRec(self.hdu.data, self.flt)

    def __getattr__(self, name):
        return getattr(self.hdu, name)


class FHDUList:
    def __init__(self, f, flt):
        self.f, self.flt = f, flt

    def __getitem__(self, i):
        return FHDU(self.f[i], self.flt)

    def close(self):
        self.f.close()

    def __getattr__(self, name):
        return getattr(self.f, name)


class patched_sources:
    """h5py / fits / parquet of yaw.catalog.readers replaced by transparent proxies that ask `flt` before every load"""

    def __init__(self, readers, flt, ngroups=0):
        self.readers, self.flt, self.ngroups = readers, flt, ngroups

    def __enter__(self):
        rd, flt, ngroups = self.readers, self.flt, self.ngroups
        self.saved = (rd.h5py, rd.fits, rd.parquet)
        h5, fi, pq = self.saved

        class _H5:
            @staticmethod
            def File(p, mode="r"):
                return FH5(h5.File(p, mode=mode), flt)

            def __getattr__(self, name):
                return getattr(h5, name)

        class _Fits:
            @staticmethod
            def open(p, *a, **kw):
                return FHDUList(fi.open(p, *a, **kw), flt)

            def __getattr__(self, name):
                return getattr(fi, name)

        class _PF:
            def __init__(self, p, *a, **k):
                self._f = pq.ParquetFile(p, *a, **k)

            def __getattr__(self, name):          # metadata, num_row_groups, schema ...: forwarded, not loads
                return getattr(self._f, name)

            def read_row_group(self, i, *a, **k):
                if 0 <= int(i) < ngroups:         # an index past the end is a question about the end, not a load
                    flt.load((int(i), int(i) + 1))
                return self._f.read_row_group(i, *a, **k)

            def read_row_groups(self, idx, *a, **k):
                for i in idx:
                    if 0 <= int(i) < ngroups:
                        flt.load((int(i), int(i) + 1))
                return self._f.read_row_groups(idx, *a, **k)

            def __enter__(self):
                return self

            def __exit__(self, *exc):
                self._f.close()

        class _PQ:
            ParquetFile = _PF

            def __getattr__(self, name):
                return getattr(pq, name)
        rd.h5py, rd.fits, rd.parquet = _H5(), _Fits(), _PQ()
        return self

    def __exit__(self, *exc):
        self.readers.h5py, self.readers.fits, self.readers.parquet = self.saved
        return False


# ---------------------------------------------------------------------------------------------------------------
# sources and readers
# ---------------------------------------------------------------------------------------------------------------
def columns(n):
    """row identity in the right ascension: (row + 1) / 8192 rad, exact; rows alternate between two patches"""
    rows = np.arange(n)
    return {"ra": (rows + 1) / 8192.0, "dec": np.where(rows % 2 == 0, -1.0, 1.0) * (1 + rows % 7) / 64.0,
            "pid": (rows % 2).astype("i8")}


def rows_of(ra):
    out = []
    for v in np.asarray(ra, dtype="f8") * 8192.0 - 1.0:
        iv = int(round(float(v)))
        out.append(iv if iv == v and iv >= 0 else 4999)
    return out


def make_source(ctx, rng, kind, n, cs, tag):
    """a source of n records; Parquet: row groups mostly not aligned with the chunks"""
    import h5py
    import pyarrow as pa
    from astropy.io import fits as afits
    from props import c18 as base
    src = dict(kind=kind, n=n, path=None, groups=None)
    cols = columns(n)
    stem = os.path.join(ctx.workdir, "fault_%s" % tag)
    if kind == "df":
        src["df"] = impl.make_df(cols)
    elif kind == "random":
        src["seed"] = rng.randrange(10 ** 6)
    elif kind == "hdf5":
        src["path"] = stem + ".hdf5"
        with h5py.File(src["path"], "w") as f:
            for kk, v in cols.items():
                f.create_dataset(kk, data=v)
    elif kind == "fits":
        src["path"] = stem + ".fits"
        afits.BinTableHDU.from_columns([afits.Column(name="ra", format="D", array=cols["ra"]),
                                        afits.Column(name="dec", format="D", array=cols["dec"]),
                                        afits.Column(name="pid", format="K", array=cols["pid"])]).writeto(src["path"], overwrite=True)
    else:
        src["path"] = stem + ".pqt"
        if rng.random() < 0.6:
            rg = rng.choice([1, max(1, cs - 1), cs, cs + 1, 2 * cs + 1, rng.randrange(1, 12)])
            src["groups"] = base.write_parquet(src["path"], pa.table(cols), rg, None)
        else:
            g, left = [], n
            while left:
                g.append(min(left, rng.randrange(1, 2 * cs + 3)))
                left -= g[-1]
            src["groups"] = base.write_parquet(src["path"], pa.table(cols), 0, g)
    return src


def model_chunks(src, cs):
    return -(-src["n"] // cs)


def model_loads(src, cs):
    """loads of a healthy pass at the source (row groups for Parquet, otherwise one per chunk)"""
    return len(src["groups"]) if src["groups"] else model_chunks(src, cs)


def load_of_chunk(src, cs, j):
    """index of the first load made for chunk j of a healthy pass"""
    if not src["groups"]:
        return j
    need, tot = j * cs + 1, 0              # the row group that holds the first row of chunk j (position only: a heuristic)
    for i, gs in enumerate(src["groups"]):
        if tot + gs >= need:
            return i
        tot += gs
    return len(src["groups"]) - 1


def make_gen(seed, flt):
    """a random generator (yaw.randoms.BoxRandoms) whose calls are loads"""
    from yaw.randoms import BoxRandoms

    class LoggedGen(BoxRandoms):
        def __call__(self, probe_size, *a, **k):
            flt.load((0, int(probe_size)))
            return super().__call__(probe_size, *a, **k)
    return LoggedGen(10.0, 35.0, -5.0, 6.0, seed=seed)


def open_reader(readers, src, cs, flt, patch_name=None):
    common = dict(ra_name="ra", dec_name="dec", degrees=False, chunksize=cs, patch_name=patch_name)
    if src["kind"] == "df":
        return readers.DataFrameReader(FFrame(src["df"], flt), **common)
    if src["kind"] == "random":
        return readers.RandomReader(make_gen(src["seed"], flt), src["n"], chunksize=cs)
    with patched_sources(readers, flt, len(src["groups"] or ())):
        return readers.new_filereader(src["path"], **common)


def cfg_term(src, cs):
    if src["kind"] == "parquet":
        return "(CPq %s (rows_of_sizes %s))" % (fq.nat(cs), fq.nlist(src["groups"]))
    return "(COff %s %s %s)" % (fq.b(src["kind"] != "random"), fq.nat(src["n"]), fq.nat(cs))


def att_term(src, att):
    n = src["n"]

    def one(e):
        a, b = e["req"]
        a, b = (0 if a is None else int(a)), (n if b is None else int(b))
        if src["kind"] in ("df", "hdf5", "fits"):
            b = min(b, n)
        return "((%s, %s), %s)" % (fq.nat(min(max(a, 0), 4999)), fq.nat(min(max(b, 0), 4999)), fq.b(e["failed"]))
    return fq.lst([one(e) for e in att])


def fault_term(src, cs, fa, raised, rows, att):
    return "c18_fault_case %s %s %s %s %s" % (
        cfg_term(src, cs), fq.nlist(fa), fq.b(raised),
        "None" if rows is None else "(Some %s)" % fq.lst([fq.nlist(r) for r in rows]), att_term(src, att))


# ---------------------------------------------------------------------------------------------------------------
# naming what is wrong (for the signature and the message; the verdict is Coq's)
# ---------------------------------------------------------------------------------------------------------------
def diagnose(src, cs, raised, rows, att):
    n, ids = src["n"], src["kind"] != "random"
    notes, label = [], None

    def put(lab, text):
        nonlocal label
        notes.append(text)
        label = label or lab
    if rows is not None:
        flat = [r for c in rows for r in c]
        sizes = [len(c) for c in rows]
        if ids:
            upto = n if not raised else (max(flat) + 1 if flat else 0)
            missing = sorted(set(range(upto)) - set(flat))
            rep = sorted({r for r in flat if flat.count(r) > 1})
            if missing:
                put("records-missing", "records %s..%s (%d) were never delivered" % (missing[0], missing[-1], len(missing)))
            if rep:
                put("records-repeated", "records %s were delivered more than once" % rep[:6])
            if not missing and not rep and flat != list(range(len(flat))):
                put("records-out-of-order", "records delivered in the order %s" % flat[:12])
        else:
            if not raised and sum(sizes) < n:
                put("records-missing", "%d of %d points were delivered" % (sum(sizes), n))
            if sum(sizes) > n:
                put("records-repeated", "%d points were delivered, %d asked for" % (sum(sizes), n))
        want, pos = [], 0
        for s in sizes:
            want.append(min(cs, max(0, n - pos)))
            pos += s
        if sizes != want:
            d = next(i for i, (x, y) in enumerate(zip(sizes + [None], want + [None])) if x != y)
            put("chunks-resized", "from chunk #%d on chunks of %s records were delivered where chunks of %s were due (chunk size %d)"
                % (d, sizes[d:d + 10], want[d:d + 10], cs))
    # the loads, walked against the requests of the healthy pass: a failed load does not advance
    if src["kind"] in ("df", "hdf5", "fits"):
        reqs = [((int(e["req"][0] or 0), min(int(n if e["req"][1] is None else e["req"][1]), n)), e["failed"]) for e in att]
        want = [(lo, min(lo + cs, n)) for lo in range(0, n, cs)]
        if any((e["req"][1] or 0) - (e["req"][0] or 0) > cs for e in att):
            put("request-above-chunk-size", "a request above the chunk size: %s" % [e["req"] for e in att][:8])
        unit = "rows"
    elif src["kind"] == "random":
        reqs = [((0, int(e["req"][1])), e["failed"]) for e in att]
        want = [(0, min(cs, n - lo)) for lo in range(0, n, cs)]
        unit = "points"
    else:
        reqs = [((int(e["req"][0]), int(e["req"][0]) + 1), e["failed"]) for e in att]
        want = [(i, i + 1) for i in range(len(src["groups"]))]
        unit = "row groups"
    p = 0
    for j, (r, failed) in enumerate(reqs):
        due = want[p] if p < len(want) else None
        if r != due:
            if due is None or r[0] > due[0]:
                lab = "records-missing"
            elif r[0] < due[0]:
                lab = "records-repeated"
            else:
                lab = "chunks-resized"
            put(lab, "load #%d of the pass asked for %s %s where %s was due" % (j, unit, r, "nothing more" if due is None else due))
            break
        p += 0 if failed else 1
    else:
        if not raised and p < len(want):
            put("records-missing", "the pass ended although %s %s.. had not been loaded" % (unit, want[p]))
    return label or "differs-from-model", notes


# ---------------------------------------------------------------------------------------------------------------
# driving one pass
# ---------------------------------------------------------------------------------------------------------------
def drive_pass(rd, src, flt, route):
    """one complete pass over the reader object as a caller makes it; what was delivered, whether an exception reached us"""
    from yaw.utils.logging import Indicator
    mark = flt.new_pass()
    nfired = len(flt.fired)
    chunks, err = [], None
    limit = src["n"] + 8

    def got(c):
        chunks.append(rows_of(c["ra"]) if src["kind"] != "random" else [0] * len(c))
        flt.delivered += 1
        if len(chunks) > limit:
            from props import c18 as base
            raise base.RunawayRequests("more than %d chunks" % limit)
    try:
        if route == "next":
            it = iter(rd)
            while True:
                try:
                    c = next(it)
                except StopIteration:
                    break
                got(c)
        elif route == "list":
            list(map(got, rd))                 # the iteration is made by map / list, not by a for statement
        elif route == "indicator":
            for c in Indicator(rd, stream=io.StringIO()):
                got(c)
        else:
            for c in rd:
                got(c)
    except BaseException as e:  # noqa: BLE001 - also KeyboardInterrupt: the source raises it
        if isinstance(e, (KeyboardInterrupt, SystemExit, GeneratorExit)) and not flt.ours(e):
            raise
        err = e
    fired = flt.fired[nfired:]
    return dict(chunks=chunks, err=err, att=[dict(e) for e in flt.att[mark:]], fa=[a for _, a, _ in fired],
                fired=[(i - mark, type(x).__name__) for i, _, x in fired], excs=[x for _, _, x in fired])


def pass_meta(res):
    return dict(delivered=None if res["chunks"] is None else [c[:10] for c in res["chunks"]][:16], loads=[(e["req"], e["failed"]) for e in res["att"]][:24],
                raised=repr(res["err"]) if res["err"] is not None else None, failed_loads=res["fired"], attempts_failed=res["fa"])


def pick_fault(ctx, rng, src, cs, menu, npasses=1, ncols=2):
    """(index of the failing load, stage, exception, persistent): first / middle / last chunk of the first or a later pass"""
    nch, nloads = model_chunks(src, cs), model_loads(src, cs)
    where = rng.choice(["first", "middle", "middle", "last", "last", "any"])
    j = dict(first=0, middle=nch // 2, last=nch - 1).get(where, rng.randrange(nch))
    k = load_of_chunk(src, cs, j) if rng.random() < 0.8 else rng.randrange(nloads)
    k += nloads * rng.randrange(npasses)
    stages = 1 if src["kind"] in ("parquet", "random") else (ncols + (1 if src["kind"] == "df" else 0))
    stage = rng.choice([0, 0] + list(range(stages)))
    weights = [w for _, w, _ in menu]
    name, _, make = rng.choices(menu, weights=weights)[0]
    return k, stage, name, make, rng.random() < 0.3, where


# ---------------------------------------------------------------------------------------------------------------
# the cases
# ---------------------------------------------------------------------------------------------------------------
def shape(rng, cs):
    return rng.choice([cs + 1, 2 * cs, 2 * cs + 1, 3 * cs, 3 * cs + 1, 4 * cs - 1 if cs > 1 else 5, 5 * cs + 2, rng.randrange(2, 48)])


def reader_cases(ctx, readers, terms, metas, idx, menu):
    rng = ctx.rng
    plan = []
    # every kind x every exception of the menu once, then random draws
    k0 = rng.randrange(len(KINDS))
    for j, (name, _, make) in enumerate(menu):
        plan.append((KINDS[(j + k0) % len(KINDS)], name, make))
    for kind in KINDS:                      # the exceptions named in the statement of the dimension, for every kind
        for name, _, make in menu[:10]:
            if rng.random() < ctx.n(0.5, 1.0):
                plan.append((kind, name, make))
    for _ in range(ctx.n(260, 2600)):
        plan.append((rng.choice(KINDS), None, None))
    for ci, (kind, name, make) in enumerate(plan):
        cs = rng.choice([1, 2, 2, 3, 4, 4, 5, 6, 7, 8, 9, 16])
        n = max(2, shape(rng, cs))
        if kind == "random":
            n = max(n, 3)
        src = make_source(ctx, rng, kind, n, cs, "r%d" % ci)
        k, stage, nm, mk, persistent, where = pick_fault(ctx, rng, src, cs, menu)
        if name is not None:
            nm, mk = name, make
        probe = rng.random() < 0.25
        route = rng.choice(ROUTES)
        flt = Fault(k, stage, mk, persistent, cap=8 * (model_loads(src, cs) + 4))
        spec = dict(fault_case="probe" if probe else "pass", kind=kind, n=n, cs=cs, groups=src["groups"], failing_load=k, stage=stage,
                    exception=nm, persistent=persistent, position=where, route=route)
        rd, first, second, perr, probe_res = None, None, None, None, None
        try:
            rd = open_reader(readers, src, cs, flt)
            if probe:
                psize = rng.randrange(1, min(n, 6) + 1)
                spec["probe_size"] = psize
                mark, nf = flt.new_pass(), len(flt.fired)
                try:
                    got = rd.get_probe(psize)
                    probe_res = dict(err=None, got=sorted(rows_of(got["ra"])) if kind != "random" else len(got))
                except BaseException as e:  # noqa: BLE001
                    if isinstance(e, (KeyboardInterrupt, SystemExit, GeneratorExit)) and not flt.ours(e):
                        raise
                    probe_res = dict(err=e, got=None)
                fired = flt.fired[nf:]
                first = dict(chunks=None, err=probe_res["err"], att=[dict(e) for e in flt.att[mark:]], fa=[a for _, a, _ in fired],
                             fired=[(i - mark, type(x).__name__) for i, _, x in fired], excs=[x for _, _, x in fired])
            else:
                first = drive_pass(rd, src, flt, route)
            second = drive_pass(rd, src, flt, "for")     # the same object, a new complete pass
        except BaseException as e:  # noqa: BLE001
            if isinstance(e, (KeyboardInterrupt, SystemExit, GeneratorExit)) and not flt.ours(e):
                raise
            perr = e
        finally:
            flt.armed = False
            if rd is not None:
                try:
                    rd.__exit__(None, None, None)
                except Exception:  # noqa: BLE001
                    pass
            if src["path"] and os.path.exists(src["path"]):
                os.unlink(src["path"])
        hit = bool(flt.fired)
        ctx.count(key=("fault", kind, n, cs, tuple(src["groups"] or ()), k, stage, nm, persistent, route, probe), nontrivial=hit,
                  kind="failing-load/%s/%s" % (kind, "probe" if probe else "pass"))
        ctx.bump("failing-load:%s" % ("fired" if hit else "never-reached"))
        if hit:
            ctx.bump("failing-load-exception:%s" % nm)
            ctx.bump("failing-load-position:%s%s" % (where, "/persistent" if persistent else "/once"))
            ctx.bump("failing-load-outcome:%s" % ("propagated" if first and first["err"] is not None else "pass-completed"))
        if perr is not None:
            from props import c18 as base
            ctx.fail("c18-pass-never-ends" if isinstance(perr, base.RunawayRequests) else "c18-raises:%s:%s" % (kind, type(perr).__name__),
                     "%s reader (%d records, chunk size %d): constructing the reader or closing it raised %r" % (kind, n, cs, perr), spec, case=idx)
            idx += 1
            continue
        fam = exc_family(first["excs"][0]) if first["excs"] else (exc_family(second["excs"][0]) if second["excs"] else None)
        # --- the pass (or the probe) in which the load failed
        if probe and kind == "random":
            # one call of the generator; no statement of C18 beyond: it raises or returns the points asked for
            ok = first["err"] is not None or probe_res["got"] == spec["probe_size"]
            if not ok:
                ctx.fail("c18-failed-load-probe-wrong:random:%s" % fam, "get_probe(%d) on a random reader whose generator raised %s "
                         "returned %s points" % (spec["probe_size"], nm, probe_res["got"]), spec, case=idx)
        else:
            rows = first["chunks"]
            raised = first["err"] is not None
            terms.append(fault_term(src, cs, first["fa"], raised, rows, first["att"]))
            label, notes = diagnose(src, cs, raised, rows, first["att"])
            metas.append((idx, dict(spec, fault=True, stage_name="probe" if probe else "pass", family=fam, label=label, notes=notes,
                                    unprovoked=raised and not first["excs"], **pass_meta(first))))
            idx += 1
            if probe and first["err"] is None:
                want = sorted(np.linspace(0, n - 1, spec["probe_size"]).astype(int).tolist())
                if probe_res["got"] != want:
                    ctx.fail("c18-failed-load-probe-wrong:%s:%s" % (kind, fam or "no-failure"),
                             "get_probe(%d) on a %s reader of %d records (chunk size %d) during which load #%d raised %s returned rows "
                             "%s instead of %s" % (spec["probe_size"], kind, n, cs, k, nm, probe_res["got"][:12], want[:12]), spec, case=idx - 1)
        # --- the complete pass afterwards, over the same object
        raised2 = second["err"] is not None
        terms.append(fault_term(src, cs, second["fa"], raised2, second["chunks"], second["att"]))
        label2, notes2 = diagnose(src, cs, raised2, second["chunks"], second["att"])
        metas.append((idx, dict(spec, fault=True, stage_name="pass-after", family=fam, label=label2, notes=notes2,
                                unprovoked=raised2 and not second["excs"], first=pass_meta(first), **pass_meta(second))))
        idx += 1
        ctx.sample(dict(spec, first=pass_meta(first), second=pass_meta(second)), limit=6)
    return idx


def stored_rows(cat, kind):
    out = []
    for rec in impl.patch_records(cat).values():
        out += rows_of(rec["ra"]) if kind != "random" else [0] * len(rec)
    return sorted(out)


def split_passes(att):
    """the loads of a creation, pass by pass: a pass begins with a request of the start of the source that does not
    repeat a failed request of the start"""
    passes = []
    for j, e in enumerate(att):
        start = e["req"][0] in (0, None)
        again = j > 0 and att[j - 1]["failed"] and att[j - 1]["req"] == e["req"]
        if not passes or (start and not again):
            passes.append([])
        passes[-1].append(e)
    return passes


def creation_cases(ctx, readers, terms, metas, idx, menu):
    from props import c18 as base
    rng = ctx.rng
    ncases = ctx.n(110, 1000)
    for ci in range(ncases):
        kind = KINDS[ci % len(KINDS)] if ci < 2 * len(KINDS) else rng.choice(KINDS)
        cs = rng.choice([2, 3, 4, 5, 7, 9])
        workers = rng.choice([0, 0, 0, 2, 3]) if ci % 4 else (2 + ci % 2)
        if workers and cs % workers == 0:
            cs += 1
        mode = "centers" if kind == "random" else rng.choice(["name", "name", "centers", "create" if ci % 3 == 0 else "name"])
        n = max(4, shape(rng, cs))
        if mode == "create":
            n = max(n, 24)
        src = make_source(ctx, rng, kind, n, cs, "c%d" % ci)
        npasses = 2 if mode == "create" else 1
        k, stage, nm, mk, persistent, where = pick_fault(ctx, rng, src, cs, menu, npasses=npasses, ncols=3 if mode == "name" else 2)
        healthy = rng.random() < 0.08             # control: nothing fails
        flt = Fault(k, stage, mk, persistent, cap=8 * npasses * (model_loads(src, cs) + 4))
        flt.armed = not healthy
        older = rng.random() < 0.25               # an older catalog (other records) at the path
        order, pseed = rng.choice(["random", "reverse", "identity"]), rng.randrange(10 ** 6)
        cache = impl.fresh_dir(ctx, "fcat%d" % (ci % 7))
        old_rows = None
        impl.set_threads(1)
        if older:
            old_n = rng.choice([3, 5, 8])
            oc = columns(old_n)
            impl.Catalog.from_dataframe(cache, impl.make_df(oc), ra_name="ra", dec_name="dec", patch_name="pid", degrees=False, max_workers=1)
            old_rows = list(range(old_n))
        kwargs = dict(max_workers=base.worker_arg(workers, "arg"), chunksize=cs, overwrite=True)
        if kind != "random":
            kwargs.update(ra_name="ra", dec_name="dec", degrees=False)
        if mode == "name":
            kwargs["patch_name"] = "pid"
        elif mode == "centers":
            kwargs["patch_centers"] = impl.AngularCoordinates(np.asarray(CENTERS)) if kind != "random" else \
                impl.AngularCoordinates(np.deg2rad([[15.0, 0.0], [30.0, 3.0]]))
        else:
            kwargs["patch_num"] = 2
            kwargs["probe_size"] = rng.choice([20, -1, 22])
        spec = dict(fault_case="creation", kind=kind, n=n, cs=cs, groups=src["groups"], mode=mode, workers=workers, order=order,
                    pool_seed=pseed, failing_load=k, stage=stage, exception=nm, persistent=persistent, position=where,
                    older_catalog=older, control_without_failure=healthy)
        err, cat = None, None
        pc = base.pool_ctx(workers, order, pseed)
        try:
            with pc as mp:
                if kind == "df":
                    cat = impl.Catalog.from_dataframe(cache, FFrame(src["df"], flt), **kwargs)
                elif kind == "random":
                    cat = impl.Catalog.from_random(cache, make_gen(src["seed"], flt), n, **kwargs)
                else:
                    with patched_sources(readers, flt, len(src["groups"] or ())):
                        cat = impl.Catalog.from_file(cache, src["path"], **kwargs)
        except BaseException as e:  # noqa: BLE001
            if isinstance(e, (KeyboardInterrupt, SystemExit, GeneratorExit)) and not flt.ours(e):
                raise
            err = e
        finally:
            impl.set_threads(1)
            flt.armed = False
            if src["path"] and os.path.exists(src["path"]):
                os.unlink(src["path"])
        hit = bool(flt.fired)
        fam = exc_family(flt.fired[0][2]) if hit else None
        ctx.count(key=("fault-creation", kind, n, cs, tuple(src["groups"] or ()), mode, workers, k, stage, nm, persistent, older),
                  nontrivial=hit, kind="failing-load/%s/creation/%s%s" % (kind, mode, "/pool" if getattr(mp, "pool_sizes", ()) else ""))
        ctx.bump("failing-load:%s" % ("fired" if hit else "never-reached"))
        if hit:
            ctx.bump("failing-load-exception:%s" % nm)
            ctx.bump("failing-load-outcome:creation-%s" % ("raised" if err is not None else "completed"))
        att = [dict(e) for e in flt.att]
        spec["loads"] = [(e["req"], e["failed"]) for e in att][:32]
        spec["raised"] = repr(err) if err is not None else None
        spec["writer_process"] = list(getattr(mp, "process_exits", ()))
        what = "%s source of %d records, chunk size %d, patches by %s, %s%s: load #%d (%s chunk, step %d of the load) raised %s %s" % (
            kind, n, cs, mode, "%d workers" % workers if workers else "sequential", ", over an older catalog" if older else "",
            k, where, stage, nm, "from then on" if persistent else "once")
        if err is not None:
            if isinstance(err, base.RunawayRequests):
                ctx.fail("c18-pass-never-ends", what + "; the creation did not end: %r" % err, spec, case=idx)
            elif not hit:
                if isinstance(err, (ValueError, RuntimeError)) and base.is_empty_patch_refusal(err, mp):
                    ctx.bump("skipped_empty_patch")
                else:
                    ctx.fail("c18-raises:%s:%s" % (kind, type(err).__name__), "a creation in which no load failed raised %r (%s)" % (err, what), spec, case=idx)
            else:
                # the exception reached the caller: nothing that opens may be left, except the older catalog untouched
                left = None
                try:
                    left = stored_rows(impl.Catalog(cache, max_workers=1), "df")
                except Exception:  # noqa: BLE001 - does not open: fine
                    pass
                if left is not None and left != old_rows:
                    ctx.fail("c18-failed-load-catalog-left-after-error:%s:%s" % (kind, fam),
                             what + "; the creation raised %r, but a catalog that opens is left at the path, with %d records%s"
                             % (err, len(left), " (the older catalog had %d)" % len(old_rows) if old_rows else ""), spec, case=idx)
                elif left is not None:
                    ctx.bump("failing-load:older-catalog-survived")
            shutil.rmtree(cache, ignore_errors=True)
            idx += 1
            continue
        # the creation completed: every record once, every pass asked for what the healthy pass asks
        stored = stored_rows(cat, kind)
        del cat
        shutil.rmtree(cache, ignore_errors=True)
        want = list(range(n)) if kind != "random" else [0] * n
        if stored != want:
            missing = sorted(set(want) - set(stored)) if kind != "random" else []
            lab = "catalog-records-missing" if len(stored) < n or missing else "catalog-records-repeated"
            ctx.fail("c18-failed-load-%s:%s:%s" % (lab, kind, fam or "no-failure"),
                     what + "; the creation completed without error and the catalog stores %d of %d records%s"
                     % (len(stored), n, ", missing %s..%s" % (missing[0], missing[-1]) if missing else ""), spec, case=idx)
        passes = split_passes(att) if kind != "random" else [att]
        for pi, seg in enumerate(passes):
            terms.append(fault_term(src, cs, [], False, None, seg))
            label, notes = diagnose(src, cs, False, None, seg)
            metas.append((idx, dict(spec, fault=True, stage_name="creation-pass-%d" % pi, family=fam, label=label, notes=notes,
                                    unprovoked=False, n_passes=len(passes), expected_passes=npasses)))
            idx += 1
        if len(passes) != npasses:
            ctx.disagree("Cases_C18:failing-load-passes", idx - 1, dict(spec, passes=len(passes), expected=npasses))
        ctx.sample(spec, limit=8)
    return idx


def run(ctx, readers, terms, metas, idx):
    import time
    t0, first = time.time(), idx
    menu = exc_menu()
    impl.set_threads(1)
    idx = reader_cases(ctx, readers, terms, metas, idx, menu)
    t1 = time.time()
    idx = creation_cases(ctx, readers, terms, metas, idx, menu)
    ctx.log("failing loads: %d cases (reader passes / probes %.1fs, creations %.1fs)" % (idx - first, t1 - t0, time.time() - t1))
    return idx


def verdict(ctx, i, c, meta):
    """bits: 1 delivered chunks and outcome = the model (propagate | the same request again), 2 the statement on the delivered
    stream, 4 every load asked for what was due and none was skipped"""
    if not c:
        return
    kind, fam, stage = meta["kind"], meta["family"] or "no-failure", meta["stage_name"]
    if meta.get("unprovoked"):
        ctx.fail("c18-raises:%s" % kind, "a complete pass over a %s reader (%d records, chunk size %d) in which no load failed raised %s"
                 % (kind, meta["n"], meta["cs"], meta["raised"]), meta, case=i)
        return
    if c & 6:
        prefix = {"pass": "c18-failed-load", "probe": "c18-failed-load-probe", "pass-after": "c18-pass-after-failed-load"}.get(stage, "c18-failed-load-catalog")
        ctx.fail("%s-%s:%s:%s" % (prefix, meta["label"], kind, fam),
                 "%s reader, %d records, chunk size %d%s: load #%d (%s chunk, step %d) raised %s %s; %s %s: %s (code %d)"
                 % (kind, meta["n"], meta["cs"], ", row groups %s" % meta["groups"] if meta["groups"] else "", meta["failing_load"],
                    meta["position"], meta["stage"], meta["exception"], "from then on" if meta["persistent"] else "once",
                    {"pass": "the pass in which it failed", "probe": "get_probe during which it failed",
                     "pass-after": "the complete pass made afterwards over the same reader object"}.get(stage, "a pass of the creation"),
                    "ended without an exception" if not meta.get("raised") else "raised %s" % meta["raised"],
                    "; ".join(meta["notes"][:3]) or "not the stream of the statement", c), meta, case=i)
    elif c & 1:
        ctx.disagree("Cases_C18:failing-load", i, dict(code=c, meta=meta))
