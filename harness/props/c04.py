"""C04 — correlation estimators and the n(z) formula are applied as documented.

Tie: (a) CorrFunc containers with dd and every non-empty subset of {dr, rd, rr} (auto and cross,
bins 1-4, patches 2-7, sparse and dense small dyadic arrays) are sampled with the real
CorrFunc.sample(); `.data/.samples` (or the fact that it raises) are compared inside Coq with the
model of the code and with the documented formula ((DD-DR-RD+RR)/RR, DD/DR-1, DD/RD-1 on
total/(W1*W2) resp. total/(W^2/2)); RedshiftData.from_corrfuncs(...).data/.samples are checked
against w_sp/sqrt(dz^2 w_ss w_pp) in squared form on the implementation's own CorrData values;
HistData.normalised() / RedshiftData.normalised() against the model and "integral = 1".
(c) call histories: the same comparisons after sequences of public calls on the live containers - every read-only
method once per run (get_array, sample_patch_sum, bins/patches indexing and iteration, to_dict, to_file/from_file, ==,
is_compatible, repr/attributes, +, *, sum(), pickling, deepcopy, sample(), from_corrfuncs(), error/covariance/
correlation, to_files, normalised(), each also followed by a use of the derived object) and random sequences of them
interleaved with PatchedCounts.set_patch_pair; the result must satisfy the Coq model of the state the constructor and
the set_patch_pair calls define (Model/Estimators.v: run_calls, c04_hist_case; Props: C04_sample_after_history), be
bit-identical to the result on a freshly built equal container, and the stored arrays (snapshots taken by copy) must
be bit-unchanged after every single call.
(d) magnitudes: the same comparisons (fresh containers, n(z), normalisation, call histories, files) on inputs whose
normalised terms are far from 1 - total weights of 2^20..2^40 or 2^-30..2^-8 per sample with small dyadic counts (terms of
1e-25..1e+24), the scales mixed per bin and per pair-count member, survey-like consistent scales (randoms denser than
data), a common power-of-two factor on all counts, exact-zero counts of one member (rr, dr, rd, dd) in some bins but not
all or in all bins; all scales are powers of two, so the float64 sums stay exact and the Q model is compared as before.
The estimator must depend only on which members are present (Props: C04_ls_for_any_rr, C04_estimate_scale_invariant,
C04_threshold_fallback_refuted); a value that is the estimator for absent rr although rr is present is reported as such
(Model: ignores_rr, c04_corr_case_x bit 4).
(e) real measurements (props/c04_meas.py): the CorrFuncs that yaw.crosscorrelate / yaw.autocorrelate return for small real
catalogs (2-4 patches, isolated fields and linked neighbours, a sparse reference sample with empty (patch, bin) cells, bins
empty in every patch, objects on edges and outside the binning, dyadic weights or no weight column, reference randoms only /
unknown randoms only / both, CorrFuncs made of a subset of the measured pair counts, autocorrelations with and without RR, one or
two scales) are sampled and CorrFunc.sample().data / .samples and RedshiftData.from_corrfuncs(...).data / .samples are compared in
Coq with the model evaluated on the MEASURED pair counts and on weights computed inside Coq from the catalogs' RECORDS
(closed-side rule per bin for a side read with the binning, the whole catalog in every bin for the unknown side of a
cross-correlation, half the squared total for autocorrelations): "the two samples' total weights" is a quantity of the catalogs
that were paired, not of what the CorrFunc stores (Model: meas_pc, c04_meas_case, c04_meas_nz_case; Props:
C04_sample_total_any_patches, C04_measured_denominator_cross / _auto, C04_term_determines_denominator,
C04_skip_empty_agrees_populated / _refuted).
(f) weights that are not positive: a total weight is the sum of whatever the weight column holds.  Real measurements
(c04_meas.py: weight modes and deterministic probes) with objects of weight 0 (masked, not removed), populated (patch, bin)
cells - whole patches of a sample read without the binning - that weigh exactly nothing (all zeros, or weights of both signs
that cancel), bins and whole samples of total weight zero, catalogs whose only non-zero weights sit in one patch, negative
weights; catalogs whose patch centres cannot be computed from the weights (a patch of total weight 0) are created with
patch_centers = the nominal centres.  Hand-built containers (gen_corr_wts: zero-patches, signed, member-total-zero, one-patch,
all-zero-bin) fresh, in n(z) triples and after call histories.  Where a total is exactly zero the term is undefined and the
model requires nothing of it; everything that is defined (the other bins, the jackknife samples without the weightless
patch) is compared as before (Props: C04_masked_objects_weigh_nothing, C04_cancelling_cell_leaves_total,
C04_or_count_agrees_weighted / C04_positive_weights_no_weightless_cell / C04_or_count_refuted: "sum of weights or else the
number of objects" is indistinguishable on positive weights and wrong on a populated weightless cell).
(g) container algebra (props/c04_alg.py): the estimator applied to CorrFuncs that are the RESULT of +, sum(), +=, * scalar, .bins[...] /
.patches[...], to_file / from_file, pickle, copy / deepcopy, from_dict(to_dict()) - random expression trees over hand-built CorrFuncs with dd
and EVERY non-empty subset of {dr, rd, rr} (all profiles above) and over the CorrFuncs of several scales of real measurements; the
expression is evaluated role by role in Coq on the raw arrays of the leaves (Model/CorrAlgebra.v: cexpr, eval, c04_alg_case, c04_alg_nz_case):
the result must hold the same terms in the same roles (dd stays dd, rr stays rr, missing stays missing), store the role-wise combined
arrays, and sample() / RedshiftData.from_corrfuncs must be the documented estimator of the combined counts; operands that hold different
roles or different sums of weights must be refused (Props: C04_algebra_expression_keeps_roles, C04_algebra_sum_refuses_mismatch,
C04_sample_of_sum, C04_sample_of_multiple, C04_term_of_sum / _multiple / _bin_selection, C04_positional_rebinding_id_iff_prefix /
_agrees_prefix / _refuted: re-binding the present counts positionally is invisible on dd+dr, dd+dr+rd and complete CorrFuncs).
(h) many patches (props/c04_big.py): every family above holds 2-7 patches.  CorrFuncs of 100 .. 400 patches (thorough: up to 2000) -
hand-built with sparse synthetic counts that have non-zero pairs in the rows / columns next to 127, 181, 255, 361 and on the flat positions
i * N + j next to 2^7, 2^8, 2^15, 2^16, 2^17, and measured by crosscorrelate / autocorrelate on catalogs of 150 .. 700 patches whose patch ids are a
permutation of their positions - are taken through to_file / from_file, pickle, deepcopy, copy, from_dict(to_dict()), +, sum(), * scalar, .bins[...]
and .patches[item] with item a list, a range, a slice, a mask or an index array of EVERY integer dtype (int8 .. uint64, negative entries), then
sampled.  The harness keeps its own sparse copy of what every container must hold (python integers only), compares it after every operation with
what the implementation stores, reads every file back itself with h5py, and hands the sparse copy with sample().data / .samples to Coq
(Model/PairIndex.v: c04_big_case, the estimator model evaluated in one pass over the pair list; Props: C04_flat_index_injective,
C04_flat_index_fits_below / _wraps_from, C04_flat16_fits_181 / _wraps_from_182 / _lands_on_other_pair / _invisible_at_256, C04_sparse_roundtrip /
_wrapped_refuted, C04_sparse_sample_is_recount, C04_sparse_sums_are_dense, C04_big_normalisation_is_dense); n(z) and normalised() as in (a).
(i) legacy files (props/c04_legacy.py): every family above reads only files the library wrote itself.  The harness writes pair counts in
the layout of yaw < 3.0 (no `version` tag; groups count / total with keys, data, n_patches, totals1, totals2 of shape (patches, bins), binning
as (left, right) rows) for auto- and cross-correlations with every subset of {dr, rd, rr}, different total weights of the two samples, all
number profiles; CorrFunc.from_file must restore the numbers field by field with the roles of the two samples kept (Model/LegacyCounts.v:
decode, c04_legacy_case), sample() / RedshiftData.from_corrfuncs must be the estimator of the numbers written (c04_legacy_nz_case), and the
restored object must survive to_file / from_file in the current layout (Props: C04_legacy_decode_keeps_roles, C04_legacy_cross_denominator /
_cross_term, C04_legacy_first_twice_agrees_equal_totals / _refuted, C04_legacy_swapped_same_cross_denominator / _refuted,
C04_legacy_untransposed_square_refuted, C04_legacy_case_sound).
(b) symbolic traces of landy_szalay, davis_peebles, NormalisedCounts.sample_patch_sum,
RedshiftData.from_corrdata, HistData.normalised, RedshiftData.normalised are re-proved equal to
the documented formulas by `ring` (numerator / denominator / radicand separately) on every run.
"""
import math

import numpy as np

from lib import floatq as fq
from props import _jk_common as jk
from props import c04_alg
from props import c04_big
from props import c04_legacy
from props import c04_meas

ALLOWED_AXIOMS = ["sig_forall_dec", "sig_not_dec", "functional_extensionality_dep", "classic"]  # only under C04_nz_sqrt_form / _unique (reals)
TRUSTED = [
    "symbolic-trace translator (harness/props/_jk_common.py: operator-overloading symbols in numpy object arrays; "
    "assumes the traced functions branch only on structure, not on values)",
    "numpy kernels (einsum, sqrt, nansum, tile) are exercised, not modelled; the square root is checked in squared form "
    "(nz^2 dz^2 w_ss w_pp = w_sp^2 within 2^-47 relative, sign of w_sp) on exact rational values of the implementation's floats",
    "estimator values are compared with the forward error bound 2^-48 * (|dd|+|dr|+|rd|+|rr|)/|rr| (resp. (|dd|+|mixed|)/|mixed|)",
    "measurements: the pair counts themselves (which pairs lie inside the scale cut) are taken from the measurement (C01 is about them); "
    "n(z) of measured CorrFuncs is compared with the exact model values in squared form with the first-order bound "
    "4 (2|a| e_a + e_a^2 + a^2 (e_s/|s| + e_p/|p|) + 4 * 2^-48 a^2), e = 2^-48 * forward scale of the estimator; python-side bin membership "
    "(c04_meas.gen_member) shapes and labels generated inputs and words the reports, never a verdict",
    "container algebra: an index expression (int, slice, list, integer array, mask, iteration) is resolved to positions by numpy's own indexing "
    "of arange(n); the expression handed to Coq is built from the generated tree, never from what the implementation returned; the python-side "
    "comparison of the roles held after every operation (c04-algebra-roles-changed:<op>) uses only getattr(cf, role) is None",
    "many patches: the harness' own sparse containers (props/c04_big.py: dicts keyed by python-integer pairs; +, * scalar, patch and bin selection "
    "on them), its h5py reader of CorrFunc files, its brute-force pair count of the measured cross-correlations and the literal helpers of the "
    "shard header (pe / wr / fl: binary indices, numerators over a power of two, (sign, mantissa as primitive integer, exponent) of a float) are "
    "harness code; an index expression is resolved to positions with python integers, numpy is asked only whether it accepts the spelling",
] + c04_legacy.TRUSTED
ASSUMPTIONS = [
    "where an exact denominator is zero (or the radicand is not positive) the documented formula is undefined: the "
    "implementation's non-finite output is accepted and nothing else is compared",
    "combinations of pair counts for which the code defines no estimator (rr without dr) are compared only as 'raises'",
    "RedshiftData.normalised(target=...) (a scipy fit) is not covered",
    "measurements: the records handed to the model are the rows handed to Catalog.from_dataframe grouped by their named patch (C02: the "
    "catalog stores exactly these), patch ids 0..P-1; redshifts, edges and weights are dyadic rationals with few bits and rweight is off, so "
    "pair counts and weight sums are exact; every binned sample holds at least one object inside the binning in every patch (otherwise the "
    "pinned commit stops at the build_trees defect that C10 probes) and its objects are placed symmetrically about the patch centre with "
    "equal weights so that the implementation's patch-consistency check accepts the catalogs; a catalog in which some patch has total "
    "weight 0 (Catalog.from_dataframe(patch_name=...) stops in np.average: no weighted centre exists) or symmetric partners of different "
    "weight is created with patch_centers = the nominal centres instead (neighbouring centres >= 3/32 deg apart, objects <= 1/32 deg from "
    "their centre, so nearest-centre assignment is the named patch; the number of records per patch is asserted); weights are dyadic with "
    "at most 8 bits, of either sign or zero; a refusal (InconsistentPatchesError) is "
    "counted, not reported, and more than 20% refusals break an obligation; max_workers = 1 (the order of arrival of patch-pair results is C10's)",
    "container algebra: both operands of every generated sum hold the same roles, binning, patches and sums of weights (other operands are "
    "generated only as refusals: an exception is required, its type is not); selections keep >= 2 patches (distinct) and >= 1 bin, bins are "
    "selected contiguously in ascending order; scalars are dyadic (python / numpy floats and ints), so every stored number of the result "
    "is exact and must EQUAL the model value; sum() is called with a start value (CorrFunc has no __radd__: sum(cfs) without one raises "
    "TypeError on the unchanged tree); n(z) of expressions is compared with the exact model values under the first-order bound of the measurements",
    "many patches: counts and weights are small dyadic numbers (every float64 sum is exact); the two weight vectors of an autocorrelation container "
    "are one and the same; patch selections are distinct positions; sums take operands with equal sums of weights; measured catalogs place objects "
    "symmetrically about their patch centre (the patch-consistency check accepts them), neighbouring patches 1/8 deg apart on the equator, scale cut "
    "0.5 .. 10 arcmin, so every pair is inside or outside the cut by more than 5 %; the autocorrelation pair counts of a measurement are taken as "
    "measured (the cross-correlation ones are recounted)",
    "call histories consist of the public methods listed in _jk_common.CF_OBS / SD_OBS with valid arguments and of "
    "set_patch_pair with in-range patch indices and one value per bin; arrays handed out by the containers are only "
    "read by the harness, never written; a call that raises is recorded and skipped",
] + c04_legacy.ASSUMPTIONS
RULE = ("cases = (subset of dr/rd/rr, auto|cross, bins, patches, all array entries) for estimators; triple of CorrFuncs for "
        "n(z); (container kind, binning, data, samples) for normalisation; distinct by all entries; non-trivial when every "
        "denominator is non-zero so that the full formula is compared (for 'raises' cases: always); history cases are "
        "additionally distinct by the list of calls made before the compared call; magnitude cases (kind label .../mag:<profile>) "
        "are the same kinds of case on power-of-two scaled arrays, the histogram rr-magnitude/* says which decades of the "
        "normalised rr were reached; measurement cases (kind meas/...) = (closed side, edges, patch centre gaps, scales, per sample: weight "
        "column, per-patch (redshift, weight, offset) lists, which CorrFunc of the measurement, which of its pair counts), one evaluation per "
        "CorrFunc and one per redshift estimate; non-trivial when the output is finite and some (patch, bin) cell is empty in one sample of a "
        "container and populated in its partner (the inputs on which a stored weight could depend on the partner sample) or some populated "
        "cell weighs exactly nothing in a bin whose total weight is not zero (histogram meas:populated-cell-of-total-weight-zero-...); "
        "weight cases (kind label .../mag:weights:<profile>) are hand-built containers whose per-patch weights are zero, negative or cancelling; "
        "algebra cases (kind alg/<built|measured>/<auto|cross>/<roles>/<profile>) = (leaf arrays, expression tree with all index expressions and "
        "scalars), non-trivial when the sampled result is finite (or no estimator is defined for the roles: 'raises' is compared); histogram "
        "alg-op/* counts the operations performed, alg-tree-with/* the trees containing each kind of node; many-patches cases (kind big/...) = "
        "(generator description: seed, patches, bins, roles, density; route of operations with all positions), non-trivial when the sampled result "
        "is finite; histogram big-patches/* = patches held by the sampled container, big-nonzero-pair-beyond-row-or-column/* = cases with a non-zero "
        "pair beyond that row or column, big-op/* = operations performed; " + c04_legacy.RULE)


def est_defined(sub):
    return ("dr" in sub) if "rr" in sub else ("dr" in sub or "rd" in sub)


# ----------------------------------------------------------------------------- handlers
def h_corr(ctx):
    def h(c, case, replay):
        sub = jk.subset_of(replay["spec"])
        raised = replay["raised"]
        if raised is not None:          # code = [not est_defined]
            ctx.fail("c04-sample-raises", "CorrFunc.sample() raises %s for pair counts dd+{%s}, for which the documented "
                     "estimator is defined" % (raised, ",".join(sub)), replay, case=case)
            return
        if not est_defined(sub):
            ctx.disagree("c04_corr_case:model-expects-raise", case, dict(code=c, replay=replay))
            return
        if c & 16:
            ctx.fail("c04-estimator-choice-depends-on-values", "CorrFunc.sample().data for dd+{%s}: random-random counts are present "
                     "(normalised rr per bin: %s) but the value is not (DD-DR-RD+RR)/RR; it is the estimator applied when rr is "
                     "absent (DD/RD-1 resp. DD/DR-1) in every bin where that is defined: the choice of estimator depends on the "
                     "values of the pair counts, not only on which are present (code %d)"
                     % (",".join(sub), rr_terms_text(replay), c), replay, case=case)
        elif c & 2:
            ctx.fail("c04-estimator-value", "CorrFunc.sample().data is not the documented estimator of total/(W1*W2) terms for "
                     "dd+{%s} (code %d)" % (",".join(sub), c), replay, case=case)
        if c & 4:
            ctx.fail("c04-estimator-samples", "CorrFunc.sample().samples are not computed by the same estimator as the value "
                     "for dd+{%s} (code %d)" % (",".join(sub), c), replay, case=case)
        if c & 1:
            ctx.disagree("c04_corr_case", case, dict(code=c, replay=replay))
    return h


def h_nz(ctx):
    def h(c, case, replay):
        if c & 1:
            ctx.fail("c04-nz-formula-value", "RedshiftData.from_corrfuncs().data is not w_sp/sqrt(dz^2 w_ss w_pp) "
                     "(absent autocorrelations = 1) (code %d)" % c, replay, case=case)
        if c & 2:
            ctx.fail("c04-nz-formula-samples", "RedshiftData.from_corrfuncs().samples are not computed by the formula used for "
                     "the value (code %d)" % c, replay, case=case)
    return h


def h_norm(ctx):
    def h(c, case, replay):
        what = "HistData" if replay["spec"]["hist"] else "RedshiftData"
        if c & 2:
            ctx.fail("c04-normalised-integral", "%s.normalised(): the integral of the result over the binning is not 1 "
                     "(code %d)" % (what, c), replay, case=case)
        if c & 4:
            ctx.fail("c04-normalised-samples", "%s.normalised(): samples are not scaled by the factor applied to the data "
                     "(code %d)" % (what, c), replay, case=case)
        if c & 1:
            ctx.disagree("c04_norm_case", case, dict(code=c, replay=replay))
    return h


def h_hist(ctx):
    base = h_corr(ctx)

    def h(c, case, replay):
        if c & 8:
            ctx.fail("c04-state-after-history", "after the calls [%s] the arrays stored in the CorrFunc are not the ones its "
                     "constructor arguments and set_patch_pair calls define (Model: run_calls)" % calls_text(replay["history"]),
                     replay, case=case)
        if c & 23:
            base(c & 23, case, replay)
    return h


def calls_text(hist):
    return ", ".join((op.get("t", "") + ":" if op.get("t") else "") + jk.op_label(op) for op in hist)


def noter(ctx, replay, what):
    """reactions to what a history runner observes"""
    def note(event, idx, op, detail):
        label = jk.op_label(op)
        if event == "raised":
            ctx.bump("hist-call-raised/%s" % label)
            if ctx.extra.setdefault("hist_call_raised_examples", {}).get(label) is None:
                ctx.extra["hist_call_raised_examples"][label] = detail[:200]
        elif event == "changed":
            ctx.fail("c04-stored-state-changed-by:%s" % label, "the arrays stored in the %s differ bit-wise from what its constructor "
                     "arguments%s define after call #%d (%s) of the history [%s]: a read-only public method stores into the container"
                     % (what, " and set_patch_pair calls" if what == "CorrFunc" else "", idx, label, calls_text(replay["history"])), replay)
        elif event == "twin-changed":
            ctx.fail("c04-argument-changed-by:%s" % label, "the arrays stored in the second %s (passed as argument to ==, "
                     "is_compatible, +, -) differ bit-wise from its constructor arguments after call #%d (%s) of the history [%s]"
                     % (what, idx, label, calls_text(replay["history"])), replay)
    return note


# ----------------------------------------------------------------------------- single cases
def case_corr(ctx, batch, spec):
    sub = jk.subset_of(spec)
    auto = spec["kinds"]["dd"]["auto"]
    raised = None
    try:
        cd = jk.quiet(jk.build_corrfunc(spec["edges"], spec["kinds"]).sample)
        impl = "(Some (%s, %s))" % (jk.oqlist(cd.data), jk.oqmat(cd.samples))
        full = jk.all_finite(cd.data) and jk.all_finite(cd.samples)
    except Exception as e:  # noqa: BLE001
        raised = type(e).__name__
        impl = "None"
        full = True
    batch.add("c04_corr_case_x %s %s" % (jk.corr_args(spec), impl), h_corr(ctx), dict(kind="corr", spec=spec, raised=raised))
    ctx.count(key=("corr", repr(spec)), nontrivial=full,
              kind="corr/%s/%s%s%s" % ("auto" if auto else "cross", "+".join(sub), "/raises" if raised else "", mag_suffix(spec)))
    note_magnitudes(ctx, spec)
    if raised is None:
        ctx.sample(dict(kind="corr", subset=sub, auto=auto, data=np.asarray(cd.data).tolist()), limit=3)
        if not full:
            ctx.bump("impl_nonfinite_entries")


def case_nz(ctx, batch, norm_batch, spec):
    try:
        dz, cross, ref, unk, nz = jk.run_nz(spec)
    except Exception as e:  # noqa: BLE001
        ctx.count(key=("nz-raised", repr(spec)), kind="nz/raised")
        ctx.fail("c04-raises:%s" % type(e).__name__, "RedshiftData.from_corrfuncs raised %s: %s" % (type(e).__name__, e),
                 dict(kind="nz", spec=spec))
        return
    batch.add(jk.nz_term(dz, cross, ref, unk, nz), h_nz(ctx), dict(kind="nz", spec=spec))
    ctx.count(key=("nz", repr(spec)), nontrivial=jk.all_finite(nz.data),
              kind="nz/%s%s%s" % ("ref" if ref is not None else "", "+unk" if unk is not None else "", mag_suffix(spec)))
    ctx.sample(dict(kind="nz", dz=[float(x) for x in dz], w_sp=np.asarray(cross.data).tolist(),
                    nz=np.asarray(nz.data).tolist()), limit=5)
    # the estimate, normalised
    norm_case_obj(ctx, norm_batch, nz, False, dict(kind="norm", spec=dict(hist=False, edges=spec["cross"]["edges"],
                  data=jk.tolist(nz.data) if jk.all_finite(nz.data) else None, samples=None, origin="from_corrfuncs")))


def norm_case_obj(ctx, batch, obj, hist, replay):
    if np.isinf(np.asarray(obj.data, dtype=float)).any():
        ctx.bump("norm_skipped_infinite_input")      # nansum keeps +-inf: no finite integral to normalise
        return
    try:
        out = jk.quiet(obj.normalised)
    except Exception as e:  # noqa: BLE001
        ctx.fail("c04-raises:%s" % type(e).__name__, "%s.normalised() raised %s: %s" % (type(obj).__name__, type(e).__name__, e), replay)
        return
    term = "c04_norm_case %s %s %s %s %s %s %s" % (
        fq.b(hist), fq.qlist(obj.binning.edges), fq.qlist(obj.binning.dz), jk.oqlist(obj.data), jk.oqmat(obj.samples),
        jk.oqlist(out.data), jk.oqmat(out.samples))
    batch.add(term, h_norm(ctx), replay)
    with np.errstate(all="ignore"):
        norm = float(np.nansum(np.asarray(obj.binning.dz) * np.asarray(obj.data, dtype=float)))
    ctx.count(key=("norm", hist, repr(np.asarray(obj.data).tolist()), repr(np.asarray(obj.samples).tolist()),
                   repr(list(obj.binning.edges))), nontrivial=norm != 0.0,
              kind="norm/%s%s" % ("hist" if hist else "nz", mag_suffix(replay.get("spec", {}))))


def case_norm(ctx, batch, spec):
    from yaw.binning import Binning
    cls = jk.HistData if spec["hist"] else jk.RedshiftData
    obj = cls(Binning(spec["edges"], closed="right"), np.array(spec["data"], dtype=float), np.array(spec["samples"], dtype=float))
    norm_case_obj(ctx, batch, obj, spec["hist"], dict(kind="norm", spec=spec))


# ----------------------------------------------------------------------------- cases after a call history
def case_corr_hist(ctx, batch, spec, hist, mode="direct"):
    """CorrFunc.sample() after the calls of `hist` (mode 'via_file': of the CorrFunc written to and re-read from a
    file after the calls) against the model state, against a fresh equal CorrFunc, and the stored arrays"""
    import os
    from yaw import CorrFunc
    edges, kinds = spec["edges"], spec["kinds"]
    replay = dict(kind="corr-hist", spec=spec, history=hist, mode=mode, raised=None)
    env = dict(cf=jk.build_corrfunc(edges, kinds), twin=jk.build_corrfunc(edges, kinds), dir=ctx.workdir)
    run = jk.CfHistory(env, edges, kinds, noter(ctx, replay, "CorrFunc"))
    for idx, op in enumerate(hist):
        run.call(idx, op)
        ctx.bump("hist-call/%s" % jk.op_label(op))
    final = run.final()
    subject = env["cf"]
    if mode == "via_file":
        path = os.path.join(ctx.workdir, "subject.hdf")
        try:
            env["cf"].to_file(path)
            subject = CorrFunc.from_file(path)
        except Exception:  # noqa: BLE001
            ctx.bump("hist-via-file-refused")
            replay["mode"] = mode = "direct"
        finally:
            if os.path.exists(path):
                os.remove(path)
    try:
        cd = jk.quiet(subject.sample)
        impl = "(Some (%s, %s))" % (jk.oqlist(cd.data), jk.oqmat(cd.samples))
        full = jk.all_finite(cd.data) and jk.all_finite(cd.samples)
    except Exception as e:  # noqa: BLE001
        cd, impl, full = None, "None", True
        replay["raised"] = type(e).__name__
    run.check(len(hist), dict(op="cf.sample"))
    try:
        fresh = jk.quiet(jk.build_corrfunc(edges, final).sample)
    except Exception:  # noqa: BLE001
        fresh = None
    if (cd is None) != (fresh is None):
        ctx.fail("c04-sample-raises-depends-on-call-history", "CorrFunc.sample() %s after the calls [%s] but %s on a freshly built "
                 "CorrFunc with the same stored pair counts" % ("raises" if cd is None else "returns", calls_text(hist),
                                                                "raises" if fresh is None else "returns"), replay)
    elif cd is not None and not (jk.same_bits(cd.data, fresh.data) and jk.same_bits(cd.samples, fresh.samples)):
        ctx.fail("c04-sample-depends-on-call-history", "CorrFunc.sample() after the calls [%s]%s differs from sample() of a freshly "
                 "built CorrFunc with the same pair counts and weights: the estimate is not a function of the pair counts"
                 % (calls_text(hist), " (written to and re-read from a file)" if mode == "via_file" else ""), replay)
    term = jk.hist_case_term(spec["N"], kinds, run.done, jk.cf_state_plain(subject), impl)
    assert term.startswith("c04_hist_case ")
    batch.add("c04_hist_case_x " + term[len("c04_hist_case "):], h_hist(ctx), replay)
    sub = jk.subset_of(spec)
    ctx.count(key=("corr-hist", repr(spec), repr(hist), mode), nontrivial=full,
              kind="corr-hist/%s/%s/%s%s%s" % ("auto" if kinds["dd"]["auto"] else "cross", "+".join(sub), mode,
                                               "/raises" if cd is None else "", mag_suffix(spec)))
    if cd is not None:
        ctx.sample(dict(kind="corr-hist", subset=sub, history=calls_text(hist), mode=mode, data=np.asarray(cd.data).tolist()), limit=7)


def case_nz_hist(ctx, batch, spec, hist):
    """RedshiftData.from_corrfuncs(cross, ref, unk) after calls on the three CorrFuncs (op['t'] = which one),
    against the formula on the CorrData of freshly built equal CorrFuncs"""
    replay = dict(kind="nz-hist", spec=spec, history=hist)
    names = [t for t in ("cross", "ref", "unk") if spec[t] is not None]
    envs = {t: dict(cf=jk.build_corrfunc(spec[t]["edges"], spec[t]["kinds"]), twin=jk.build_corrfunc(spec[t]["edges"], spec[t]["kinds"]),
                    dir=ctx.workdir) for t in names}
    runs = {t: jk.CfHistory(envs[t], spec[t]["edges"], spec[t]["kinds"], noter(ctx, replay, "CorrFunc")) for t in names}

    def cfs(which):
        return [envs[t][which] if t in envs else None for t in ("cross", "ref", "unk")]

    def all3(env, op):
        jk.RedshiftData.from_corrfuncs(*cfs("cf"))
    for idx, op in enumerate(hist):
        runs[op["t"]].call(idx, op, all3 if op["op"] == "nz.from_corrfuncs3" else None)
        for t in names:
            if t != op["t"]:
                runs[t].check(idx, op)
        ctx.bump("hist-call/%s" % jk.op_label(op))
    try:
        nz = jk.quiet(jk.RedshiftData.from_corrfuncs, *cfs("cf"))
    except Exception as e:  # noqa: BLE001
        nz, err = None, e
    for t in names:
        runs[t].check(len(hist), dict(op="nz.from_corrfuncs3"))
    fresh = [None if spec[t] is None else jk.build_corrfunc(spec[t]["edges"], runs[t].final()) for t in ("cross", "ref", "unk")]
    try:
        fnz = jk.quiet(jk.RedshiftData.from_corrfuncs, *fresh)
        fcd = [None if c is None else jk.quiet(c.sample) for c in fresh]
    except Exception:  # noqa: BLE001
        ctx.count(key=("nz-hist-raised", repr(spec)), kind="nz-hist/fresh-raised")
        if nz is not None:
            ctx.fail("c04-nz-raises-depends-on-call-history", "from_corrfuncs returns after the calls [%s] but raises on freshly built "
                     "equal CorrFuncs" % calls_text(hist), replay)
        return
    if nz is None:
        ctx.count(key=("nz-hist-raised", repr(spec), repr(hist)), kind="nz-hist/raised")
        ctx.fail("c04-raises:%s" % type(err).__name__, "RedshiftData.from_corrfuncs raised %s after the calls [%s]: %s"
                 % (type(err).__name__, calls_text(hist), err), replay)
        return
    if not (jk.same_bits(nz.data, fnz.data) and jk.same_bits(nz.samples, fnz.samples)):
        ctx.fail("c04-nz-depends-on-call-history", "RedshiftData.from_corrfuncs after the calls [%s] differs from the result on freshly "
                 "built CorrFuncs with the same pair counts and weights" % calls_text(hist), replay)
    batch.add(jk.nz_term(list(fresh[0].binning.dz), fcd[0], fcd[1], fcd[2], nz), h_nz(ctx), replay)
    ctx.count(key=("nz-hist", repr(spec), repr(hist)), nontrivial=jk.all_finite(nz.data),
              kind="nz-hist/%s%s%s" % ("ref" if fresh[1] is not None else "", "+unk" if fresh[2] is not None else "", mag_suffix(spec)))


def case_norm_hist(ctx, batch, spec, hist):
    """.normalised() after calls on the HistData / RedshiftData, against the model on the constructor arguments"""
    from yaw.binning import Binning
    cls = jk.HistData if spec["hist"] else jk.RedshiftData
    what = "HistData" if spec["hist"] else "RedshiftData"
    replay = dict(kind="norm-hist", spec=spec, history=hist)

    def mk():
        return cls(Binning(spec["edges"], closed="right"), np.array(spec["data"], dtype=float), np.array(spec["samples"], dtype=float))
    env = dict(sd=mk(), twin=mk(), dir=ctx.workdir)
    fresh = mk()
    check = jk.run_sd_history(env, hist, noter(ctx, replay, what))
    for op in hist:
        ctx.bump("hist-call/%s" % jk.op_label(op))
    try:
        fout = jk.quiet(fresh.normalised)
    except Exception:  # noqa: BLE001
        ctx.count(key=("norm-hist-raised", repr(spec)), kind="norm-hist/fresh-raised")
        return
    try:
        out = jk.quiet(env["sd"].normalised)
    except Exception as e:  # noqa: BLE001
        ctx.fail("c04-raises:%s" % type(e).__name__, "%s.normalised() raised %s after the calls [%s]: %s"
                 % (what, type(e).__name__, calls_text(hist), e), replay)
        return
    check(len(hist), dict(op="sd.normalised"))
    if not (jk.same_bits(out.data, fout.data) and jk.same_bits(out.samples, fout.samples)):
        ctx.fail("c04-normalised-depends-on-call-history", "%s.normalised() after the calls [%s] differs from normalised() of a freshly "
                 "built container with the same data and samples" % (what, calls_text(hist)), replay)
    term = "c04_norm_case %s %s %s %s %s %s %s" % (
        fq.b(spec["hist"]), fq.qlist(fresh.binning.edges), fq.qlist(fresh.binning.dz), jk.oqlist(fresh.data), jk.oqmat(fresh.samples),
        jk.oqlist(out.data), jk.oqmat(out.samples))
    batch.add(term, h_norm(ctx), replay)
    with np.errstate(all="ignore"):
        norm = float(np.nansum(np.asarray(fresh.binning.dz) * np.asarray(fresh.data, dtype=float)))
    ctx.count(key=("norm-hist", repr(spec), repr(hist)), nontrivial=norm != 0.0,
              kind="norm-hist/%s%s" % ("hist" if spec["hist"] else "nz", mag_suffix(spec)))


def gen_nz_history(rng, spec, lo=1, hi=6):
    names = [t for t in ("cross", "ref", "unk") if spec[t] is not None]
    out = []
    for _ in range(rng.randint(lo, hi)):
        t = rng.choice(names)
        if rng.random() < 0.15:
            out.append(dict(op="nz.from_corrfuncs3", t=t))
        else:
            out.append(dict(jk.gen_cf_op(rng, spec[t], allow_set=rng.random() < 0.3), t=t))
    return out


def histories(ctx, b_hist, b_nzh, b_normh):
    rng = ctx.rng
    full = ("dr", "rd", "rr")
    # every observer (and every use of what it returns) once, on auto and cross containers with all four pair counts
    for auto in (False, True):
        spec = gen_corr(rng, full, auto, small=True)
        for hist in jk.cf_single_op_histories(rng, spec):
            case_corr_hist(ctx, b_hist, spec, hist)
    for hist_kind in (True, False):
        spec = gen_norm(rng, hist_kind)
        B = len(spec["edges"]) - 1
        for hist in jk.sd_single_op_histories(rng, B):
            case_norm_hist(ctx, b_normh, spec, hist)
    spec = jk.gen_nz_spec(rng, True)
    while spec["ref"] is None or spec["unk"] is None:
        spec = jk.gen_nz_spec(rng, True)
    for t in ("cross", "ref", "unk"):
        for name in ("nc.get_array", "cf.to_dict", "cf.sample", "nc.sample_patch_sum", "cf.patches", "nc.mul"):
            then = "get_array" if name in jk.CF_DERIVING else None
            case_nz_hist(ctx, b_nzh, spec, [dict(jk.gen_cf_op(rng, spec[t], name=name, then=then), t=t)])
    case_nz_hist(ctx, b_nzh, spec, [dict(op="nz.from_corrfuncs3", t="cross")] * 2)
    # magnitudes: all four pair counts far from 1, after one read-only call, sampled directly and through a file
    for profile in ("tiny", "survey", "rr-zero-bins"):
        for auto in (False, True):
            spec = gen_corr_mag(rng, full, auto, small=True, profile=profile)
            op = jk.gen_cf_op(rng, spec, name=rng.choice(["nc.get_array", "nc.sample_patch_sum", "cf.sample", "cf.to_dict"]))
            case_corr_hist(ctx, b_hist, spec, [op], "via_file")
            case_corr_hist(ctx, b_hist, spec, [op], "direct")
    # weights that are not positive, after one read-only call, sampled directly and through a file
    for profile in ("signed", "member-total-zero"):
        for auto in (False, True):
            spec = gen_corr_wts(rng, full, auto, small=True, profile=profile)
            op = jk.gen_cf_op(rng, spec, name=rng.choice(["nc.get_array", "nc.sample_patch_sum", "cf.sample", "cf.to_dict"]))
            case_corr_hist(ctx, b_hist, spec, [op], "via_file" if auto else "direct")
    # random sequences, interleaved with set_patch_pair; a quarter of them sampled through a file written afterwards
    small = not ctx.quick()
    for _ in range(ctx.n(40, 500)):
        sub = rng.choice(jk.SUBSETS)
        few = True if ctx.quick() else rng.random() < 0.7
        if rng.random() < 0.35:
            spec = gen_corr_mag(rng, sub, rng.random() < 0.5, small=few)
        elif rng.random() < 0.2:
            spec = gen_corr_wts(rng, sub, rng.random() < 0.5, small=few)
        else:
            spec = gen_corr(rng, sub, rng.random() < 0.5, small=few)
        # set_patch_pair stores small dyadic numbers: next to counts scaled by 2^+-10.. the float sums would round
        allow_set = rng.random() < 0.5 and not (spec.get("mag") or {}).get("counts_scaled")
        hist = jk.gen_cf_history(rng, spec, allow_set=allow_set)
        case_corr_hist(ctx, b_hist, spec, hist, "via_file" if rng.random() < 0.25 else "direct")
    for _ in range(ctx.n(20, 250)):
        few = ctx.quick() or (small and rng.random() < 0.7)
        spec = gen_nz_spec_mag(rng, few) if rng.random() < 0.3 else jk.gen_nz_spec(rng, few)
        case_nz_hist(ctx, b_nzh, spec, gen_nz_history(rng, spec))
    for _ in range(ctx.n(20, 250)):
        for hist_kind in (True, False):
            spec = gen_norm_mag(rng, hist_kind) if rng.random() < 0.3 else gen_norm(rng, hist_kind)
            B = len(spec["edges"]) - 1
            case_norm_hist(ctx, b_normh, spec, [jk.gen_sd_op(rng, B) for _ in range(rng.randint(1, 5))])


# ----------------------------------------------------------------------------- generators
def gen_corr(rng, sub, auto, small=False):
    B, N = jk.pick_shape(rng, small)
    mode = rng.choice(["dense", "dense", "sparse", "dyadic", "binary"])
    return jk.corr_plain(jk.gen_binning(rng, B), N, jk.gen_corrfunc(rng, B, N, auto, mode, sub))


# ----------------------------------------------------------------------------- magnitudes
# Normalised terms are pair fractions: total pair count / product of total weights.  The generators above keep them
# between 1e-3 and 1e+2.  Here counts and weights are multiplied by powers of two (exact in float64 and in Q), per bin
# and per member, so that the terms lie anywhere between 1e-25 and 1e+24, and members get exact-zero counts.
MAG_PROFILES = ("tiny", "small", "survey", "huge", "mixed", "scaled-counts", "rr-zero-bins", "member-zero")
REGIONS = ("tiny", "small", "huge", "plain")


def region_exps(rng, region):
    """(counts, weights 1, weights 2) exponents of one bin of one pair-count member"""
    if region == "tiny":      # total weights 2^20..2^40 in both samples, small dyadic counts: terms below 1e-9
        return rng.choice([0, 0, 0, -4, 3]), rng.randint(20, 40), rng.randint(20, 40)
    if region == "small":     # terms of 1e-12 .. 1e-3
        tot = rng.randint(12, 36)
        a = rng.randint(0, tot)
        return 0, a, tot - a
    if region == "huge":      # tiny weights: terms of 1e+5 .. 1e+24
        return rng.choice([0, 0, 10]), rng.randint(-30, -8), rng.randint(-30, -8)
    return 0, 0, 0


def scale_pc(rng, p, exps, ragged=False):
    """multiply bin b of the counts / weights of p by 2^exps[b][0..2]; weights shared by both samples of an
    autocorrelation stay shared; ragged: the patches of a bin additionally differ by factors 2^0..2^6"""
    same = bool(p["auto"]) and np.array_equal(p["w1"], p["w2"])
    N = p["w1"].shape[1]
    for b, (ec, e1, e2) in enumerate(exps):
        p["counts"][b] *= math.ldexp(1.0, ec)
        for w, e in ((p["w1"], e1), (p["w2"], e2)):
            for i in range(N):
                w[b, i] *= math.ldexp(1.0, e + (rng.randint(0, 6) if ragged else 0))
    if same:
        p["w2"] = p["w1"].copy()


def zero_bins(rng, B, everywhere=False):
    """a non-empty set of bins; a proper subset when there are two or more bins unless `everywhere`"""
    if everywhere or B == 1:
        return list(range(B))
    bins = [b for b in range(B) if rng.random() < 0.5]
    if not bins or len(bins) == B:
        bins = sorted(rng.sample(range(B), rng.randint(1, B - 1)))
    return bins


def gen_corr_mag(rng, sub, auto, small=False, profile=None, shape=None, edges=None):
    profile = profile or rng.choice(MAG_PROFILES)
    B, N = shape or jk.pick_shape(rng, small)
    if shape is None and B == 1 and profile in ("mixed", "rr-zero-bins"):
        B = rng.choice([2, 3, 4])
    mode = rng.choice(["dense", "dense", "sparse", "dyadic", "binary"])
    d = jk.gen_corrfunc(rng, B, N, auto, mode, sub)
    members = [k for k in jk.ALLK if d[k] is not None]
    base = profile
    if profile == "rr-zero-bins":
        base = rng.choice(["tiny", "small", "mixed", "survey", "plain"])
    elif profile == "member-zero":
        base = rng.choice(["plain", "tiny", "small", "survey"])
    exps = {k: [(0, 0, 0)] * B for k in members}
    if base in ("tiny", "small", "huge"):
        exps = {k: [region_exps(rng, base) for _ in range(B)] for k in members}
    elif base == "mixed":           # every bin of every member in a region of its own
        exps = {k: [region_exps(rng, rng.choice(REGIONS)) for _ in range(B)] for k in members}
    elif base == "survey":          # one scale per catalog and bin, randoms denser than data
        exps = {k: [] for k in members}
        for _ in range(B):
            eD1 = rng.randint(8, 30)
            eD2 = eD1 if auto else rng.randint(8, 30)
            eR1 = eD1 + rng.randint(0, 10)
            eR2 = eR1 if auto else eD2 + rng.randint(0, 10)
            for k, e in (("dd", (0, eD1, eD2)), ("dr", (0, eD1, eR2)), ("rd", (0, eR1, eD2)), ("rr", (0, eR1, eR2))):
                if k in exps:
                    exps[k].append(e)
    elif base == "scaled-counts":   # a common factor of all normalised terms of a bin (C04_estimate_scale_invariant)
        per_bin = [rng.choice([-1, 1]) * rng.randint(10, 60) for _ in range(B)]
        exps = {k: [(e, 0, 0) for e in per_bin] for k in members}
    ragged = base in ("tiny", "small", "survey") and rng.random() < 0.3
    for k in members:
        scale_pc(rng, d[k], exps[k], ragged)
    zeroed = None
    if profile in ("rr-zero-bins", "member-zero"):
        if profile == "rr-zero-bins":
            k = "rr" if "rr" in sub else rng.choice([m for m in members if m != "dd"])
            bins = zero_bins(rng, B)
        else:
            k = rng.choice(members)
            bins = zero_bins(rng, B, everywhere=rng.random() < 0.5)
        for b in bins:
            d[k]["counts"][b] = 0.0
        zeroed = dict(member=k, bins=bins)
    spec = jk.corr_plain(edges if edges is not None else jk.gen_binning(rng, B), N, d)
    spec["mag"] = dict(profile=profile, base=base, ragged=ragged, zeroed=zeroed,
                       counts_scaled=any(abs(e[0]) > 8 for k in members for e in exps[k]))
    return spec


# ----------------------------------------------------------------------------- weights that are not positive
# A sample's total weight is the sum of whatever its weight column holds: patches that weigh nothing (masked objects),
# weights of both signs, one sample of one member whose weights cancel in some bins or in all (the term is undefined there
# and the model requires nothing of it, but every jackknife sample that is defined is compared), all weight in one patch.
WT_PROFILES = ("zero-patches", "signed", "member-total-zero", "one-patch", "all-zero-bin")


def gen_corr_wts(rng, sub, auto, small=False, profile=None, shape=None, edges=None):
    profile = profile or rng.choice(WT_PROFILES)
    B, N = shape or jk.pick_shape(rng, small)
    d = jk.gen_corrfunc(rng, B, N, auto, rng.choice(["dense", "dense", "dyadic", "binary"]), sub)
    members = [k for k in jk.ALLK if d[k] is not None]

    def sides(pc):
        """the weight arrays of a member to change: both when an autocorrelation shares them"""
        if bool(pc["auto"]) and np.array_equal(pc["w1"], pc["w2"]):
            return "shared"
        return rng.choice(["w1", "w2", "both"])

    def apply(pc, f):
        which = sides(pc)
        if which == "shared":
            f(pc["w1"])
            pc["w2"] = pc["w1"].copy()
        else:
            for name in (("w1", "w2") if which == "both" else (which,)):
                f(pc[name])

    def zero_row(w, b):
        if rng.random() < 0.5:
            w[b, :] = 0.0
        else:                           # both signs, cancelling exactly
            for i in range(N - 1):
                w[b, i] *= rng.choice([1.0, 1.0, -1.0])
            w[b, N - 1] = -float(w[b, :N - 1].sum())
    touched = None
    if profile == "zero-patches":
        for k in members:
            apply(d[k], lambda w: w.__imul__((np.array([[rng.random() < 0.5 for _ in range(N)] for _ in range(B)])).astype(float)))
    elif profile == "signed":
        for k in members:
            apply(d[k], lambda w: w.__imul__(np.array([[rng.choice([1.0, 1.0, 1.0, -1.0, -1.0]) for _ in range(N)] for _ in range(B)])))
    elif profile == "member-total-zero":
        k = rng.choice(members)
        bins = zero_bins(rng, B, everywhere=rng.random() < 0.4)
        apply(d[k], lambda w: [zero_row(w, b) for b in bins])
        touched = dict(member=k, bins=bins)
    elif profile == "one-patch":
        k = rng.choice(members)
        keep = rng.randrange(N)
        apply(d[k], lambda w: w.__imul__(np.array([[1.0 if i == keep else 0.0 for i in range(N)]] * B)))
        touched = dict(member=k, patch=keep)
    else:                               # every member weighs nothing in some bins
        bins = zero_bins(rng, B)
        for k in members:
            apply(d[k], lambda w: [zero_row(w, b) for b in bins])
        touched = dict(member="all", bins=bins)
    spec = jk.corr_plain(edges if edges is not None else jk.gen_binning(rng, B), N, d)
    spec["mag"] = dict(profile="weights:" + profile, touched=touched, counts_scaled=False)
    return spec


def gen_nz_spec_wts(rng, small=False):
    """jk.gen_nz_spec with the three CorrFuncs drawn from the weight profiles (one binning, one patch number)"""
    B, N = jk.pick_shape(rng, small)
    edges = jk.gen_binning(rng, B)
    defined = [sb for sb in jk.SUBSETS if "dr" in sb or ("rr" not in sb)]

    def one(auto):
        return gen_corr_wts(rng, rng.choice(defined), auto, shape=(B, N), edges=edges)
    return dict(cross=one(False), ref=one(True) if rng.random() < 0.7 else None, unk=one(True) if rng.random() < 0.5 else None,
                mag=dict(profile="nz-weights"))


def gen_nz_spec_mag(rng, small=False):
    """jk.gen_nz_spec with the three CorrFuncs drawn from the magnitude profiles (one binning, one patch number)"""
    B, N = jk.pick_shape(rng, small)
    edges = jk.gen_binning(rng, B)
    defined = [sb for sb in jk.SUBSETS if "dr" in sb or ("rr" not in sb)]

    def one(auto):
        return gen_corr_mag(rng, rng.choice(defined), auto, shape=(B, N), edges=edges)
    return dict(cross=one(False), ref=one(True) if rng.random() < 0.7 else None, unk=one(True) if rng.random() < 0.5 else None,
                mag=dict(profile="nz"))


def gen_norm_mag(rng, hist):
    """gen_norm with the data and the samples multiplied by one power of two, or by one power of two per bin"""
    spec = gen_norm(rng, hist)
    B = len(spec["edges"]) - 1
    # histograms of weights are as small as the weights are (2^-30) and as large as the catalog is

    def span():
        return rng.choice([-1, 1]) * rng.randint(10, 40)
    if rng.random() < 0.5:
        exps = [span()] * B
    else:
        exps = [span() if rng.random() < 0.7 else 0 for _ in range(B)]
    spec["data"] = [x * math.ldexp(1.0, e) for x, e in zip(spec["data"], exps)]
    spec["samples"] = [[x * math.ldexp(1.0, e) for x, e in zip(row, exps)] for row in spec["samples"]]
    spec["mag"] = dict(profile="norm", exps=exps)
    return spec


def mag_suffix(spec):
    return "/mag:%s" % spec["mag"]["profile"] if spec.get("mag") else ""


def rr_terms(spec):
    """normalised rr per bin as the documentation defines it (total pair count / product of total weights, half the
    squared total for an autocorrelation), in exact arithmetic; None where the denominator is zero or rr is absent"""
    from fractions import Fraction
    p = spec["kinds"].get("rr")
    if p is None:
        return None
    out = []
    for b in range(len(p["counts"])):
        tot = sum(Fraction(x) for row in p["counts"][b] for x in row)
        den = sum(Fraction(x) for x in p["w1"][b]) * sum(Fraction(x) for x in p["w2"][b])
        if p["auto"]:
            den = den / 2
        out.append(None if den == 0 else tot / den)
    return out


def rr_terms_text(replay):
    t = rr_terms(replay["spec"]) if replay.get("kind") in ("corr", "corr-hist") else None   # corr-hist: as constructed
    return "-" if t is None else ", ".join("undefined" if x is None else "%.3g" % float(x) for x in t)


def note_magnitudes(ctx, spec):
    """evidence: which decades of the normalised rr (largest bin) the run reached, and zero patterns"""
    t = rr_terms(spec)
    if t is None:
        return
    vals = [abs(float(x)) for x in t if x is not None]
    if not vals:
        ctx.bump("rr-magnitude/undefined")
        return
    zeros = sum(1 for v in vals if v == 0.0)
    if zeros == len(vals):
        ctx.bump("rr-magnitude/zero-in-all-bins")
        return
    if zeros:
        ctx.bump("rr-magnitude/zero-in-some-bins")
    top = max(vals)
    for name, lim in (("below-1e-16", 1e-16), ("1e-16..1e-12", 1e-12), ("1e-12..1e-8", 1e-8), ("1e-8..1e-4", 1e-4),
                      ("1e-4..1e+4", 1e4), ("1e+4..1e+12", 1e12)):
        if top < lim:
            ctx.bump("rr-magnitude/largest-bin-%s" % name)
            return
    ctx.bump("rr-magnitude/largest-bin-above-1e+12")


def gen_norm(rng, hist):
    B = rng.choice([1, 2, 3, 4])
    N = rng.choice([2, 3, 4, 7])
    edges = jk.gen_binning(rng, B)
    nan = float("nan")

    def val():
        if hist:
            return float(rng.choice([0, 0, 1, 2, 3, 5, 8, 13, 40])) if rng.random() < 0.7 else rng.randrange(0, 400) / 8.0
        if rng.random() < 0.12:
            return nan
        return rng.randrange(-200, 400) / 16.0
    return dict(hist=hist, edges=edges, data=[val() for _ in range(B)], samples=[[val() for _ in range(B)] for _ in range(N)])


def traces(ctx):
    jobs = []
    for B in (1, 2):
        jobs.append(("estimators B=%d" % B, lambda B=B: jk.trace_estimators(B)))
    for N in (2, 3, 4):
        for auto in (False, True):
            jobs.append(("NormalisedCounts N=%d auto=%s" % (N, auto), lambda N=N, auto=auto: jk.trace_nc(N, 1, auto)))
    for N, B in ((2, 1), (3, 2)):
        for use_ref in (False, True):
            for use_unk in (False, True):
                jobs.append(("from_corrdata N=%d B=%d ref=%s unk=%s" % (N, B, use_ref, use_unk),
                             lambda N=N, B=B, r=use_ref, u=use_unk: jk.trace_nz(N, B, r, u)))
    for hist in (True, False):
        for B in (1, 2, 3, 4):
            jobs.append(("%s.normalised B=%d" % ("HistData" if hist else "RedshiftData", B),
                         lambda B=B, hist=hist: jk.trace_normalised(2, B, hist)))
    jk.run_traces(ctx, jobs)


# ----------------------------------------------------------------------------- entry points
def run(ctx):
    rng = ctx.rng
    # container algebra over hand-built CorrFuncs first (needs no catalogs; evaluated in Coq at once)
    c04_alg.run_built(ctx)
    traces(ctx)
    ctx.log("traces done")
    b_corr = jk.Batch(ctx, "Cases_C04_corr", shard=30)
    b_nz = jk.Batch(ctx, "Cases_C04_nz", shard=40)
    b_norm = jk.Batch(ctx, "Cases_C04_norm", shard=80)
    small = not ctx.quick()
    for rep in range(ctx.n(8, 150)):
        for sub in jk.SUBSETS:
            for auto in (False, True):
                case_corr(ctx, b_corr, gen_corr(rng, sub, auto, small and rng.random() < 0.7))
    # magnitudes: every profile, auto and cross, once with Landy-Szalay defined (dr and rr present) and once with any members
    with_rr = [sb for sb in jk.SUBSETS if "rr" in sb and "dr" in sb]
    for rep in range(ctx.n(2, 30)):
        for profile in MAG_PROFILES:
            for auto in (False, True):
                for sub in (rng.choice(with_rr), rng.choice(jk.SUBSETS)):
                    case_corr(ctx, b_corr, gen_corr_mag(rng, sub, auto, small and rng.random() < 0.7, profile))
    for rep in range(ctx.n(2, 30)):      # weights: patches that weigh nothing, both signs, totals that cancel
        for profile in WT_PROFILES:
            for auto in (False, True):
                for sub in (rng.choice(with_rr), rng.choice(jk.SUBSETS)):
                    case_corr(ctx, b_corr, gen_corr_wts(rng, sub, auto, small and rng.random() < 0.7, profile))
    for _ in range(ctx.n(6, 80)):
        spec = gen_nz_spec_wts(rng, ctx.quick() or rng.random() < 0.7)
        case_nz(ctx, b_nz, b_norm, spec)
        for t in ("cross", "ref", "unk"):
            if spec[t] is not None:
                case_corr(ctx, b_corr, spec[t])
    for _ in range(ctx.n(40, 600)):
        case_nz(ctx, b_nz, b_norm, jk.gen_nz_spec(rng, small and rng.random() < 0.7))
    for _ in range(ctx.n(14, 200)):     # n(z) of CorrFuncs of all magnitudes; the CorrFuncs themselves against the model
        spec = gen_nz_spec_mag(rng, ctx.quick() or rng.random() < 0.7)
        case_nz(ctx, b_nz, b_norm, spec)
        for t in ("cross", "ref", "unk"):
            if spec[t] is not None:
                case_corr(ctx, b_corr, spec[t])
    for _ in range(ctx.n(40, 500)):
        case_norm(ctx, b_norm, gen_norm(rng, True))
        case_norm(ctx, b_norm, gen_norm(rng, False))
    for _ in range(ctx.n(12, 150)):
        case_norm(ctx, b_norm, gen_norm_mag(rng, True))
        case_norm(ctx, b_norm, gen_norm_mag(rng, False))
    for i in range(ctx.n(6, 40)):        # histograms of real catalogs, normalised
        N, B = rng.choice([2, 3, 5]), rng.choice([1, 2, 3, 4])
        edges, rows, obs = jk.gen_hist_catalog(rng, N, B, weighted=True)
        h = jk.hist_from_catalog(ctx, "n%d" % i, edges, rows, True)
        norm_case_obj(ctx, b_norm, h, True, dict(kind="norm", spec=dict(hist=True, edges=edges, data=jk.tolist(h.data),
                                                                         samples=jk.tolist(h.samples), origin="from_catalog")))
    b_hist = jk.Batch(ctx, "Cases_C04_hist", shard=25)
    b_nzh = jk.Batch(ctx, "Cases_C04_nz_hist", shard=40)
    b_normh = jk.Batch(ctx, "Cases_C04_norm_hist", shard=80)
    histories(ctx, b_hist, b_nzh, b_normh)
    ctx.log("hand-built containers and histories done")
    b_leg, b_leg_nz, b_leg_norm = c04_legacy.run(ctx)
    b_big, b_big_nz, b_big_norm = c04_big.run(ctx)
    b_meas, b_meas_nz = c04_meas.run_measured(ctx)
    b_algm, b_algm_nz = c04_alg.run_measured(ctx)
    batches = (b_leg, b_leg_nz, b_leg_norm, b_big, b_big_nz, b_big_norm, b_corr, b_nz, b_norm, b_hist, b_nzh, b_normh, b_meas, b_meas_nz, b_algm, b_algm_nz)
    ctx.log("implementation runs done; evaluating %d cases in Coq" % sum(len(b.items) for b in batches))
    for b in batches:
        b.run()
        ctx.log("%s evaluated" % b.name)


def replay(ctx, body):
    r = body.get("replay", body)
    if r.get("kind") == "meas":
        c04_meas.replay(ctx, r)
        return
    if str(r.get("kind", "")).startswith("alg"):
        c04_alg.replay(ctx, r)
        return
    if str(r.get("kind", "")).startswith("big"):
        c04_big.replay(ctx, r)
        return
    if str(r.get("kind", "")).startswith("legacy"):
        c04_legacy.replay(ctx, r)
        return
    spec, kind = r["spec"], r["kind"]
    b, bn = jk.Batch(ctx, "Replay_C04"), jk.Batch(ctx, "Replay_C04_norm")
    if kind == "corr":
        case_corr(ctx, b, spec)
    elif kind == "nz":
        case_nz(ctx, b, bn, spec)
    elif kind == "norm" and spec.get("samples") is not None:
        case_norm(ctx, b, spec)
    elif kind == "corr-hist":
        case_corr_hist(ctx, b, spec, r["history"], r.get("mode", "direct"))
    elif kind == "nz-hist":
        case_nz_hist(ctx, b, spec, r["history"])
    elif kind == "norm-hist":
        case_norm_hist(ctx, bn, spec, r["history"])
    b.run()
    bn.run()
