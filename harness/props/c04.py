"""C04 — correlation estimators and the n(z) formula are applied as documented.

Tie: (a) CorrFunc containers with dd and every non-empty subset of {dr, rd, rr} (auto and cross,
bins 1-4, patches 2-7, sparse and dense small dyadic arrays) are sampled with the real
CorrFunc.sample(); `.data/.samples` (or the fact that it raises) are compared inside Coq with the
model of the code and with the documented formula ((DD-DR-RD+RR)/RR, DD/DR-1, DD/RD-1 on
total/(W1*W2) resp. total/(W^2/2)); RedshiftData.from_corrfuncs(...).data/.samples are checked
against w_sp/sqrt(dz^2 w_ss w_pp) in squared form on the implementation's own CorrData values;
HistData.normalised() / RedshiftData.normalised() against the model and "integral = 1".
(b) symbolic traces of landy_szalay, davis_peebles, NormalisedCounts.sample_patch_sum,
RedshiftData.from_corrdata, HistData.normalised, RedshiftData.normalised are re-proved equal to
the documented formulas by `ring` (numerator / denominator / radicand separately) on every run.
"""
import numpy as np

from lib import floatq as fq
from props import _jk_common as jk

ALLOWED_AXIOMS = ["sig_forall_dec", "sig_not_dec", "functional_extensionality_dep", "classic"]  # only under C04_nz_sqrt_form / _unique (reals)
TRUSTED = [
    "symbolic-trace translator (harness/props/_jk_common.py: operator-overloading symbols in numpy object arrays; "
    "assumes the traced functions branch only on structure, not on values)",
    "numpy kernels (einsum, sqrt, nansum, tile) are exercised, not modelled; the square root is checked in squared form "
    "(nz^2 dz^2 w_ss w_pp = w_sp^2 within 2^-47 relative, sign of w_sp) on exact rational values of the implementation's floats",
    "estimator values are compared with the forward error bound 2^-48 * (|dd|+|dr|+|rd|+|rr|)/|rr| (resp. (|dd|+|mixed|)/|mixed|)",
]
ASSUMPTIONS = [
    "where an exact denominator is zero (or the radicand is not positive) the documented formula is undefined: the "
    "implementation's non-finite output is accepted and nothing else is compared",
    "combinations of pair counts for which the code defines no estimator (rr without dr) are compared only as 'raises'",
    "RedshiftData.normalised(target=...) (a scipy fit) is not covered",
]
RULE = ("cases = (subset of dr/rd/rr, auto|cross, bins, patches, all array entries) for estimators; triple of CorrFuncs for "
        "n(z); (container kind, binning, data, samples) for normalisation; distinct by all entries; non-trivial when every "
        "denominator is non-zero so that the full formula is compared (for 'raises' cases: always)")


def est_defined(sub):
    return ("dr" in sub) if "rr" in sub else ("dr" in sub or "rd" in sub)


# ----------------------------------------------------------------------------- handlers
def h_corr(ctx):
    def h(c, case, replay):
        sub = jk.subset_of(replay["spec"])
        raised = replay["raised"]
        if raised is not None:          # code = [not est_defined]
            ctx.fail("c04-sample-raises", "CorrFunc.sample() raises %s for pair counts dd+{%s}, for which the documented "
                     "estimator is defined" % (raised, ",".join(sub)), replay, case=case)
            return
        if not est_defined(sub):
            ctx.disagree("c04_corr_case:model-expects-raise", case, dict(code=c, replay=replay))
            return
        if c & 2:
            ctx.fail("c04-estimator-value", "CorrFunc.sample().data is not the documented estimator of total/(W1*W2) terms for "
                     "dd+{%s} (code %d)" % (",".join(sub), c), replay, case=case)
        if c & 4:
            ctx.fail("c04-estimator-samples", "CorrFunc.sample().samples are not computed by the same estimator as the value "
                     "for dd+{%s} (code %d)" % (",".join(sub), c), replay, case=case)
        if c & 1:
            ctx.disagree("c04_corr_case", case, dict(code=c, replay=replay))
    return h


def h_nz(ctx):
    def h(c, case, replay):
        if c & 1:
            ctx.fail("c04-nz-formula-value", "RedshiftData.from_corrfuncs().data is not w_sp/sqrt(dz^2 w_ss w_pp) "
                     "(absent autocorrelations = 1) (code %d)" % c, replay, case=case)
        if c & 2:
            ctx.fail("c04-nz-formula-samples", "RedshiftData.from_corrfuncs().samples are not computed by the formula used for "
                     "the value (code %d)" % c, replay, case=case)
    return h


def h_norm(ctx):
    def h(c, case, replay):
        what = "HistData" if replay["spec"]["hist"] else "RedshiftData"
        if c & 2:
            ctx.fail("c04-normalised-integral", "%s.normalised(): the integral of the result over the binning is not 1 "
                     "(code %d)" % (what, c), replay, case=case)
        if c & 4:
            ctx.fail("c04-normalised-samples", "%s.normalised(): samples are not scaled by the factor applied to the data "
                     "(code %d)" % (what, c), replay, case=case)
        if c & 1:
            ctx.disagree("c04_norm_case", case, dict(code=c, replay=replay))
    return h


# ----------------------------------------------------------------------------- single cases
def case_corr(ctx, batch, spec):
    sub = jk.subset_of(spec)
    auto = spec["kinds"]["dd"]["auto"]
    raised = None
    try:
        cd = jk.quiet(jk.build_corrfunc(spec["edges"], spec["kinds"]).sample)
        impl = "(Some (%s, %s))" % (jk.oqlist(cd.data), jk.oqmat(cd.samples))
        full = jk.all_finite(cd.data) and jk.all_finite(cd.samples)
    except Exception as e:  # noqa: BLE001
        raised = type(e).__name__
        impl = "None"
        full = True
    batch.add("c04_corr_case %s %s" % (jk.corr_args(spec), impl), h_corr(ctx), dict(kind="corr", spec=spec, raised=raised))
    ctx.count(key=("corr", repr(spec)), nontrivial=full,
              kind="corr/%s/%s%s" % ("auto" if auto else "cross", "+".join(sub), "/raises" if raised else ""))
    if raised is None:
        ctx.sample(dict(kind="corr", subset=sub, auto=auto, data=np.asarray(cd.data).tolist()), limit=3)
        if not full:
            ctx.bump("impl_nonfinite_entries")


def case_nz(ctx, batch, norm_batch, spec):
    try:
        dz, cross, ref, unk, nz = jk.run_nz(spec)
    except Exception as e:  # noqa: BLE001
        ctx.count(key=("nz-raised", repr(spec)), kind="nz/raised")
        ctx.fail("c04-raises:%s" % type(e).__name__, "RedshiftData.from_corrfuncs raised %s: %s" % (type(e).__name__, e),
                 dict(kind="nz", spec=spec))
        return
    batch.add(jk.nz_term(dz, cross, ref, unk, nz), h_nz(ctx), dict(kind="nz", spec=spec))
    ctx.count(key=("nz", repr(spec)), nontrivial=jk.all_finite(nz.data),
              kind="nz/%s%s" % ("ref" if ref is not None else "", "+unk" if unk is not None else ""))
    ctx.sample(dict(kind="nz", dz=[float(x) for x in dz], w_sp=np.asarray(cross.data).tolist(),
                    nz=np.asarray(nz.data).tolist()), limit=5)
    # the estimate, normalised
    norm_case_obj(ctx, norm_batch, nz, False, dict(kind="norm", spec=dict(hist=False, edges=spec["cross"]["edges"],
                  data=jk.tolist(nz.data) if jk.all_finite(nz.data) else None, samples=None, origin="from_corrfuncs")))


def norm_case_obj(ctx, batch, obj, hist, replay):
    if np.isinf(np.asarray(obj.data, dtype=float)).any():
        ctx.bump("norm_skipped_infinite_input")      # nansum keeps +-inf: no finite integral to normalise
        return
    try:
        out = jk.quiet(obj.normalised)
    except Exception as e:  # noqa: BLE001
        ctx.fail("c04-raises:%s" % type(e).__name__, "%s.normalised() raised %s: %s" % (type(obj).__name__, type(e).__name__, e), replay)
        return
    term = "c04_norm_case %s %s %s %s %s %s %s" % (
        fq.b(hist), fq.qlist(obj.binning.edges), fq.qlist(obj.binning.dz), jk.oqlist(obj.data), jk.oqmat(obj.samples),
        jk.oqlist(out.data), jk.oqmat(out.samples))
    batch.add(term, h_norm(ctx), replay)
    with np.errstate(all="ignore"):
        norm = float(np.nansum(np.asarray(obj.binning.dz) * np.asarray(obj.data, dtype=float)))
    ctx.count(key=("norm", hist, repr(np.asarray(obj.data).tolist()), repr(np.asarray(obj.samples).tolist()),
                   repr(list(obj.binning.edges))), nontrivial=norm != 0.0, kind="norm/%s" % ("hist" if hist else "nz"))


def case_norm(ctx, batch, spec):
    from yaw.binning import Binning
    cls = jk.HistData if spec["hist"] else jk.RedshiftData
    obj = cls(Binning(spec["edges"], closed="right"), np.array(spec["data"], dtype=float), np.array(spec["samples"], dtype=float))
    norm_case_obj(ctx, batch, obj, spec["hist"], dict(kind="norm", spec=spec))


# ----------------------------------------------------------------------------- generators
def gen_corr(rng, sub, auto, small=False):
    B, N = jk.pick_shape(rng, small)
    mode = rng.choice(["dense", "dense", "sparse", "dyadic", "binary"])
    return jk.corr_plain(jk.gen_binning(rng, B), N, jk.gen_corrfunc(rng, B, N, auto, mode, sub))


def gen_norm(rng, hist):
    B = rng.choice([1, 2, 3, 4])
    N = rng.choice([2, 3, 4, 7])
    edges = jk.gen_binning(rng, B)
    nan = float("nan")

    def val():
        if hist:
            return float(rng.choice([0, 0, 1, 2, 3, 5, 8, 13, 40])) if rng.random() < 0.7 else rng.randrange(0, 400) / 8.0
        if rng.random() < 0.12:
            return nan
        return rng.randrange(-200, 400) / 16.0
    return dict(hist=hist, edges=edges, data=[val() for _ in range(B)], samples=[[val() for _ in range(B)] for _ in range(N)])


def traces(ctx):
    jobs = []
    for B in (1, 2):
        jobs.append(("estimators B=%d" % B, lambda B=B: jk.trace_estimators(B)))
    for N in (2, 3, 4):
        for auto in (False, True):
            jobs.append(("NormalisedCounts N=%d auto=%s" % (N, auto), lambda N=N, auto=auto: jk.trace_nc(N, 1, auto)))
    for N, B in ((2, 1), (3, 2)):
        for use_ref in (False, True):
            for use_unk in (False, True):
                jobs.append(("from_corrdata N=%d B=%d ref=%s unk=%s" % (N, B, use_ref, use_unk),
                             lambda N=N, B=B, r=use_ref, u=use_unk: jk.trace_nz(N, B, r, u)))
    for hist in (True, False):
        for B in (1, 2, 3, 4):
            jobs.append(("%s.normalised B=%d" % ("HistData" if hist else "RedshiftData", B),
                         lambda B=B, hist=hist: jk.trace_normalised(2, B, hist)))
    jk.run_traces(ctx, jobs)


# ----------------------------------------------------------------------------- entry points
def run(ctx):
    rng = ctx.rng
    traces(ctx)
    ctx.log("traces done")
    b_corr = jk.Batch(ctx, "Cases_C04_corr", shard=30)
    b_nz = jk.Batch(ctx, "Cases_C04_nz", shard=40)
    b_norm = jk.Batch(ctx, "Cases_C04_norm", shard=80)
    small = not ctx.quick()
    for rep in range(ctx.n(8, 150)):
        for sub in jk.SUBSETS:
            for auto in (False, True):
                case_corr(ctx, b_corr, gen_corr(rng, sub, auto, small and rng.random() < 0.7))
    for _ in range(ctx.n(40, 600)):
        case_nz(ctx, b_nz, b_norm, jk.gen_nz_spec(rng, small and rng.random() < 0.7))
    for _ in range(ctx.n(40, 500)):
        case_norm(ctx, b_norm, gen_norm(rng, True))
        case_norm(ctx, b_norm, gen_norm(rng, False))
    for i in range(ctx.n(6, 40)):        # histograms of real catalogs, normalised
        N, B = rng.choice([2, 3, 5]), rng.choice([1, 2, 3, 4])
        edges, rows, obs = jk.gen_hist_catalog(rng, N, B, weighted=True)
        h = jk.hist_from_catalog(ctx, "n%d" % i, edges, rows, True)
        norm_case_obj(ctx, b_norm, h, True, dict(kind="norm", spec=dict(hist=True, edges=edges, data=jk.tolist(h.data),
                                                                         samples=jk.tolist(h.samples), origin="from_catalog")))
    ctx.log("implementation runs done; evaluating %d cases in Coq" % sum(len(b.items) for b in (b_corr, b_nz, b_norm)))
    for b in (b_corr, b_nz, b_norm):
        b.run()
        ctx.log("%s evaluated" % b.name)


def replay(ctx, body):
    r = body.get("replay", body)
    spec, kind = r["spec"], r["kind"]
    b, bn = jk.Batch(ctx, "Replay_C04"), jk.Batch(ctx, "Replay_C04_norm")
    if kind == "corr":
        case_corr(ctx, b, spec)
    elif kind == "nz":
        case_nz(ctx, b, bn, spec)
    elif kind == "norm" and spec.get("samples") is not None:
        case_norm(ctx, b, spec)
    b.run()
    bn.run()
