"""C02 — catalog creation stores every input record exactly once, unchanged.

Tie: the real Catalog.from_dataframe / from_file (FITS, HDF5, Parquet) are run for lengths
around multiples of the chunk size, sequentially, on the controllable pool (delivery order
chosen by the harness) and on the real multiprocessing pool; the stored records are mapped
back to input row numbers by bit pattern and the per-patch row sets are compared inside Coq
with Model/Writer.v (c02_case) for the same (n, cs, workers, assignment, delivery order).
"""
import itertools
import os
from fractions import Fraction

import numpy as np

from lib import floatq as fq
from lib import impl
from sim import pool as simpool

ALLOWED_AXIOMS = []
TRUSTED = [
    "simulated multiprocessing (harness/sim/pool.py): Pool.map executes the splits of one chunk in a harness-chosen order; the writer process runs at join()",
    "scipy.cluster.vq.vq, numpy casts/deg2rad, astropy FITS, h5py, pyarrow are exercised, not modelled; nearest-centre assignment is re-checked with exact rational chord distances from the implementation's own unit vectors",
]
ASSUMPTIONS = [
    "records are compared by the bit pattern of their float64 fields",
    "the model's `assign` vector is the implementation's own assignment (checked against exact nearest-centre separately)",
]
RULE = ("cases = (source format, n around multiples of chunk size cs, cs, workers, delivery order, patch mode, "
        "optional columns, dtype, degrees); distinct by that tuple + data seed; non-trivial when n > cs or workers > 1 "
        "(more than one message reaches the writer)")

HEADER = "From Verif Require Import Prelude Chunks Writer.\nOpen Scope nat_scope.\n"


def gen_points(rng, n, ncent):
    """n points clustered around ncent well separated centres; every centre gets >= 1 point
    when n >= ncent.  Coordinates in degrees, exactly representable with few bits."""
    cent = [(30.0 + 40.0 * k, -20.0 + 25.0 * (k % 3)) for k in range(ncent)]
    ra, dec, near = [], [], []
    for i in range(n):
        k = i % ncent if i < ncent else rng.randrange(ncent)
        ra.append(cent[k][0] + rng.randrange(-64, 65) / 16.0)
        dec.append(cent[k][1] + rng.randrange(-64, 65) / 16.0)
        near.append(k)
    order = list(range(n))
    rng.shuffle(order)
    return ([ra[i] for i in order], [dec[i] for i in order], [near[i] for i in order], cent)


def write_source(fmt, path, cols, rgsize=None):
    if fmt == "fits":
        from astropy.io import fits
        hdu = fits.BinTableHDU.from_columns([fits.Column(name=k, array=np.asarray(v),
                                                         format={"f": "D", "i": "K"}[np.asarray(v).dtype.kind] if np.asarray(v).dtype.itemsize == 8 else {"f": "E", "i": "J"}[np.asarray(v).dtype.kind])
                                             for k, v in cols.items()])
        hdu.writeto(path, overwrite=True)
    elif fmt == "hdf5":
        import h5py
        with h5py.File(path, "w") as f:
            for k, v in cols.items():
                f.create_dataset(k, data=np.asarray(v))
    elif fmt == "parquet":
        import pyarrow as pa
        import pyarrow.parquet as pq
        pq.write_table(pa.table({k: np.asarray(v) for k, v in cols.items()}), path, row_group_size=rgsize)
    else:
        raise ValueError(fmt)


def exact_nearest(u, cents3):
    """index of the nearest centre by exact rational squared chord distance; None on a near tie."""
    d = []
    for c in cents3:
        d.append(sum((Fraction(float(a)) - Fraction(float(b))) ** 2 for a, b in zip(u, c)))
    order = sorted(range(len(d)), key=lambda i: d[i])
    if len(d) > 1 and d[order[1]] - d[order[0]] <= Fraction(1, 2 ** 40) * max(d[order[1]], Fraction(1, 10 ** 30)):
        return None
    return order[0]


def one_case(ctx, spec, idx):
    rng = np.random.default_rng(spec["dseed"])
    import random as _r
    prng = _r.Random(spec["dseed"])
    n, cs, workers = spec["n"], spec["cs"], spec["workers"]
    ncent = spec["ncent"]
    ra, dec, near, cent = gen_points(prng, n, ncent)
    dtype = spec["dtype"]
    cols = {"ra": np.asarray(ra, dtype="f8"), "dec": np.asarray(dec, dtype="f8")}
    if dtype == "f4":
        cols["ra"] = cols["ra"].astype("f4")
        cols["dec"] = cols["dec"].astype("f4")
    kwargs = dict(ra_name="ra", dec_name="dec", degrees=spec["degrees"])
    if not spec["degrees"]:
        cols["ra"] = np.deg2rad(cols["ra"].astype("f8"))
        cols["dec"] = np.deg2rad(cols["dec"].astype("f8"))
    if spec["weights"]:
        w = [prng.randrange(1, 40) / 8.0 for _ in range(n)]
        cols["w"] = np.asarray(w, dtype="i8" if dtype == "i8" else ("f4" if dtype == "f4" else "f8")) if dtype != "i8" else np.asarray([int(x * 8) for x in w], dtype="i8")
        kwargs["weight_name"] = "w"
    if spec["redshifts"]:
        cols["z"] = np.asarray([prng.randrange(1, 300) / 128.0 for _ in range(n)], dtype="f4" if dtype == "f4" else "f8")
        kwargs["redshift_name"] = "z"
    if spec["mode"] == "name":
        pidcol = [k * spec["idstride"] for k in near]
        cols["pid"] = np.asarray(pidcol, dtype="i8")
        kwargs["patch_name"] = "pid"
    else:
        cc = impl.AngularCoordinates(np.deg2rad(np.asarray(cent, dtype="f8")))
        kwargs["patch_centers"] = cc
    cache = impl.fresh_dir(ctx, "cat_%d" % idx)
    fmt = spec["fmt"]
    sched_used = None
    impl.set_threads(16)

    def create():
        mw = 1 if workers == 0 else workers
        if fmt == "df":
            return impl.Catalog.from_dataframe(cache, impl.make_df(cols), chunksize=cs, max_workers=mw, **kwargs)
        ext = {"fits": ".fits", "hdf5": ".hdf5", "parquet": ".pqt"}[fmt]
        path = os.path.join(ctx.workdir, "src_%d%s" % (idx, ext))
        write_source(fmt, path, cols, spec.get("rgsize"))
        try:
            return impl.Catalog.from_file(cache, path, chunksize=cs, max_workers=mw, **kwargs)
        finally:
            os.unlink(path)

    if workers == 0 or spec["pool"] == "real":
        cat = create()
        nmsg_workers = workers
        sched = None
    else:
        sch = simpool.Schedule(spec["pool"], seed=spec["dseed"])
        with simpool.patched(sch) as mp:
            cat = create()
        sched = list(mp.delivery)
    # --- observe ---
    stored = impl.patch_records(cat)
    reopened = impl.patch_records(impl.Catalog(cache, max_workers=1))
    reopen_same = (sorted(stored) == sorted(reopened) and
                   all(stored[p].tobytes() == reopened[p].tobytes() and stored[p].dtype == reopened[p].dtype for p in stored))
    # expected stored fields per input row
    exp_ra = cols["ra"].astype("f8")
    exp_dec = cols["dec"].astype("f8")
    if spec["degrees"]:
        exp_ra, exp_dec = np.deg2rad(exp_ra), np.deg2rad(exp_dec)
    fields = [exp_ra, exp_dec]
    names = ["ra", "dec"]
    if spec["weights"]:
        fields.append(cols["w"].astype("f8")); names.append("weights")
    if spec["redshifts"]:
        fields.append(cols["z"].astype("f8")); names.append("redshifts")
    index = {}
    for i in range(n):
        index.setdefault(impl.row_key(*[f[i] for f in fields]), []).append(i)
    impl_patches, foreign, dtype_bad = [], [], False
    for p in sorted(stored):
        arr = stored[p]
        if list(arr.dtype.names) != names or any(arr.dtype[nm] != np.dtype("f8") for nm in names):
            dtype_bad = True
        ids = []
        for rec in arr:
            k = impl.row_key(*[rec[nm] for nm in arr.dtype.names])
            if index.get(k):
                ids.append(index[k].pop())
            else:
                foreign.append((p, [float(rec[nm]) for nm in arr.dtype.names]))
        impl_patches.append((p, sorted(ids)))
    lost = sorted(i for v in index.values() for i in v)
    # assignment as the implementation made it
    assign = [None] * n
    for p, ids in impl_patches:
        for i in ids:
            assign[i] = p
    replay = dict(spec=spec, sched=sched)
    if foreign or lost or dtype_bad:
        ctx.fail("c02-record-set", "stored records differ from the input (lost rows %s, foreign/changed records %d, dtype_bad=%s)"
                 % (lost[:5], len(foreign), dtype_bad), dict(replay, lost=lost, foreign=foreign[:5]), case=idx)
        assign = [a if a is not None else 0 for a in assign]
    if not reopen_same:
        ctx.fail("c02-reopen", "catalog reopened from its cache directory holds different records", replay, case=idx)
    # nearest-centre / named patch check
    if spec["mode"] == "name":
        wrong = [i for i in range(n) if assign[i] is not None and assign[i] != int(cols["pid"][i])]
        if wrong:
            ctx.fail("c02-named-patch", "record stored in another patch than the one named (rows %s)" % wrong[:5], replay, case=idx)
    else:
        cents3 = kwargs["patch_centers"].to_3d()
        u3 = impl.AngularCoordinates(np.column_stack([exp_ra, exp_dec])).to_3d()
        wrong = []
        for i in range(n):
            e = exact_nearest(u3[i], cents3)
            if e is None:
                ctx.bump("near_tie_skipped")
            elif assign[i] is not None and e != assign[i]:
                wrong.append((i, assign[i], e))
        if wrong:
            ctx.fail("c02-nearest-centre", "record not stored with its nearest centre: %s" % wrong[:5], replay, case=idx)
    # deg->rad exact to rounding, checked on the stored values against the raw input (in Coq, Q)
    d2r = []
    if spec["degrees"]:
        for i in range(min(n, 3)):
            d2r.append((float(cols["ra"][i]), float(exp_ra[i])))
    term = "c02_case %s %s %s %s %s %s %s" % (
        fq.nat(n), fq.nat(cs), fq.nat(workers),
        fq.nlist([a if a is not None else 0 for a in assign]),
        fq.nlist(sched if sched is not None else (range(-(-n // cs) * workers) if workers else [])),
        fq.z(-1),
        fq.lst([fq.pair(fq.nat(p), fq.nlist(ids)) for p, ids in impl_patches]))
    nontrivial = n > cs or workers > 1
    ctx.count(key=tuple(sorted(spec.items())), nontrivial=nontrivial,
              kind="%s/%s/w%d" % (fmt, spec["mode"], workers))
    ctx.bump("n_rel_cs:" + ("lt" if n < cs else "eq" if n == cs else "mult" if n % cs == 0 else "rem%d" % min(n % cs, 2)))
    ctx.sample(dict(spec=spec, sched=sched, impl_patches=impl_patches), limit=3)
    import shutil
    shutil.rmtree(cache, ignore_errors=True)
    return term, replay, d2r


def specs(ctx):
    rng = ctx.rng
    out = []
    css = [1, 2, 3, 5, 7, 16]
    combos = []
    for cs in css:
        for n in sorted({1, max(1, cs - 1), cs, cs + 1, 2 * cs - 1 if cs > 1 else 2, 2 * cs, 2 * cs + 1, 3 * cs, 3 * cs + 1}):
            combos.append((n, cs))
    if ctx.quick():
        rng.shuffle(combos)
        combos = combos[:26]
    fmts = ["df", "df", "fits", "hdf5", "parquet"]
    if not ctx.quick():
        # thorough: lengths 1..40 x chunk sizes 1..12 (a seeded sample of the full grid on top of the boundary set)
        grid = [(n, cs) for n in range(1, 41) for cs in range(1, 13)]
        rng.shuffle(grid)
        combos = combos + grid[:360]
    for (n, cs) in combos:
        for rep in range(ctx.n(1, 3)):
            workers = rng.choice([0, 2, 3, 4])
            spec = dict(n=n, cs=cs, workers=workers, fmt=rng.choice(fmts), mode=rng.choice(["centers", "name"]),
                        weights=rng.random() < 0.5, redshifts=rng.random() < 0.5,
                        dtype=rng.choice(["f8", "f8", "f4", "i8"]), degrees=rng.random() < 0.8,
                        pool=rng.choice(["random", "reverse", "identity"]), ncent=rng.choice([1, 2, 3, 4]),
                        idstride=rng.choice([1, 1, 3, 1000]), dseed=rng.randrange(10 ** 6))
            if spec["fmt"] == "parquet":
                spec["rgsize"] = rng.choice([1, max(1, cs - 1), cs, cs + 1, max(1, n)])
            if spec["fmt"] == "fits" and spec["dtype"] == "f4":
                pass
            out.append(spec)
    # a few runs on the real multiprocessing pool
    for k in range(ctx.n(3, 12)):
        cs = rng.choice([2, 3, 5])
        out.append(dict(n=rng.choice([2 * cs + 1, 3 * cs, 7]), cs=cs, workers=rng.choice([2, 3, 4]), fmt="df",
                        mode=rng.choice(["centers", "name"]), weights=True, redshifts=True, dtype="f8", degrees=True,
                        pool="real", ncent=3, idstride=1, dseed=rng.randrange(10 ** 6)))
    return out


def run(ctx):
    terms, replays, d2r_all = [], [], []
    for idx, spec in enumerate(specs(ctx)):
        try:
            term, replay, d2r = one_case(ctx, spec, idx)
        except Exception as e:  # creation of a valid input must not raise
            if (isinstance(e, ValueError) and spec["mode"] == "centers" and spec["n"] < spec["ncent"] and ("contains no data" in str(e) or "patch centers and patch IDs with data do not match" in str(e))):
                # fewer records than given centres: some centre is empty and creation must refuse (C09/C12)
                ctx.bump("skipped_fewer_records_than_centres")
                continue
            import traceback
            ctx.count(key=tuple(sorted(spec.items())), kind="raised")
            ctx.fail("c02-raises:%s" % type(e).__name__,
                     "creating a catalog from a valid input raised %s: %s" % (type(e).__name__, e),
                     dict(spec=spec, traceback=traceback.format_exc()[-1500:]), case=idx)
            continue
        terms.append(term)
        replays.append((idx, replay))
        d2r_all.extend(d2r)
    codes = ctx.shards("Cases_C02", HEADER, terms, shard=60)
    for (idx, replay), c in zip(replays, codes):
        if c is None or c == 0:
            continue
        if c & 2 or c & 4:
            ctx.fail("c02-partition", "per-patch record sets differ from the assignment (code %d)" % c, replay, case=idx)
        if c & 1 or c & 8:
            ctx.disagree("Cases_C02", idx, dict(code=c, replay=replay))
    # degrees -> radian, exact to rounding: the rational test c02_deg2rad_case (Model/Deg2Rad.v) against the proven
    # enclosure pi_lo < PI < pi_hi; Proofs/Deg2RadP.v:deg2rad_case_sound turns code 0 into
    # |stored - x*PI/180| <= (2^-51 + 1e-36) * |x|*PI/180 over the reals
    if d2r_all:
        t = ["c02_deg2rad_case %s %s" % (fq.q(x), fq.q(s)) for x, s in d2r_all]
        hdr = "From Verif Require Import Prelude Deg2Rad.\nOpen Scope Q_scope.\n"
        codes = ctx.shards("Deg2Rad_C02", hdr, t, shard=400)
        bad = [d2r_all[i] for i, c in enumerate(codes) if c]
        if bad:
            ctx.fail("c02-deg2rad", "stored radian value is not the degree input times pi/180 to rounding: %s" % bad[:3],
                     dict(pairs=bad[:10]))
        import re as _re
        from lib import coqrun as _cr
        path = os.path.join(ctx.workdir, "Deg2RadSound_C02.v")
        with open(path, "w") as f:
            f.write("From Verif Require Import Prelude Deg2Rad Deg2RadP.\nCheck deg2rad_case_sound.\nPrint Assumptions deg2rad_case_sound.\n")
        rc, out = _cr.coqc_file(path, 600)
        names = sorted(set(_re.findall(r"^([A-Za-z_][\w\.']*)(?:\s*:|\s*$)", out, _re.M)) - {"Axioms", "deg2rad_case_sound"})
        ok_prefix = ("Uint63.", "PrimInt63.", "ClassicalDedekindReals.", "FunctionalExtensionality.", "Classical_Prop.")
        unexpected = [n for n in names if not n.startswith(ok_prefix)]
        ctx.extra["deg2rad_soundness_axioms"] = names
        ctx.obligation("lemma:deg2rad_case_sound (Proofs/Deg2RadP.v) compiled, axioms as expected", rc == 0 and not unexpected,
                       "unexpected: %s\n%s" % (unexpected, out[-1500:]))
