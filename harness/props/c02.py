"""C02 — catalog creation stores every input record exactly once, unchanged.

Tie: the real Catalog.from_dataframe / from_file (FITS, HDF5, Parquet) are run for lengths
around multiples of the chunk size, sequentially, on the controllable pool (delivery order
chosen by the harness) and on the real multiprocessing pool; the stored records are mapped
back to input row numbers by bit pattern and the per-patch row sets are compared inside Coq
with Model/Writer.v (c02_case) for the same (n, cs, workers, assignment, delivery order).

Option combinations: every patch mode (patch_centers as coordinates or as another catalog, patch_name,
BOTH patch_centers and patch_name - documented: the index column is then ignored and the nearest centre
decides -, patch_num, and a patch_num given next to an option that outranks it) is combined with every
way of running the call: sequentially, on the controllable pool, on the real pool; worker count given as
max_workers, taken from YAW_NUM_THREADS, or capped by it; progress display on or off; into a fresh
directory or over an older catalog (overwrite=True).  The "matrix" scenario runs ONE input under several
of these executions and compares the per-patch row sets with each other and with the key the documented
precedence selects (Model/Writer.v: mode_key, c02_matrix_case; Props/C02.v: C02_executions_agree,
C02_centres_take_precedence, C02_index_column_names_patch).
"""
import sys
import itertools
import os
from fractions import Fraction

import shutil

import numpy as np

from lib import floatq as fq
from lib import impl
from sim import pool as simpool

ALLOWED_AXIOMS = []
TRUSTED = [
    "simulated multiprocessing (harness/sim/pool.py): Pool.map executes the splits of one chunk in a harness-chosen order; the writer process runs at join()",
    "scipy.cluster.vq.vq, numpy casts/deg2rad, astropy FITS, h5py, pyarrow are exercised, not modelled; nearest-centre assignment is re-checked with exact rational chord distances from the implementation's own unit vectors",
]
ASSUMPTIONS = [
    "records are compared by the bit pattern of their float64 fields",
    "the model's `assign` vector is the implementation's own assignment (checked against exact nearest-centre separately)",
    "matrix cases: the key vector is NOT the implementation's: it is the exact nearest centre (rational chord distances to the "
    "centres handed to the call, or to get_centers() of the catalog handed to it) when centres are given, else the index column; "
    "a near tie between two centres (not produced by the generator; counted if it happens) takes the first execution's side",
    "patch_num alone (generated centres): only 'every record once, unchanged, same after reopening' is checked; which centres "
    "are generated is not part of the property, and such cases are not compared across executions",
    "progress=True: stderr is redirected at file-descriptor level while the call runs; overwrite history: an older complete "
    "catalog with other records, columns and more patches is created in the same directory first",
]
RULE = ("cases = (source format, n around multiples of chunk size cs, cs, workers, delivery order, patch mode "
        "[centres as coordinates / as a catalog, index column, both, patch_num, outranked patch_num], how the worker "
        "count is given, progress, overwrite history, optional columns, dtype, degrees); distinct by that tuple + data "
        "seed; non-trivial when n > cs or workers > 1 (more than one message reaches the writer); a matrix case = one "
        "input under several executions, non-trivial when the executions use different worker counts")

HEADER = "From Verif Require Import Prelude Chunks Writer.\nOpen Scope nat_scope.\n"


def gen_points(rng, n, ncent):
    """n points clustered around ncent well separated centres; every centre gets >= 1 point
    when n >= ncent.  Coordinates in degrees, exactly representable with few bits."""
    cent = [(30.0 + 40.0 * k, -20.0 + 25.0 * (k % 3)) for k in range(ncent)]
    ra, dec, near = [], [], []
    for i in range(n):
        k = i % ncent if i < ncent else rng.randrange(ncent)
        ra.append(cent[k][0] + rng.randrange(-64, 65) / 16.0)
        dec.append(cent[k][1] + rng.randrange(-64, 65) / 16.0)
        near.append(k)
    order = list(range(n))
    rng.shuffle(order)
    return ([ra[i] for i in order], [dec[i] for i in order], [near[i] for i in order], cent)


def write_source(fmt, path, cols, rgsize=None, hdu_index=1):
    if fmt == "fits":
        from astropy.io import fits

        def table(c):
            return fits.BinTableHDU.from_columns([fits.Column(name=k, array=np.asarray(v),
                                                              format={"f": "D", "i": "K"}[np.asarray(v).dtype.kind] if np.asarray(v).dtype.itemsize == 8 else {"f": "E", "i": "J"}[np.asarray(v).dtype.kind])
                                                  for k, v in c.items()])
        if hdu_index == 1:
            table(cols).writeto(path, overwrite=True)
        else:
            # the requested table sits in a later extension; the earlier ones hold other tables with the same
            # column names (fewer rows, other values)
            decoys = []
            for d in range(1, hdu_index):
                m = max(1, len(next(iter(cols.values()))) // 2 - d)
                decoys.append(table({k: (np.asarray(v)[:m][::-1].copy()) for k, v in cols.items()}))
            fits.HDUList([fits.PrimaryHDU()] + decoys + [table(cols)]).writeto(path, overwrite=True)
    elif fmt == "hdf5":
        import h5py
        with h5py.File(path, "w") as f:
            for k, v in cols.items():
                f.create_dataset(k, data=np.asarray(v))
    elif fmt == "parquet":
        import pyarrow as pa
        import pyarrow.parquet as pq
        tab = pa.table({k: np.asarray(v) for k, v in cols.items()})
        if isinstance(rgsize, (list, tuple)):
            # row groups of UNEQUAL sizes (a file written batch by batch): the given sizes in turn, cyclically
            with pq.ParquetWriter(path, tab.schema) as wr:
                pos, k = 0, 0
                while pos < len(tab):
                    step = max(1, int(rgsize[k % len(rgsize)]))
                    wr.write_table(tab.slice(pos, step), row_group_size=step)
                    pos += step
                    k += 1
        else:
            pq.write_table(tab, path, row_group_size=rgsize)
    else:
        raise ValueError(fmt)


def exact_nearest(u, cents3):
    """index of the nearest centre by exact rational squared chord distance; None on a near tie."""
    d = []
    for c in cents3:
        d.append(sum((Fraction(float(a)) - Fraction(float(b))) ** 2 for a, b in zip(u, c)))
    order = sorted(range(len(d)), key=lambda i: d[i])
    if len(d) > 1 and d[order[1]] - d[order[0]] <= Fraction(1, 2 ** 40) * max(d[order[1]], Fraction(1, 10 ** 30)):
        return None
    return order[0]


class quiet_stderr:
    """fd-level redirection of stderr into a scratch file while a call with progress=True runs (the progress
    indicator writes to the stderr object it saw at import time); .text holds what was written."""

    def __init__(self, path):
        self.path = path
        self.text = ""

    def __enter__(self):
        sys.stderr.flush()
        self.saved = os.dup(2)
        fd = os.open(self.path, os.O_WRONLY | os.O_CREAT | os.O_TRUNC)
        os.dup2(fd, 2)
        os.close(fd)
        return self

    def __exit__(self, *a):
        try:
            sys.stderr.flush()
        finally:
            os.dup2(self.saved, 2)
            os.close(self.saved)
        try:
            with open(self.path, errors="replace") as f:
                self.text = f.read()
            os.unlink(self.path)
        except OSError:
            pass
        return False


HAS_CENTRES = {"centers": True, "both": True, "name": False, "create": False}
HAS_COLUMN = {"centers": False, "both": True, "name": True, "create": False}


def normalise(spec):
    """defaults for the option fields (replays written before they existed stay runnable)"""
    spec.setdefault("cent_as", "coords")
    spec.setdefault("extra_num", False)
    spec.setdefault("pidpat", "shift")
    spec.setdefault("piddtype", "i8")
    return spec


def normalise_exec(ex):
    ex.setdefault("wvia", "arg")
    ex.setdefault("progress", False)
    ex.setdefault("history", False)
    ex.setdefault("pool", "identity")
    return ex


def build_input(ctx, spec, idx):
    """everything that is determined by the input and the patch options (not by how the call is executed)"""
    import random as _r
    normalise(spec)
    prng = _r.Random(spec["dseed"])
    n, ncent, mode = spec["n"], spec["ncent"], spec["mode"]
    ra, dec, near, cent = gen_points(prng, n, ncent)
    dtype = spec["dtype"]
    cols = {"ra": np.asarray(ra, dtype="f8"), "dec": np.asarray(dec, dtype="f8")}
    if dtype == "f4":
        cols["ra"] = cols["ra"].astype("f4")
        cols["dec"] = cols["dec"].astype("f4")
    kwargs = dict(ra_name="ra", dec_name="dec", degrees=spec["degrees"])
    if not spec["degrees"]:
        cols["ra"] = np.deg2rad(cols["ra"].astype("f8"))
        cols["dec"] = np.deg2rad(cols["dec"].astype("f8"))
    if spec["weights"]:
        w = [prng.randrange(1, 40) / 8.0 for _ in range(n)]
        cols["w"] = np.asarray(w, dtype="i8" if dtype == "i8" else ("f4" if dtype == "f4" else "f8")) if dtype != "i8" else np.asarray([int(x * 8) for x in w], dtype="i8")
        kwargs["weight_name"] = "w"
    if spec["redshifts"]:
        cols["z"] = np.asarray([prng.randrange(1, 300) / 128.0 for _ in range(n)], dtype="f4" if dtype == "f4" else "f8")
        kwargs["redshift_name"] = "z"
    pidcol = None
    if mode == "name":
        pidcol = [k * spec["idstride"] for k in near]
    elif mode == "both":
        # an index column next to the centres: documented as ignored, so any valid column must do
        orng = _r.Random(spec["dseed"] + 7)
        pat = spec["pidpat"]
        if pat == "shift":          # every row names another patch than its nearest centre (when ncent > 1)
            pidcol = [(k + 1) % ncent for k in near]
        elif pat == "random":
            pidcol = [orng.randrange(ncent) for _ in near]
        elif pat == "const":
            pidcol = [0 for _ in near]
        elif pat == "rownum":       # e.g. a running number left over from an earlier step
            pidcol = [i % (ncent + 1) for i in range(n)]
        elif pat == "beyond":       # ids for which there is no centre at all
            pidcol = [ncent + k * spec["idstride"] + 2 for k in near]
        elif pat == "same":
            pidcol = list(near)
        else:
            raise ValueError(pat)
    if pidcol is not None:
        cols["pid"] = np.asarray(pidcol, dtype=spec["piddtype"])
        kwargs["patch_name"] = "pid"
    cents3 = None
    if HAS_CENTRES[mode]:
        cc = impl.AngularCoordinates(np.deg2rad(np.asarray(cent, dtype="f8")))
        if spec["cent_as"] == "catalog":
            # the centres are those of another catalog: one with a single record at each centre position
            cdir = impl.fresh_dir(ctx, "cen_%d" % idx)
            impl.set_threads(16)
            ccols = {"ra": np.asarray([c[0] for c in cent], dtype="f8"), "dec": np.asarray([c[1] for c in cent], dtype="f8"),
                     "pid": np.arange(ncent, dtype="i8")}
            ccat = impl.Catalog.from_dataframe(cdir, impl.make_df(ccols), ra_name="ra", dec_name="dec", patch_name="pid",
                                               degrees=True, max_workers=1)
            kwargs["patch_centers"] = ccat
            cents3 = ccat.get_centers().to_3d()
        else:
            kwargs["patch_centers"] = cc
            cents3 = cc.to_3d()
    if mode == "create":
        kwargs["patch_num"] = ncent
    elif spec["extra_num"]:
        kwargs["patch_num"] = ncent + 1 + spec["dseed"] % 3     # outranked by the centres / the index column
    # expected stored fields per input row
    exp_ra = cols["ra"].astype("f8")
    exp_dec = cols["dec"].astype("f8")
    if spec["degrees"]:
        exp_ra, exp_dec = np.deg2rad(exp_ra), np.deg2rad(exp_dec)
    fields, names = [exp_ra, exp_dec], ["ra", "dec"]
    if spec["weights"]:
        fields.append(cols["w"].astype("f8")); names.append("weights")
    if spec["redshifts"]:
        fields.append(cols["z"].astype("f8")); names.append("redshifts")
    # the patch the documented precedence selects for each row (None: near tie between two centres)
    expect = None
    if HAS_CENTRES[mode]:
        u3 = impl.AngularCoordinates(np.column_stack([exp_ra, exp_dec])).to_3d()
        expect = [exact_nearest(u3[i], cents3) for i in range(n)]
    elif mode == "name":
        expect = [int(v) for v in cols["pid"]]
    d2r = []
    if spec["degrees"]:
        for i in range(min(n, 3)):
            d2r.append((float(cols["ra"][i]), float(exp_ra[i])))
    return dict(cols=cols, kwargs=kwargs, fields=fields, names=names, expect=expect, d2r=d2r,
                pidcol=[int(v) for v in cols["pid"]] if pidcol is not None else None)


def old_catalog(ctx, cache, ncent):
    """history: an older, complete catalog in the same cache directory, with other records, other columns and
    more patches than the new one will have"""
    k = ncent + 2
    cols = {"ra": np.asarray([200.0 + 3 * i for i in range(2 * k)], dtype="f8"),
            "dec": np.asarray([40.0 + (i % 5) for i in range(2 * k)], dtype="f8"),
            "w": np.asarray([9.5 + i for i in range(2 * k)], dtype="f8"),
            "z": np.asarray([7.25 + i for i in range(2 * k)], dtype="f8"),
            "pid": np.asarray([i % k for i in range(2 * k)], dtype="i8")}
    impl.set_threads(16)
    impl.Catalog.from_dataframe(cache, impl.make_df(cols), ra_name="ra", dec_name="dec", weight_name="w", redshift_name="z",
                                patch_name="pid", degrees=True, max_workers=1)


def execute(ctx, spec, inp, ex, idx, tag=""):
    """run the creation call once, the way `ex` says, and observe what was stored"""
    normalise_exec(ex)
    n, cs, workers = spec["n"], spec["cs"], ex["workers"]
    fmt = spec["fmt"]
    cols, kwargs = inp["cols"], dict(inp["kwargs"])
    cache = impl.fresh_dir(ctx, "cat_%d%s" % (idx, tag))
    twin_history = False
    if ex["history"]:
        # every other seed the older catalog is a twin: the same table with other weights / redshifts (every patch file
        # has the size the new one will have), created the same way and read completely in this process before it
        # is overwritten; otherwise a foreign catalog with other records, columns and patch count
        twin_history = (spec["dseed"] + idx) % 3 != 0 and any(k in cols for k in ("w", "z")) and "patch_num" not in kwargs
        if twin_history:
            old_cols = dict(cols)
            for k in ("w", "z"):
                if k in old_cols:
                    old_cols[k] = np.asarray(old_cols[k], dtype="f8") * 2.0 + 0.125
            impl.set_threads(16)
            try:
                old = impl.Catalog.from_dataframe(cache, impl.make_df(old_cols), chunksize=cs, max_workers=1, **kwargs)
                for patch in old.values():
                    patch.load_data()
                impl.patch_records(impl.Catalog(cache, max_workers=1))
                ctx.bump("overwrite_history:twin-read-before-overwrite")
            except Exception:
                twin_history = False
                shutil.rmtree(cache, ignore_errors=True)
        if not twin_history:
            old_catalog(ctx, cache, spec["ncent"])
        kwargs["overwrite"] = True
    if ex["progress"]:
        kwargs["progress"] = True
    eff = 1 if workers == 0 else workers
    # the effective worker count is min(max_workers or YAW_NUM_THREADS, YAW_NUM_THREADS, cores)
    if ex["wvia"] == "arg":
        impl.set_threads(16); mw = eff
    elif ex["wvia"] == "env":
        impl.set_threads(eff); mw = None
    elif ex["wvia"] == "cap":
        impl.set_threads(eff); mw = eff + 1 + spec["dseed"] % 3
    else:
        raise ValueError(ex["wvia"])

    def create():
        if fmt == "df":
            return impl.Catalog.from_dataframe(cache, impl.make_df(cols), chunksize=cs, max_workers=mw, **kwargs)
        ext = {"fits": ".fits", "hdf5": ".hdf5", "parquet": ".pqt"}[fmt]
        path = os.path.join(ctx.workdir, "src_%d%s%s" % (idx, tag, ext))
        # reader options that from_file passes through: for FITS the table extension (every other seed: 2 or 3)
        hdu_index = 1 if fmt != "fits" or spec["dseed"] % 2 else 2 + (spec["dseed"] // 2) % 2
        write_source(fmt, path, cols, spec.get("rgsize"), hdu_index=hdu_index)
        extra = {"hdu": hdu_index} if fmt == "fits" and hdu_index != 1 else {}
        if extra:
            ctx.bump("fits_table_extension:%d" % hdu_index)
        try:
            return impl.Catalog.from_file(cache, path, chunksize=cs, max_workers=mw, **extra, **kwargs)
        finally:
            os.unlink(path)

    try:
        if ex["progress"]:
            q = quiet_stderr(os.path.join(ctx.workdir, "stderr_%d%s.txt" % (idx, tag)))
            with q:
                if workers == 0 or ex["pool"] == "real":
                    cat = create(); sched = None
                else:
                    with simpool.patched(simpool.Schedule(ex["pool"], seed=ex.get("seed", spec["dseed"]))) as mp:
                        cat = create()
                    sched = list(mp.delivery)
            ctx.bump("progress_output_seen" if "processed" in q.text else "progress_output_not_seen")
        elif workers == 0 or ex["pool"] == "real":
            cat = create(); sched = None
        else:
            with simpool.patched(simpool.Schedule(ex["pool"], seed=ex.get("seed", spec["dseed"]))) as mp:
                cat = create()
            sched = list(mp.delivery)
    finally:
        impl.set_threads(16)
    # --- the caller works on what the getters hand out (every array the public getters return is the caller's to use):
    #     the catalog, live and reopened, must still hold the input afterwards
    if (spec["dseed"] + idx) % 2 == 0:
        for patch in cat.values():
            for getter in ("load_data", "coords", "weights", "redshifts"):
                try:
                    val = getattr(patch, getter)
                    val = val() if callable(val) else val
                except Exception:  # noqa: BLE001 - a getter that refuses is not this check's subject
                    continue
                arr = val if isinstance(val, np.ndarray) else getattr(val, "data", None)   # AngularCoordinates.data
                if isinstance(arr, np.ndarray) and arr.size and arr.flags.writeable:
                    try:
                        if arr.dtype.names:
                            for nm in arr.dtype.names:
                                arr[nm] = arr[nm] * 2.0 + 1.0
                        else:
                            arr *= 2.0
                            arr += 1.0
                        ctx.bump("returned_arrays_overwritten_by_caller")
                    except Exception:  # noqa: BLE001
                        pass
    # --- observe ---
    stored = impl.patch_records(cat)
    reopened = impl.patch_records(impl.Catalog(cache, max_workers=1))
    reopen_same = (sorted(stored) == sorted(reopened) and
                   all(stored[p].tobytes() == reopened[p].tobytes() and stored[p].dtype == reopened[p].dtype for p in stored))
    fields, names = inp["fields"], inp["names"]
    index = {}
    for i in range(n):
        index.setdefault(impl.row_key(*[f[i] for f in fields]), []).append(i)
    impl_patches, foreign, dtype_bad = [], [], False
    for p in sorted(stored):
        arr = stored[p]
        if list(arr.dtype.names) != names or any(arr.dtype[nm] != np.dtype("f8") for nm in names):
            dtype_bad = True
        ids = []
        for rec in arr:
            k = impl.row_key(*[rec[nm] for nm in arr.dtype.names])
            if index.get(k):
                ids.append(index[k].pop())
            else:
                foreign.append((p, [float(rec[nm]) for nm in arr.dtype.names]))
        impl_patches.append((p, sorted(ids)))
    lost = sorted(i for v in index.values() for i in v)
    # assignment as the implementation made it
    assign = [None] * n
    for p, ids in impl_patches:
        for i in ids:
            assign[i] = p
    pass  # shutil is imported at module level
    shutil.rmtree(cache, ignore_errors=True)
    return dict(impl_patches=impl_patches, assign=assign, sched=sched, lost=lost, foreign=foreign, dtype_bad=dtype_bad,
                reopen_same=reopen_same)


def judge(ctx, spec, inp, ex, obs, replay, idx):
    """the statements of C02 that can be read off one execution; returns the assignment with gaps filled"""
    n, mode = spec["n"], spec["mode"]
    assign = obs["assign"]
    if obs["foreign"] or obs["lost"] or obs["dtype_bad"]:
        ctx.fail("c02-record-set", "stored records differ from the input (lost rows %s, foreign/changed records %d, dtype_bad=%s)"
                 % (obs["lost"][:5], len(obs["foreign"]), obs["dtype_bad"]),
                 dict(replay, lost=obs["lost"], foreign=obs["foreign"][:5]), case=idx)
    if not obs["reopen_same"]:
        ctx.fail("c02-reopen", "catalog reopened from its cache directory holds different records", replay, case=idx)
    expect = inp["expect"]
    if mode == "name":
        wrong = [i for i in range(n) if assign[i] is not None and assign[i] != expect[i]]
        if wrong:
            ctx.fail("c02-named-patch", "record stored in another patch than the one named (rows %s)" % wrong[:5], replay, case=idx)
    elif HAS_CENTRES[mode]:
        wrong = []
        for i in range(n):
            if expect[i] is None:
                ctx.bump("near_tie_skipped")
            elif assign[i] is not None and expect[i] != assign[i]:
                wrong.append((i, assign[i], expect[i]))
        if wrong and mode == "both":
            bycol = sum(1 for (i, a, e) in wrong if a == inp["pidcol"][i])
            ctx.fail("c02-nearest-centre-with-index-column",
                     "patch_centers and patch_name both given (documented: patch_name is ignored): %d record(s) not stored with their "
                     "nearest centre, %d of them in the patch the index column names: (row, stored in, nearest) %s"
                     % (len(wrong), bycol, wrong[:5]), replay, case=idx)
        elif wrong:
            ctx.fail("c02-nearest-centre", "record not stored with its nearest centre: %s" % wrong[:5], replay, case=idx)
    return [a if a is not None else 0 for a in assign]


def is_refusal(spec, e):
    """inputs the property does not promise to accept: fewer records than centres (some centre stays empty, C09/C12),
    or generated centres (patch_num) of which one attracts no record / fewer records than patches"""
    if spec["mode"] == "create":
        # the k-means step (treecorr, randomly initialised) may leave a centre without any record: its coordinates are NaN and
        # the assignment refuses them ("array must not contain infs or NaNs"); with worker processes that refusal reaches the
        # caller as RuntimeError("writer process failed") whose context is the ValueError - follow the chain
        chain, seen = [], set()
        x = e
        while x is not None and id(x) not in seen:
            seen.add(id(x))
            chain.append(x)
            x = x.__cause__ or x.__context__
        for x in chain:
            if isinstance(x, ValueError) and ("contains no data" in str(x) or "patch centers and patch IDs with data do not match" in str(x)
                                              or "must not contain infs or NaNs" in str(x)):
                return True
        return isinstance(e, ValueError) and spec["n"] < spec["ncent"]
    if not isinstance(e, ValueError):
        return False
    msg = str(e)
    if HAS_CENTRES[spec["mode"]] and spec["n"] < spec["ncent"]:
        return "contains no data" in msg or "patch centers and patch IDs with data do not match" in msg
    return False


def one_case(ctx, spec, idx):
    inp = build_input(ctx, spec, idx)
    ex = normalise_exec(dict(workers=spec["workers"], pool=spec["pool"], wvia=spec.get("wvia", "arg"),
                             progress=spec.get("progress", False), history=spec.get("history", False)))
    n, cs, workers = spec["n"], spec["cs"], spec["workers"]
    obs = execute(ctx, spec, inp, ex, idx)
    sched = obs["sched"]
    impl_patches = obs["impl_patches"]
    replay = dict(spec=spec, sched=sched)
    assign = judge(ctx, spec, inp, ex, obs, replay, idx)
    term = "c02_case %s %s %s %s %s %s %s" % (
        fq.nat(n), fq.nat(cs), fq.nat(workers),
        fq.nlist(assign),
        fq.nlist(sched if sched is not None else (range(-(-n // cs) * workers) if workers else [])),
        fq.z(-1),
        fq.lst([fq.pair(fq.nat(p), fq.nlist(ids)) for p, ids in impl_patches]))
    nontrivial = n > cs or workers > 1
    ctx.count(key=tuple(sorted((k, str(v)) for k, v in spec.items())), nontrivial=nontrivial,
              kind="%s/%s/w%d" % (spec["fmt"], spec["mode"], workers))
    ctx.bump("n_rel_cs:" + ("lt" if n < cs else "eq" if n == cs else "mult" if n % cs == 0 else "rem%d" % min(n % cs, 2)))
    bump_options(ctx, spec, ex)
    ctx.sample(dict(spec=spec, sched=sched, impl_patches=impl_patches), limit=3)
    return term, replay, inp["d2r"]


def bump_options(ctx, spec, ex):
    how = "seq" if ex["workers"] == 0 else ("realpool" if ex["pool"] == "real" else "simpool")
    ctx.bump("mode_x_exec:%s%s/%s" % (spec["mode"], "(catalog)" if HAS_CENTRES[spec["mode"]] and spec["cent_as"] == "catalog" else "", how))
    ctx.bump("workers_via:%s" % ex["wvia"])
    if ex["progress"]:
        ctx.bump("progress_on/%s" % how)
    if ex["history"]:
        ctx.bump("overwrite_older_catalog/%s" % how)
    if spec["extra_num"] and spec["mode"] != "create":
        ctx.bump("outranked_patch_num")
    if spec["mode"] == "both":
        ctx.bump("index_column_next_to_centres:%s" % spec["pidpat"])


def matrix_case(ctx, mspec, idx):
    """one input, several executions: sequential, simulated pool, real pool, ... (Model/Writer.v: c02_matrix_case)"""
    spec, execs = mspec["spec"], mspec["execs"]
    inp = build_input(ctx, spec, idx)
    n, cs, mode = spec["n"], spec["cs"], spec["mode"]
    runs, replay = [], dict(spec=spec, execs=execs, scheds=[])
    for j, ex in enumerate(execs):
        obs = execute(ctx, spec, inp, ex, idx, tag="_x%d" % j)
        replay["scheds"].append(obs["sched"])
        judge(ctx, spec, inp, ex, obs, dict(spec=spec, exec=ex, sched=obs["sched"]), idx)
        runs.append((ex, obs))
        bump_options(ctx, spec, ex)
    # independence of the execution, observed directly
    ref_ex, ref = runs[0]
    for ex, obs in runs[1:]:
        if obs["impl_patches"] != ref["impl_patches"]:
            diff = [i for i in range(n) if obs["assign"][i] != ref["assign"][i]]
            ctx.fail("c02-execution-dependence",
                     "the same creation call on the same input stored different per-patch record sets when run %s and when run %s "
                     "(rows stored elsewhere: %s)" % (describe(ref_ex), describe(ex), diff[:8]),
                     dict(replay, first=ref_ex, second=ex, patches_first=ref["impl_patches"], patches_second=obs["impl_patches"]),
                     case=idx)
            break
    # the key the documented precedence selects; a near tie (never with the generated clusters) takes the first run's side
    near, pidcol = [], []
    if HAS_CENTRES[mode]:
        near = [e if e is not None else (ref["assign"][i] or 0) for i, e in enumerate(inp["expect"])]
        if any(e is None for e in inp["expect"]):
            ctx.bump("matrix_near_tie_filled")
    if HAS_COLUMN[mode]:
        pidcol = inp["pidcol"]
    term = "c02_matrix_case %s %s %s %s %s %s %s %s" % (
        fq.nat(n), fq.nat(cs), fq.b(HAS_CENTRES[mode]), fq.b(HAS_COLUMN[mode]), fq.nlist(near), fq.nlist(pidcol), fq.z(-1),
        fq.lst([fq.pair(fq.pair(fq.nat(ex["workers"]),
                                fq.nlist(obs["sched"] if obs["sched"] is not None
                                         else (range(-(-n // cs) * ex["workers"]) if ex["workers"] else []))),
                        fq.lst([fq.pair(fq.nat(p), fq.nlist(ids)) for p, ids in obs["impl_patches"]]))
                for ex, obs in runs]))
    wk = sorted({ex["workers"] for ex in execs})
    ctx.count(key=("matrix",) + tuple(sorted((k, str(v)) for k, v in spec.items())) + (repr(execs),),
              nontrivial=len(wk) > 1, kind="matrix/%s/%s/x%d" % (spec["fmt"], mode, len(execs)))
    ctx.sample(dict(matrix=mspec, scheds=replay["scheds"], impl_patches=ref["impl_patches"]), limit=2)
    return term, replay, inp["d2r"]


def describe(ex):
    if ex["workers"] == 0:
        how = "sequentially"
    else:
        how = "on %d workers (%s)" % (ex["workers"], "real pool" if ex["pool"] == "real" else "simulated pool, %s delivery" % ex["pool"])
    return "%s [workers via %s, progress=%s, overwrite history=%s]" % (how, ex["wvia"], ex["progress"], ex["history"])


PIDPATS = ["shift", "shift", "random", "rownum", "const", "beyond", "same"]


def specs(ctx):
    rng = ctx.rng
    out = []
    css = [1, 2, 3, 5, 7, 16]
    combos = []
    for cs in css:
        for n in sorted({1, max(1, cs - 1), cs, cs + 1, 2 * cs - 1 if cs > 1 else 2, 2 * cs, 2 * cs + 1, 3 * cs, 3 * cs + 1}):
            combos.append((n, cs))
    if ctx.quick():
        rng.shuffle(combos)
        combos = combos[:26]
    fmts = ["df", "df", "fits", "hdf5", "parquet"]
    if not ctx.quick():
        # thorough: lengths 1..40 x chunk sizes 1..12 (a seeded sample of the full grid on top of the boundary set)
        grid = [(n, cs) for n in range(1, 41) for cs in range(1, 13)]
        rng.shuffle(grid)
        combos = combos + grid[:360]
    for (n, cs) in combos:
        for rep in range(ctx.n(1, 3)):
            workers = rng.choice([0, 2, 3, 4])
            spec = dict(n=n, cs=cs, workers=workers, fmt=rng.choice(fmts), mode=rng.choice(["centers", "name", "both", "both"]),
                        weights=rng.random() < 0.5, redshifts=rng.random() < 0.5,
                        dtype=rng.choice(["f8", "f8", "f4", "i8"]), degrees=rng.random() < 0.8,
                        pool=rng.choice(["random", "reverse", "identity"]), ncent=rng.choice([1, 2, 3, 4]),
                        idstride=rng.choice([1, 1, 3, 1000]), dseed=rng.randrange(10 ** 6),
                        cent_as=rng.choice(["coords", "coords", "catalog"]), extra_num=rng.random() < 0.25,
                        pidpat=rng.choice(PIDPATS), piddtype=rng.choice(["i8", "i8", "i4"]),
                        wvia=rng.choice(["arg", "arg", "env", "cap"]), progress=rng.random() < 0.3,
                        history=rng.random() < 0.3)
            if rng.random() < 0.12 and n >= 2:
                # generated centres (patch_num): at least two records per patch to be
                spec["mode"] = "create"
                spec["ncent"] = rng.choice([k for k in (1, 2, 3) if 2 * k <= n])
            if spec["fmt"] == "parquet":
                spec["rgsize"] = rng.choice([1, max(1, cs - 1), cs, cs + 1, max(1, n),
                                             [2 * cs + 1, 1, 1], [cs + 2, 2, 1, cs], [n // 2 + 1, 1, 2], [3 * cs, cs - 1 or 1, 1, 1, 1],
                                             [rng.randrange(1, cs + 2) for _ in range(rng.choice([3, 5, 7]))],
                                             [rng.randrange(1, cs + 2) for _ in range(rng.choice([3, 5, 7]))],
                                             [max(1, cs - 2), 1, 1, 2, 1], [(cs + 1) // 2, 1]])
            out.append(spec)
    # a few runs on the real multiprocessing pool
    for k in range(ctx.n(5, 12)):
        cs = rng.choice([2, 3, 5])
        out.append(dict(n=rng.choice([2 * cs + 1, 3 * cs, 7]), cs=cs, workers=rng.choice([2, 3, 4]), fmt="df",
                        mode=rng.choice(["centers", "name", "both"]), weights=True, redshifts=True, dtype="f8", degrees=True,
                        pool="real", ncent=3, idstride=1, dseed=rng.randrange(10 ** 6),
                        cent_as="coords", extra_num=False, pidpat=rng.choice(["shift", "random", "rownum"]), piddtype="i8",
                        wvia=rng.choice(["arg", "env", "cap"]), progress=rng.random() < 0.5, history=False))
    return out


def matrix_specs(ctx):
    """one input x several executions.  Patch modes and source formats are cycled (not drawn) so that every seed of
    the quick tier meets every patch mode on every kind of execution, from a data frame and from a file."""
    rng = ctx.rng
    out = []
    modes = ["both", "centers", "name", "both", "both", "name", "centers", "both"]
    fmts = ["df", "fits", "hdf5", "parquet", "df"]
    count = ctx.n(20, 80)
    for k in range(count):
        mode, fmt = modes[k % len(modes)], fmts[k % len(fmts)]
        cs = rng.choice([1, 2, 3, 5, 7])
        ncent = rng.choice([2, 3, 4]) if mode != "name" or rng.random() < 0.8 else 1
        n = max(ncent, rng.choice([cs, cs + 1, 2 * cs - 1, 2 * cs, 2 * cs + 1, 3 * cs, 3 * cs + 1]))
        spec = dict(n=n, cs=cs, fmt=fmt, mode=mode, weights=rng.random() < 0.5, redshifts=rng.random() < 0.5,
                    dtype=rng.choice(["f8", "f8", "f4", "i8"]), degrees=rng.random() < 0.8, ncent=ncent,
                    idstride=rng.choice([1, 1, 3, 1000]), dseed=rng.randrange(10 ** 6),
                    cent_as="catalog" if (mode != "name" and k % 3 == 2) else "coords", extra_num=rng.random() < 0.25,
                    # in the matrix the column always contradicts the centres somewhere (or names patches without a centre)
                    pidpat=["shift", "random", "rownum", "beyond", "const"][k % 5] if k % 8 else "shift",
                    piddtype=rng.choice(["i8", "i8", "i4"]))
        if fmt == "parquet":
            spec["rgsize"] = rng.choice([1, max(1, cs - 1), cs, cs + 1, max(1, n), [2 * cs + 1, 1, 1], [cs + 2, 2, 1, cs], [n // 2 + 1, 1, 2],
                                         [rng.randrange(1, cs + 2) for _ in range(rng.choice([3, 5, 7]))], [max(1, cs - 2), 1, 1, 2, 1], [(cs + 1) // 2, 1]])
        pools = ["random", "reverse", "identity"]
        execs = [dict(workers=0, pool="identity", wvia="arg", progress=False, history=False),
                 dict(workers=0, pool="identity", wvia=rng.choice(["env", "cap"]), progress=True, history=rng.random() < 0.6),
                 dict(workers=2, pool=rng.choice(pools), wvia=rng.choice(["arg", "env", "cap"]), progress=rng.random() < 0.5,
                      history=rng.random() < 0.2, seed=rng.randrange(10 ** 6)),
                 dict(workers=rng.choice([3, 4]), pool=rng.choice(pools), wvia=rng.choice(["arg", "env", "cap"]),
                      progress=rng.random() < 0.5, history=False, seed=rng.randrange(10 ** 6))]
        if k % 2 == 0 or not ctx.quick():
            execs.append(dict(workers=rng.choice([2, 3, 4]), pool="real", wvia=rng.choice(["arg", "env", "cap"]),
                              progress=rng.random() < 0.5, history=rng.random() < 0.2))
        out.append(dict(spec=spec, execs=execs))
    return out


def coq_str(x):
    assert all(32 <= ord(c) < 127 for c in x), x
    return '"%s"%%string' % x.replace('"', '""')


def run_paths(ctx):
    """get_patch_path_from_id / get_id_from_patch_path against Model/PatchPath.v over cache directory strings of any shape
    (parents named like patch folders and library files, underscores, braces, dots, trailing parts) and ids 0 .. 32767,
    plus arbitrary strings for the inverse (None = it raised)."""
    from yaw.catalog.catalog import get_id_from_patch_path, get_patch_path_from_id
    rng = ctx.rng
    parts = ["data", "npatch_8", "patch_3", "patch_12", "x{a}", "y{{", "z{}", "n{0}", "a_b_c", "run.1", "cat", "patch_ids.bin", "_", "p_",
             "trees.pkl", "patch_", "patch", "7", "patch_007", "a b", "patch_1_2", "-patch_5"]
    terms, metas = [], []
    for k in range(ctx.n(120, 1200)):
        dirs = "/" + "/".join(rng.choice(parts) for _ in range(rng.randrange(1, 5))) if rng.random() < 0.8 else \
            "/".join(rng.choice(parts) for _ in range(rng.randrange(1, 4)))
        pid = rng.choice([0, 1, 2, 9, 10, 11, 99, 100, 101, 255, 256, 999, 1000, 32767, rng.randrange(0, 32768)])
        got_path = str(get_patch_path_from_id(dirs, pid))
        try:
            got_id = int(get_id_from_patch_path(got_path))
        except Exception:  # noqa: BLE001
            got_id = None
        anyp = dirs if rng.random() < 0.5 else dirs + "/" + rng.choice(parts)
        try:
            any_id = int(get_id_from_patch_path(anyp))
        except Exception:  # noqa: BLE001
            any_id = None
        if any_id is not None and any_id < 0:
            ctx.bump("paths:negative-id-read")      # int("-5"): outside the model (ids are naturals); not produced by the template
            anyp, any_id = dirs, None
            try:
                any_id = int(get_id_from_patch_path(anyp))
            except Exception:  # noqa: BLE001
                any_id = None
            if any_id is not None and any_id < 0:
                continue
        opt = lambda v: "None" if v is None else "(Some %d)" % v   # noqa: E731
        terms.append("c02_path_case %s %d %s %s %s %s" % (coq_str(dirs), pid, coq_str(got_path), opt(got_id), coq_str(anyp), opt(any_id)))
        metas.append(dict(dir=dirs, id=pid, path=got_path, read_back=got_id, any=anyp, any_id=any_id))
        ctx.count(key=("path", dirs, pid, anyp), nontrivial=True, kind="paths/%s" % ("inverse-defined" if any_id is not None else "inverse-raises"))
        if got_id != pid:
            ctx.fail("c02-patch-folder-does-not-read-back-its-id", "get_id_from_patch_path(get_patch_path_from_id(%r, %d)) gave %r" % (dirs, pid, got_id),
                     metas[-1], case=("path", k))
    hdr = "From Verif Require Import PatchPath.\nFrom Coq Require Import String List.\nImport ListNotations.\nOpen Scope nat_scope.\n"
    codes = ctx.shards("Paths_C02", hdr, terms, shard=300)
    for m, c in zip(metas, codes):
        if c:
            ctx.disagree("Paths_C02", ("path", m["dir"], m["id"]), dict(code=c, meta=m))


def run_relocation(ctx):
    """"a catalog reopened from its cache directory holds the same records" - wherever that directory is NOW: a cache is moved,
    renamed, copied or reached through a link, and its old place is taken by another catalog; the reopened catalog must hold the
    records it was created from (compared by bit pattern, patch by patch), not those of the place it was created at."""
    rng = ctx.rng

    def table(n, seed_shift):
        return {"ra": [20.0 + ((i * 37 + seed_shift) % 101) * 0.05 for i in range(n)], "dec": [-5.0 + ((i * 53 + seed_shift) % 89) * 0.05 for i in range(n)],
                "w": [1.0 + ((i + seed_shift) % 7) * 0.25 for i in range(n)], "pid": [(i * 7 + seed_shift) % 4 for i in range(n)]}

    def create(path, cols, workers):
        return impl.Catalog.from_dataframe(path, impl.make_df(cols), ra_name="ra", dec_name="dec", weight_name="w", patch_name="pid",
                                           overwrite=True, max_workers=workers)

    def view(cat):
        return {int(k): v.tobytes() for k, v in impl.patch_records(cat).items()}

    for k in range(ctx.n(6, 40)):
        how = ["move", "rename", "copy", "symlink", "move-relative"][k % 5]
        workers = rng.choice([1, 2])
        first, second = table(rng.choice([23, 40]), k), table(rng.choice([31, 40]), k + 1000)
        old = impl.fresh_dir(ctx, "reloc_%d/old_place" % k)
        new = os.path.join(os.path.dirname(old), "new_place")
        os.makedirs(os.path.dirname(old), exist_ok=True)
        want = view(create(old, first, workers))
        if rng.random() < 0.5:
            view(impl.Catalog(old, max_workers=workers))          # reopened once in place before it is relocated
        if how in ("move", "move-relative"):
            shutil.move(old, new)
        elif how == "rename":
            os.rename(old, new)
        elif how == "copy":
            shutil.copytree(old, new)
        else:
            os.rename(old, old + ".real")
            os.symlink(old + ".real", new)
        other = view(create(old, second, workers))               # the old place now holds ANOTHER catalog
        here = os.getcwd()
        try:
            if how == "move-relative":
                os.chdir(os.path.dirname(new))
                got = view(impl.Catalog("new_place", max_workers=workers))
            else:
                got = view(impl.Catalog(new, max_workers=workers))
        except Exception as e:  # noqa: BLE001
            got = "raised %s: %s" % (type(e).__name__, str(e)[:200])
        finally:
            os.chdir(here)
        ctx.count(key=("reloc", k, how, workers), nontrivial=True, kind="relocation/%s" % how)
        if got != want:
            ctx.fail("c02-reopen-after-relocation:%s" % how,
                     "a cache that was %s and reopened from its new place holds %s" % (
                         how, "the records of the catalog created later at its OLD place" if got == other else
                         got if isinstance(got, str) else "other records than it was created from"),
                     dict(how=how, workers=workers, patches_want=sorted(want), patches_got=sorted(got) if isinstance(got, dict) else got),
                     case=("reloc", k, how))
        shutil.rmtree(os.path.dirname(old), ignore_errors=True)


def run(ctx):
    run_paths(ctx)
    run_relocation(ctx)
    terms, replays, d2r_all = [], [], []
    jobs = [("single", s) for s in specs(ctx)] + [("matrix", m) for m in matrix_specs(ctx)]
    for idx, (what, spec) in enumerate(jobs):
        try:
            if what == "single":
                term, replay, d2r = one_case(ctx, spec, idx)
            else:
                term, replay, d2r = matrix_case(ctx, spec, idx)
        except Exception as e:  # creation of a valid input must not raise
            base = spec if what == "single" else spec["spec"]
            if is_refusal(base, e):
                # fewer records than given centres: some centre is empty and creation must refuse (C09/C12)
                ctx.bump("skipped_fewer_records_than_centres" if base["mode"] != "create" else "skipped_generated_centre_without_records")
                continue
            import traceback
            ctx.count(key=(what,) + tuple(sorted((k, str(v)) for k, v in base.items())), kind="raised")
            ctx.fail("c02-raises:%s" % type(e).__name__,
                     "creating a catalog from a valid input raised %s: %s" % (type(e).__name__, e),
                     dict(spec=spec, traceback=traceback.format_exc()[-1500:]), case=idx)
            continue
        terms.append(term)
        replays.append((idx, what, replay))
        d2r_all.extend(d2r)
    codes = ctx.shards("Cases_C02", HEADER, terms, shard=60)
    for (idx, what, replay), c in zip(replays, codes):
        if c is None or c == 0:
            continue
        if what == "single":
            if c & 2 or c & 4:
                ctx.fail("c02-partition", "per-patch record sets differ from the assignment (code %d)" % c, replay, case=idx)
            if c & 1 or c & 8:
                ctx.disagree("Cases_C02", idx, dict(code=c, replay=replay))
        else:
            if c & 2:
                ctx.fail("c02-partition-by-documented-key",
                         "in some execution the per-patch record sets are not the split of the input by the key the documented "
                         "precedence selects (patch_centers > patch_name) (code %d)" % c, replay, case=idx)
            if c & 4:
                ctx.fail("c02-execution-dependence",
                         "the same creation call on the same input stored different per-patch record sets in two executions "
                         "(code %d)" % c, replay, case=idx)
            if c & 1 or c & 8:
                ctx.disagree("Cases_C02", idx, dict(code=c, replay=replay))
    # degrees -> radian, exact to rounding: the rational test c02_deg2rad_case (Model/Deg2Rad.v) against the proven
    # enclosure pi_lo < PI < pi_hi; Proofs/Deg2RadP.v:deg2rad_case_sound turns code 0 into
    # |stored - x*PI/180| <= (2^-51 + 1e-36) * |x|*PI/180 over the reals
    if d2r_all:
        t = ["c02_deg2rad_case %s %s" % (fq.q(x), fq.q(s)) for x, s in d2r_all]
        hdr = "From Verif Require Import Prelude Deg2Rad.\nOpen Scope Q_scope.\n"
        codes = ctx.shards("Deg2Rad_C02", hdr, t, shard=400)
        bad = [d2r_all[i] for i, c in enumerate(codes) if c]
        if bad:
            ctx.fail("c02-deg2rad", "stored radian value is not the degree input times pi/180 to rounding: %s" % bad[:3],
                     dict(pairs=bad[:10]))
        import re as _re
        from lib import coqrun as _cr
        path = os.path.join(ctx.workdir, "Deg2RadSound_C02.v")
        with open(path, "w") as f:
            f.write("From Verif Require Import Prelude Deg2Rad Deg2RadP.\nCheck deg2rad_case_sound.\nPrint Assumptions deg2rad_case_sound.\n")
        rc, out = _cr.coqc_file(path, 600)
        names = sorted(set(_re.findall(r"^([A-Za-z_][\w\.']*)(?:\s*:|\s*$)", out, _re.M)) - {"Axioms", "deg2rad_case_sound"})
        ok_prefix = ("Uint63.", "PrimInt63.", "ClassicalDedekindReals.", "FunctionalExtensionality.", "Classical_Prop.")
        unexpected = [n for n in names if not n.startswith(ok_prefix)]
        ctx.extra["deg2rad_soundness_axioms"] = names
        ctx.obligation("lemma:deg2rad_case_sound (Proofs/Deg2RadP.v) compiled, axioms as expected", rc == 0 and not unexpected,
                       "unexpected: %s\n%s" % (unexpected, out[-1500:]))
