"""C11 — every persisted product reads back equal to what was written.

Tie: real files under ctx.workdir for every codec.
 * HDF5: random CorrFunc / NormalisedCounts containers (1-6 patches, 1-5 bins, sparse / all-zero /
   dense counts, both closed sides, auto/cross, all 7 member subsets) through to_file/from_file;
   `==`, bit-identity of the downstream sample() and, per member, the datasets found in the file
   (patch_pairs, binned_counts) and the counts read back are compared in Coq with
   Model/Codec.v (sparse_enc / sparse_dec, members_enc / members_dec).
 * text: CorrData / RedshiftData / HistData through to_files/from_files; the harness passes the
   decimal digits of every written number, the tokens found in the files and the values read
   back; Coq (c11_case_ascii) checks the writer model, the reader model (current or repaired)
   and the precision proved in fixed_width_error.
 * YAML: Configuration over methods x closed x units x scale lists x cosmology, custom edges;
   Metadata; edges compared as bit patterns, the edge generator is the implementation's own.
 * catalogs through their cache directory (a few; the full check is C02's).
"""
import math
import os
import shutil
import traceback
import warnings

import numpy as np

from lib import floatq as fq
from lib import impl

ALLOWED_AXIOMS = []
TRUSTED = [
    "h5py, PyYAML, np.loadtxt tokenisation and float() parsing, python float formatting are exercised through the round trips, not modelled; "
    "the decimal digits of f'{x: .10f}' passed to Coq are re-validated there against the exact binary value (|x - D| <= 1/2 10^-w)",
    "the bin-edge generator (np.linspace / np.logspace / astropy z_at_value) is an oracle: the model only states that from_dict calls it on the stored zmin, zmax, num_bins",
]
ASSUMPTIONS = [
    "config_roundtrip assumes endpoints_exact_at (generated edges start at zmin, end at zmax, num_bins+1 of them) for the configuration at hand; evaluated per case (flag 3 of c11_case_config)",
    "text files: values are compared to |y - x| < 10^-k + 1/2 10^-w + 2^-52 |y|, k = max(0, w - ndigits - 1); bin edges closer than 10^-k are not generated",
    "counts arrays contain finite values (NaN counts are not equal to themselves under the containers' own ==)",
]
RULE = ("cases = (codec, container class, bins, patches, closed, auto, member subset, count pattern | value classes | "
        "binning method, unit, scale list, cosmology) + data seed; distinct by that tuple; non-trivial when the case "
        "exercises a branch of the codec: a patch pair with zero and non-zero bins or an absent member (HDF5), a value "
        "with cut digits / nan / inf or a single bin (text), regenerated or custom edges (YAML)")

HEADER = "From Verif Require Import Prelude Codec.\nOpen Scope Q_scope.\n"
KINDS = ("dd", "dr", "rd", "rr")
GROUPS = ("data_data", "data_random", "random_data", "random_random")
KCOQ = ("DD", "DR", "RD", "RR")


# ------------------------------------------------------------------ encoders
def xv(x):
    x = float(x)
    if math.isnan(x):
        return "XNaN"
    if math.isinf(x):
        return "XPInf" if x > 0 else "XNInf"
    return "(XF %s)" % fq.q(x)


def dec_digits(x, w):
    """digits of f"{x: .{w}f}" (the already rounded decimal the writer starts from)"""
    s = f"{float(x): .{w}f}"
    if "nan" in s:
        return "DNaN"
    if "inf" in s:
        return "DNInf" if "-" in s else "DPInf"
    neg = s[0] == "-"
    ip, frac = s[1:].split(".")
    return "(DFin %s %s %s)" % (fq.b(neg), fq.z(int(ip)), fq.z(int(frac)))


def cell(x, w):
    return "(%s, %s)" % (xv(x), dec_digits(x, w))


def token(tok):
    t = tok.lower()
    if t in ("nan", "+nan", "-nan"):
        return "TNaN"
    if t in ("inf", "+inf"):
        return "TPInf"
    if t == "-inf":
        return "TNInf"
    neg = t.startswith("-")
    body = t.lstrip("+-")
    ip, dot, fr = body.partition(".")
    if not ip.isdigit() or (fr and not fr.isdigit()):
        return "(TNum false (-1)%Z 0%Z 0%Z)"   # not a fixed-point numeral: cannot match the model
    return "(TNum %s %s %s %s)" % (fq.b(neg), fq.z(int(ip)), fq.z(int(fr) if fr else 0), fq.z(len(fr)))


def file_tokens(path):
    rows = []
    for line in open(path):
        if line.startswith("#") or not line.strip():
            continue
        rows.append([token(t) for t in line.split()])
    return rows


def q3(arr):
    return fq.lst([fq.qmat(m) for m in np.asarray(arr).tolist()])


def obool3(p):
    return "None" if p is None else "(Some (%s, %s, %s))" % tuple(fq.b(x) for x in p)


# ------------------------------------------------------------------ HDF5
def rand_edges(rng, nb, lo=0.0, step_choices=(0.125, 0.25, 0.5)):
    e = [lo + rng.randrange(0, 8) / 16.0]
    for _ in range(nb):
        e.append(e[-1] + rng.choice(step_choices))
    return e


def rand_counts(rng, B, N, pattern):
    c = np.zeros((B, N, N))
    if pattern == "zero":
        return c
    if pattern == "fewpairs":
        # many patches, few linked pairs (what a survey-sized measurement stores), the corners of the index range included
        pairs = {(N - 1, N - 1), (N - 1, 0), (0, N - 1), (N // 2, N - 1), (N - 1, N - 2)}
        while len(pairs) < min(48, N * N):
            pairs.add((rng.randrange(N), rng.randrange(N)))
        for (i, j) in sorted(pairs):
            for b in range(B):
                if rng.random() < 0.8:
                    c[b, i, j] = rng.randrange(1, 64) / 8.0
        return c
    for i in range(N):
        for j in range(N):
            if pattern == "dense":
                for b in range(B):
                    c[b, i, j] = rng.randrange(1, 64) / 8.0
            elif pattern == "onebin":
                if rng.random() < 0.6:
                    c[rng.randrange(B), i, j] = rng.randrange(1, 64) / 8.0
            elif pattern == "diag":
                if i == j:
                    for b in range(B):
                        c[b, i, j] = rng.randrange(0, 5) / 4.0
            elif pattern == "signed":
                # counts of either sign (negative object weights) whose bins may cancel: [3, -3, 0]
                if rng.random() < 0.7:
                    v = rng.randrange(1, 64) / 8.0
                    bs = list(range(B)); rng.shuffle(bs)
                    c[bs[0], i, j] = v
                    if B >= 2 and rng.random() < 0.7:
                        c[bs[1], i, j] = -v
                    for b in bs[2:]:
                        if rng.random() < 0.3:
                            c[b, i, j] = rng.randrange(-32, 33) / 8.0
            else:  # sparse: every bin of every pair independently zero
                if rng.random() < 0.55:
                    for b in range(B):
                        if rng.random() < 0.55:
                            c[b, i, j] = rng.randrange(1, 64) / 8.0
    return c


def make_ncounts(rng, binning, B, N, auto, pattern):
    from yaw.correlation.paircounts import NormalisedCounts, PatchedCounts, PatchedSumWeights
    counts = PatchedCounts(binning, rand_counts(rng, B, N, pattern), auto=auto)
    s1 = np.array([[rng.randrange(1, 40) / 4.0 for _ in range(N)] for _ in range(B)])
    s2 = s1.copy() if auto else np.array([[rng.randrange(1, 40) / 4.0 for _ in range(N)] for _ in range(B)])
    return NormalisedCounts(counts, PatchedSumWeights(binning, s1, s2, auto=auto))


def sample_outcome(cf):
    with np.errstate(all="ignore"), warnings.catch_warnings():
        warnings.simplefilter("ignore")
        try:
            s = cf.sample()
            return ("ok", type(s).__name__, s.data.tobytes(), s.samples.tobytes(),
                    s.binning.edges.tobytes(), str(s.binning.closed))
        except Exception as e:  # e.g. rr without dr: the estimator is undefined on both sides
            return ("raise", type(e).__name__)


def ncounts_diff(a, b):
    """name of the first component of two NormalisedCounts that differs (bit patterns), or None"""
    if str(a.binning.closed) != str(b.binning.closed):
        return "closed"
    if a.binning.edges.tobytes() != b.binning.edges.tobytes():
        return "edges"
    if bool(a.auto) != bool(b.auto):
        return "auto"
    if a.counts.counts.shape != b.counts.counts.shape or not np.array_equal(a.counts.counts, b.counts.counts):
        return "counts"
    if (a.sum_weights.sum_weights1.tobytes() != b.sum_weights.sum_weights1.tobytes()
            or a.sum_weights.sum_weights2.tobytes() != b.sum_weights.sum_weights2.tobytes()):
        return "sum-weights"
    return None


def hdf_case(ctx, spec, idx, out):
    import h5py
    import random
    from yaw.binning import Binning
    from yaw.correlation.corrfunc import CorrFunc
    from yaw.correlation.paircounts import NormalisedCounts
    rng = random.Random(spec["dseed"])
    B, N = spec["bins"], spec["patches"]
    binning = Binning(rand_edges(rng, B), closed=spec["closed"])
    present = spec["present"]            # (dr, rd, rr)
    members = {"dd": make_ncounts(rng, binning, B, N, spec["auto"], spec["pattern"])}
    for k, p in zip(KINDS[1:], present):
        if p:
            members[k] = make_ncounts(rng, binning, B, N, spec["auto"], rng.choice([spec["pattern"], "sparse", "zero"]))
    path = os.path.join(ctx.workdir, "cf_%d.hdf5" % idx)
    case = ("hdf", idx)
    replay = dict(spec=spec, counts={k: v.counts.counts.tolist() for k, v in members.items()} if N <= 8 else
                  "regenerate from spec (dseed) with harness/props/c11.py:hdf_case")
    if spec["container"] == "ncounts":
        obj = members["dd"]
        cls = NormalisedCounts
    else:
        obj = CorrFunc(**members)
        cls = CorrFunc
    # what was written is what is read back WHATEVER the path held before: every third case writes over an older product
    # with all four pair counts (same or other shape), or over a file that is no HDF5 file at all
    hist = ["fresh", "over-richer-same-shape", "over-richer-other-shape", "over-garbage"][idx % 4 if idx % 3 == 0 else 0]
    if hist.startswith("over-richer"):
        B2, N2 = (B, N) if hist.endswith("same-shape") else (B + 1, N + 2)
        bin2 = binning if hist.endswith("same-shape") else Binning(rand_edges(rng, B2), closed=spec["closed"])
        CorrFunc(**{k: make_ncounts(rng, bin2, B2, N2, spec["auto"], "dense") for k in KINDS}).to_file(path)
    elif hist == "over-garbage":
        with open(path, "wb") as f:
            f.write(b"not an hdf5 file" * 40)
    ctx.bump("hdf-history:%s" % hist)
    replay["path_held_before"] = hist
    try:
        obj.to_file(path)
    except Exception as e:
        ctx.fail("c11-hdf-write-raises:%s" % type(e).__name__, "to_file raised %r" % e,
                 dict(replay, traceback=traceback.format_exc()[-1200:]), case=case)
        return
    try:
        back = cls.from_file(path)
        err = None
    except Exception as e:
        back, err = None, e
    # ---- what is in the file
    def read_counts(root):
        try:
            return (root["counts"]["patch_pairs"][:].tolist(), root["counts"]["binned_counts"][:].tolist())
        except Exception:
            return None
    with h5py.File(path, "r") as f:
        if cls is CorrFunc:
            groups = [g for g in GROUPS if g in f]
            stored = {g: read_counts(f[g]) for g in groups}
        else:
            groups, stored = None, {"data_data": read_counts(f)}
    os.unlink(path)
    # which written member sits in which group: by name when the group names are the members'
    # own, otherwise by position (the i-th written member in the i-th group found)
    written = list(members)                                   # kinds in slot order
    expected = [GROUPS[KINDS.index(k)] for k in written]
    misnamed = cls is CorrFunc and groups != expected
    if cls is not CorrFunc:
        placed = [("dd", "data_data")]
    elif not misnamed:
        placed = list(zip(written, expected))
    elif len(groups) == len(written):
        placed = list(zip(written, groups))
    else:
        placed = []
    if misnamed:
        ctx.fail("c11-hdf-member-names",
                 "CorrFunc.to_hdf wrote members %s into groups %s (a member after an absent one lands under another member's name)"
                 % (written, groups), replay, case=case)
    if err is not None and not misnamed:
        ctx.fail("c11-hdf-read-raises:%s" % type(err).__name__, "from_file raised %r on a file written by to_file" % err,
                 replay, case=case)
    # ---- public observables (when the members are misplaced everything below differs as a consequence)
    after = None
    if back is not None:
        if cls is CorrFunc:
            after = tuple(getattr(back, k) is not None for k in KINDS[1:])
        if not misnamed:
            with warnings.catch_warnings():
                warnings.simplefilter("ignore")
                eq = bool(obj == back) and bool(back == obj)
            comp = None
            if cls is CorrFunc:
                if after != tuple(present):
                    comp = "members"
                else:
                    for k in members:
                        comp = comp or ncounts_diff(members[k], getattr(back, k))
            else:
                comp = ncounts_diff(obj, back)
            if not eq or comp:
                ctx.fail("c11-hdf-%s" % (comp or "eq"),
                         "%s read back from HDF5 differs from the one written (component: %s, == gives %s)" % (cls.__name__, comp, eq),
                         replay, case=case)
            if cls is CorrFunc:
                s1, s2 = sample_outcome(obj), sample_outcome(back)
                if s1 != s2:
                    ctx.fail("c11-hdf-sample", "sample() of the re-read CorrFunc differs from sample() of the original (%s vs %s)"
                             % (s1[:2], s2[:2]), replay, case=case)
                ctx.bump("sample:" + s1[0])
        else:
            s1, s2 = sample_outcome(obj), sample_outcome(back)
            ctx.bump("misnamed_members:sample_" + ("unchanged" if s1 == s2 else "silently_different" if s2[0] == "ok" else "raises"))
    # ---- Coq terms
    if cls is CorrFunc:
        glist = fq.lst([KCOQ[GROUPS.index(g)] for g in groups])
        out["members"].append((case, replay, "c11_case_members (%s, %s, %s) %s %s" % (
            fq.b(present[0]), fq.b(present[1]), fq.b(present[2]), glist, obool3(after)),
            "c11_members_writer (%s, %s, %s) %s" % (fq.b(present[0]), fq.b(present[1]), fq.b(present[2]), glist), misnamed))
    for k, g in placed:
        st = stored.get(g)
        got = getattr(back, KINDS[GROUPS.index(g)], None) if cls is CorrFunc else back
        if st is None or got is None:
            continue
        if N > 8:        # the dense literal would have B*N*N entries: these cases are compared on the objects above
            ctx.bump("hdf_large_N_object_comparison_only")
            continue
        pairs, rows = st
        out["sparse"].append((case, replay, "c11_case_sparse %s %s %s %s %s %s" % (
            fq.nat(B), fq.nat(N), q3(members[k].counts.counts),
            fq.lst([fq.pair(fq.nat(p[0]), fq.nat(p[1])) for p in pairs]),
            fq.qmat(rows), q3(got.counts.counts))))
    allc = [m.counts.counts for m in members.values()]
    mixed = any(np.any((c != 0).any(axis=0) & ~(c != 0).all(axis=0)) for c in allc)
    ctx.count(key=("hdf",) + tuple(sorted((k, str(v)) for k, v in spec.items())),
              nontrivial=mixed or not all(present) or any(not c.any() for c in allc),
              kind="hdf/%s/%s" % (spec["container"], "".join("1" if p else "0" for p in present)))
    ctx.bump("hdf_pattern:" + spec["pattern"])
    if idx < 1:
        ctx.sample(dict(codec="hdf5", spec=spec, groups=groups, stored_pairs=(stored.get("data_data") or [None])[0]), limit=6)


def hdf_specs(ctx, n):
    rng = ctx.rng
    subsets = [(a, b, c) for a in (True, False) for b in (True, False) for c in (True, False) if a or b or c]
    # deterministic probe: Landy-Szalay without rd (dd + dr + rr)
    out = [dict(container="corrfunc", bins=2, patches=2, closed="right", auto=False, present=(True, False, True),
                pattern="dense", dseed=11),
           dict(container="ncounts", bins=3, patches=3, closed="right", auto=False, present=(False, False, False),
                pattern="signed", dseed=12),
           dict(container="corrfunc", bins=2, patches=4, closed="left", auto=True, present=(True, False, False),
                pattern="signed", dseed=13)]
    # patch counts up to the hundreds (index arithmetic on patch pairs: N*N far beyond 16 bits)
    bigs = [182, 257, 150, 200, 320, 181, 183, 400, 512, 129, 255, 256]
    for i, N in enumerate(bigs[:ctx.n(4, 12)]):
        out.append(dict(container="corrfunc" if i % 3 else "ncounts", bins=1 + i % 2, patches=N, closed="right", auto=bool(i % 2),
                        present=subsets[i % 7] if i % 3 else (False, False, False), pattern="fewpairs", dseed=1000 + i))
    for i in range(n):
        container = "ncounts" if i % 9 == 8 else "corrfunc"
        out.append(dict(container=container, bins=rng.randrange(1, 6), patches=rng.randrange(1, 7),
                        closed=rng.choice(["left", "right"]), auto=rng.random() < 0.5,
                        present=subsets[i % 7] if container == "corrfunc" else (False, False, False),
                        pattern=["sparse", "signed", "zero", "onebin", "dense", "diag", "signed"][(i // 7) % 7],
                        dseed=rng.randrange(10 ** 9)))
    return out


# ------------------------------------------------------------------ text files
SPECIAL = [float("nan"), float("inf"), float("-inf")]
BOUNDARY = [9.99999999996, 0.99999999999, 99999999.99999, 0.00000004999, 5e-11, -5e-11, 123456789.5, 1234567.0999999999,
            12345678.95, -9.99999999996, 0.1, 0.3, 1e-7, 2.5e-8, 0.0, -0.0, 1.0, 1e10, 65536.0625]


def rand_value(rng, special, small=False):
    if small:   # values for which a second write/read cycle must be the identity (|v| < 1000)
        r = rng.random()
        if special and r < 0.12:
            return rng.choice(SPECIAL)
        if r < 0.3:
            return rng.choice([b for b in BOUNDARY if abs(b) < 1000.0])
        return float(rng.uniform(-1.0, 1.0) * rng.choice([1e-9, 1e-5, 1e-2, 1.0, 5.0, 50.0, 999.0]))
    r = rng.random()
    if special and r < 0.12:
        return rng.choice(SPECIAL)
    if r < 0.20:
        return rng.choice(BOUNDARY)
    mag = rng.choice([1e-9, 1e-5, 1e-2, 1.0, 1.0, 5.0, 50.0, 1234.5, 1e5, 1e7, 1e8, 1e9, 1e11])
    v = rng.uniform(-1.0, 1.0) * mag
    if rng.random() < 0.25:
        v = round(v, rng.choice([0, 2, 7, 8]))
    return float(v)


def cut_loses(v, w):
    """the value is nan/inf or the cut removes non-zero digits of its w-digit decimal"""
    if not math.isfinite(v):
        return True
    full = f"{v: .{w}f}"
    return full[max(w, len(full.split(".")[0])):].strip("0") != ""


def txt_case(ctx, spec, idx, out):
    import random
    from yaw.binning import Binning
    from yaw.correlation.corrdata import CorrData, PRECISION
    from yaw.redshifts import HistData, RedshiftData
    rng = random.Random(spec["dseed"])
    B, M = spec["bins"], spec["samples"]
    cls = dict(CorrData=CorrData, RedshiftData=RedshiftData, HistData=HistData)[spec["cls"]]
    if spec.get("fixed"):
        edges, data, samples = spec["fixed"]
    else:
        if spec["edge_kind"] == "redshift":
            edges = [round(rng.uniform(0.0, 0.3), rng.choice([1, 2, 9]))]
            for _ in range(B):
                edges.append(edges[-1] + rng.choice([0.05, 0.1, 0.25, round(rng.uniform(0.01, 0.4), 9), rng.uniform(0.01, 0.4)]))
        elif spec["edge_kind"] == "large":
            edges = [rng.choice([-3.5, 0.0, 99.25, 12345.678])]
            for _ in range(B):
                edges.append(edges[-1] + rng.choice([1.0, 2.5, 1000.125, rng.uniform(1.0, 5e6)]))
        else:  # dyadic
            edges = rand_edges(rng, B)
        small = spec["refix"] and spec["dseed"] % 2 == 0
        data = [rand_value(rng, spec["special"], small) for _ in range(B)]
        samples = [[rand_value(rng, spec["special"], small) for _ in range(B)] for _ in range(M)]
    w = int(PRECISION)
    case = ("txt", idx)
    replay = dict(spec=spec, edges=[float(e).hex() for e in edges], data=[repr(x) for x in data],
                  samples=[[repr(x) for x in s] for s in samples])
    with np.errstate(all="ignore"), warnings.catch_warnings():
        warnings.simplefilter("ignore")
        obj = cls(Binning(edges, closed=spec["closed"]), np.array(data, dtype="f8"), np.array(samples, dtype="f8"))
        err = np.asarray(obj.error, dtype="f8")
        prefix = os.path.join(ctx.workdir, "txt_%d" % idx)
        if idx % 3 == 0:      # the three files already exist, written for an older product with more bins and samples
            B0, M0 = B + 2, M + 3
            e0 = [0.01 * k for k in range(B0 + 1)]
            cls(Binning(e0, closed=spec["closed"]), np.arange(B0, dtype="f8") + 1.0, np.ones((M0, B0)) * 7.0).to_files(prefix)
            ctx.bump("txt-history:over-longer-files")
        try:
            obj.to_files(prefix)
        except Exception as e:
            ctx.fail("c11-ascii-write-raises:%s" % type(e).__name__, "to_files raised %r" % e,
                     dict(replay, traceback=traceback.format_exc()[-1200:]), case=case)
            return
        try:
            back, exc = cls.from_files(prefix), None
        except Exception as e:
            back, exc = None, e
        dat_tokens = file_tokens(prefix + ".dat")
        smp_tokens = file_tokens(prefix + ".smp")
        header = open(prefix + ".dat").readlines()[1]
        # fixed point: values that already fit the format must survive another cycle unchanged
        again = None
        small = all(abs(float(v)) < 1000.0 for v in list(data) + [x for r in samples for x in r] if math.isfinite(float(v)))
        if back is not None and spec["refix"] and small:
            try:
                back.to_files(prefix + "_b")
                again = cls.from_files(prefix + "_b")
            except Exception as e:
                again = e
    for ext in (".dat", ".smp", ".cov", "_b.dat", "_b.smp", "_b.cov"):
        if os.path.exists(prefix + ext):
            os.unlink(prefix + ext)
    # ---- public observables outside the numeric cells
    if back is not None:
        if type(back) is not cls:
            ctx.fail("c11-ascii-type", "from_files returned %s for a %s" % (type(back).__name__, cls.__name__), replay, case=case)
        if str(back.binning.closed) != spec["closed"]:
            ctx.fail("c11-ascii-closed", "closed side %s read back as %s (header: %s)" % (spec["closed"], back.binning.closed, header.strip()),
                     replay, case=case)
        if again is not None:
            if isinstance(again, Exception) or not (again == back):
                ctx.fail("c11-ascii-fixed-point", "a product read from the text files does not survive a second write/read cycle unchanged (%r)"
                         % (again if isinstance(again, Exception) else "== False"), replay, case=case)
            ctx.bump("txt_fixed_point_checked")
        reread = "(Some (%s, %s, %s))" % (fq.lst(back.binning.edges, xv), fq.lst(np.atleast_1d(back.data), xv),
                                          fq.lst([fq.lst(r, xv) for r in np.atleast_2d(back.samples)]))
    else:
        reread = "None"
    term = "c11_case_ascii %s %s %s %s %s %s %s %s" % (
        fq.z(w), fq.lst([cell(x, w) for x in obj.binning.edges]), fq.lst([cell(x, w) for x in obj.data]),
        fq.lst([cell(x, w) for x in err]), fq.lst([fq.lst([cell(x, w) for x in s]) for s in obj.samples]),
        fq.lst([fq.lst(r) for r in dat_tokens]), fq.lst([fq.lst(r) for r in smp_tokens]), reread)
    rterm = "c11_ascii_reader %s %s %s" % (fq.lst([fq.lst(r) for r in dat_tokens]), fq.lst([fq.lst(r) for r in smp_tokens]), reread)
    out["txt"].append((case, dict(replay, exception=repr(exc)), term, rterm, B, exc))
    vals = [float(x) for x in list(data) + [x for s in samples for x in s]]
    ctx.count(key=("txt",) + tuple(sorted((k, str(v)) for k, v in spec.items())),
              nontrivial=B == 1 or any(cut_loses(v, w) for v in vals),
              kind="txt/%s/bins%d" % (spec["cls"], B))
    if any(not math.isfinite(v) for v in vals):
        ctx.bump("txt_with_nan_inf")
    if idx < 2:
        ctx.sample(dict(codec="text", spec=spec, dat_tokens=dat_tokens[:2], exception=repr(exc)), limit=6)


def txt_specs(ctx, n):
    rng = ctx.rng
    out = [  # deterministic probe for the single-bin reader (F6) and a two-bin twin that must pass
        dict(cls="CorrData", bins=1, samples=2, closed="right", special=False, refix=True, edge_kind="fixed", dseed=1,
             fixed=([0.1, 0.2], [0.5], [[0.4], [0.6]])),
        dict(cls="CorrData", bins=2, samples=2, closed="right", special=False, refix=True, edge_kind="fixed", dseed=2,
             fixed=([0.1, 0.2, 0.3], [0.5, 0.25], [[0.4, 0.2], [0.6, 0.3]])),
    ]
    for i in range(n):
        kind = rng.choice(["redshift", "redshift", "dyadic", "large"])
        special = rng.random() < 0.4
        out.append(dict(cls=["CorrData", "RedshiftData", "HistData"][i % 3], bins=1 + (i // 3) % 5, samples=rng.randrange(1, 7),
                        closed=rng.choice(["left", "right"]), special=special, refix=kind != "large", edge_kind=kind,
                        dseed=rng.randrange(10 ** 9)))
    return out


# ------------------------------------------------------------------ YAML: configuration
UNITS = ["kpc", "Mpc", "rad", "deg", "arcmin", "arcsec", "kpc/h", "Mpc/h"]
COSMO = [None, "Planck15", "WMAP9", "Planck18"]


def oq(x):
    return "None" if x is None else "(Some %s)" % fq.q(x)


def oql(x):
    return "None" if x is None else "(Some %s)" % fq.qlist(x)


def onat(x):
    return "None" if x is None else "(Some %s)" % fq.nat(x)


def scales_obs(sc):
    d = sc.to_dict()
    return (repr(d), sc.scales.scale_min.tobytes(), sc.scales.scale_max.tobytes(), str(sc.scales.unit),
            repr(sc.rweight), repr(sc.resolution))


def cfg_case(ctx, spec, idx, out):
    import yaml
    from yaw import Configuration
    from yaw.cosmology import RedshiftBinningFactory
    case = ("cfg", idx)
    kw = dict(rmin=spec["rmin"], rmax=spec["rmax"], unit=spec["unit"], rweight=spec["rweight"],
              resolution=spec["resolution"], closed=spec["closed"], max_workers=spec["max_workers"])
    own_cosmology = isinstance(spec["cosmology"], (list, tuple))
    if own_cosmology:
        # a cosmology object that is not one of astropy's predefined ones: ("flat", H0, Om0, name) / ("clone", H0, name)
        from astropy.cosmology import FlatLambdaCDM, Planck15
        c = spec["cosmology"]
        kw["cosmology"] = (FlatLambdaCDM(H0=c[1], Om0=c[2], name=c[3]) if c[0] == "flat" else
                           Planck15.clone(H0=c[1]) if c[2] is None else Planck15.clone(name=c[2], H0=c[1]))
    elif spec["cosmology"] is not None:
        kw["cosmology"] = spec["cosmology"]
    custom = spec["method"] == "custom"
    if custom:
        kw["edges"] = spec["edges"]
    else:
        kw.update(zmin=spec["zmin"], zmax=spec["zmax"], num_bins=spec["num_bins"], method=spec["method"])
    replay = dict(spec=spec, create_kwargs={k: (v.hex() if isinstance(v, float) else repr(v) if k == "cosmology" and own_cosmology else v)
                                            for k, v in kw.items()})
    with warnings.catch_warnings():
        warnings.simplefilter("ignore")
        cfg = Configuration.create(**kw)
        path = os.path.join(ctx.workdir, "cfg_%d.yaml" % idx)
        try:
            cfg.to_file(path)
        except Exception as e:
            if own_cosmology and type(e).__name__ == "ConfigError":
                # only predefined cosmologies can be written by name: a refusal, not a silent substitution
                ctx.bump("cfg_own_cosmology_refused")
                ctx.count(key=("cfg-own-cosmology",) + tuple(sorted((k, str(v)) for k, v in spec.items())), nontrivial=True,
                          kind="cfg/own-cosmology/refused")
                return
            ctx.fail("c11-config-write-raises:%s" % type(e).__name__, "Configuration.to_file raised %r" % e, replay, case=case)
            return
        d = yaml.safe_load(open(path))
        try:
            back, exc = Configuration.from_file(path), None
        except Exception as e:
            back, exc = None, e
        os.unlink(path)
        bd = d.get("binning", {})
        regen = None
        if not custom and None not in (bd.get("zmin"), bd.get("zmax"), bd.get("num_bins")):
            # the generator as an oracle, on the parameters found in the file; twice (determinism)
            from yaw.config.combined import parse_cosmology
            fac = RedshiftBinningFactory(parse_cosmology(d.get("cosmology")))
            g1 = fac.get_method(bd["method"])(bd["zmin"], bd["zmax"], bd["num_bins"]).edges
            g2 = fac.get_method(bd["method"])(bd["zmin"], bd["zmax"], bd["num_bins"]).edges
            if g1.tobytes() != g2.tobytes():
                ctx.fail("c11-config-generator-not-deterministic", "two calls of the edge generator on the same arguments differ", replay, case=case)
            regen = [float(x) for x in g1]
    edges = [float(x) for x in cfg.binning.edges]
    if back is not None:
        # everything except the edges, compared here
        if str(back.binning.closed) != str(cfg.binning.closed) or str(back.binning.closed) != spec["closed"]:
            ctx.fail("c11-config-closed", "closed side %s read back as %s" % (cfg.binning.closed, back.binning.closed), replay, case=case)
        if str(back.binning.method) != str(cfg.binning.method):
            ctx.fail("c11-config-method", "method %s read back as %s" % (cfg.binning.method, back.binning.method), replay, case=case)
        if scales_obs(back.scales) != scales_obs(cfg.scales):
            ctx.fail("c11-config-scales", "scales section read back differently: %s vs %s" % (cfg.scales.to_dict(), back.scales.to_dict()), replay, case=case)
        def cpar(c):
            return tuple((k, float(getattr(getattr(c, k), "value", getattr(c, k)))) for k in ("H0", "Om0") if hasattr(c, k))
        if back.cosmology is not cfg.cosmology and (getattr(back.cosmology, "name", None) != getattr(cfg.cosmology, "name", None)
                                                    or cpar(back.cosmology) != cpar(cfg.cosmology)):
            ctx.fail("c11-config-cosmology", "cosmology %s %s read back as %s %s" % (getattr(cfg.cosmology, "name", None), cpar(cfg.cosmology),
                                                                                   getattr(back.cosmology, "name", None), cpar(back.cosmology)),
                     replay, case=case)
        if back.max_workers != cfg.max_workers:
            ctx.fail("c11-config-max-workers", "max_workers %r read back as %r" % (cfg.max_workers, back.max_workers), replay, case=case)
        if back.to_dict() != cfg.to_dict() and [float(x).hex() for x in back.binning.edges] == [float(x).hex() for x in edges]:
            ctx.fail("c11-config-dict", "to_dict() of the configuration read back differs", replay, case=case)
        try:
            if not (cfg == back) and [float(x).hex() for x in back.binning.edges] == [float(x).hex() for x in edges]:
                ctx.fail("c11-config-eq", "Configuration read back with identical parts compares unequal", replay, case=case)
            ctx.bump("cfg_eq_evaluated")
        except AttributeError:
            ctx.bump("cfg_eq_raises_AttributeError(ScalesConfig.__eq__, C15)")
        reread = [float(x) for x in back.binning.edges]
    else:
        reread = None
    term = "c11_case_config %s %s %s %s %s %s %s %s %s %s %s" % (
        fq.b(custom), oq(None if custom else spec["zmin"]), oq(None if custom else spec["zmax"]),
        onat(None if custom else spec["num_bins"]), fq.qlist(edges),
        oq(bd.get("zmin")), oq(bd.get("zmax")), onat(bd.get("num_bins")), oql(bd.get("edges")),
        oql(regen), oql(reread))
    out["cfg"].append((case, dict(replay, yaml_binning=bd, exception=repr(exc), edges=[x.hex() for x in edges],
                                  reread=None if reread is None else [x.hex() for x in reread]), term, spec, exc))
    ctx.count(key=("cfg",) + tuple(sorted((k, str(v)) for k, v in spec.items())), nontrivial=True,
              kind="cfg/%s/%s/%s" % (spec["method"], spec["closed"], spec["unit"]))
    if idx < 4:
        ctx.sample(dict(codec="yaml-config", spec=spec, yaml_binning=bd, exception=repr(exc)), limit=8)


def cfg_specs(ctx, n):
    rng = ctx.rng
    base = dict(rmin=100, rmax=1000, unit="kpc", rweight=None, resolution=None, closed="right",
                max_workers=None, cosmology=None)
    out = [  # deterministic probes: F19 (comoving, logspace), custom edges, and linear twins that must pass
        dict(base, method="comoving", zmin=0.07000000023, zmax=1.42, num_bins=5),
        dict(base, method="logspace", zmin=1.0, zmax=1.9, num_bins=3),
        dict(base, method="custom", edges=[0.1, 0.2, 0.4]),
        dict(base, method="linear", zmin=0.07000000023, zmax=1.42, num_bins=5),
        dict(base, method="linear", zmin=0.1, zmax=1.9, num_bins=3, closed="left", cosmology="WMAP9", max_workers=3),
        # values that are valid but falsy / at the boundary of their range
        dict(base, method="linear", zmin=0.0, zmax=1.0, num_bins=1, rweight=0.0, resolution=1, max_workers=1),
        dict(base, method="linear", zmin=0.0, zmax=0.5, num_bins=2, rweight=-0.0, resolution=0),
        dict(base, method="custom", edges=[0.0, 0.25], rweight=1.0, resolution=2, rmin=0.5, rmax=1),
        # cosmology objects that are not predefined ones (unnamed, renamed, a clone that keeps the predefined name)
        dict(base, method="comoving", zmin=0.1, zmax=1.0, num_bins=3, cosmology=["flat", 70.0, 0.3, None]),
        dict(base, method="comoving", zmin=0.1, zmax=1.0, num_bins=3, cosmology=["flat", 70.0, 0.3, "Foo"]),
        dict(base, method="linear", zmin=0.1, zmax=1.0, num_bins=3, cosmology=["clone", 50.0, None]),
        dict(base, method="logspace", zmin=0.1, zmax=1.0, num_bins=3, cosmology=["clone", 50.0, "mine"], unit="Mpc/h"),
    ]
    methods = ["linear", "comoving", "logspace", "custom"]
    for i in range(n):
        method = methods[i % 4]
        nsc = rng.choice([1, 1, 2, 3])
        rmin = [rng.choice([0.5, 10, 100, 123.456, 1e-3]) * (k + 1) for k in range(nsc)]
        rmax = [r * rng.choice([2, 10, 7.5]) for r in rmin]
        if nsc > 1 and i % 3 == 1:       # a scale LIST: not ascending, or with a range listed twice - order and number must survive the file
            if rng.random() < 0.5:
                rmin, rmax = rmin[::-1], rmax[::-1]
            else:
                rmin, rmax = rmin + [rmin[0]], rmax + [rmax[0]]
        if nsc == 1 and rng.random() < 0.6:
            rmin, rmax = rmin[0], rmax[0]
        spec = dict(rmin=rmin, rmax=rmax, unit=UNITS[(i // 8) % len(UNITS)],
                    rweight=rng.choice([None, None, -1.0, 0.5, 0.0, 1.0, -0.0]), resolution=rng.choice([None, None, 10, 50, 1, 0]),
                    closed=["right", "left"][(i // 4) % 2], max_workers=rng.choice([None, None, 1, 4]),
                    cosmology=COSMO[(i // 4) % len(COSMO)], method=method)
        if method == "custom":
            nb = rng.randrange(1, 8)
            e = [rng.choice([0.0, 0.01, round(rng.uniform(0, 0.5), 3), rng.uniform(0, 0.5)])]
            for _ in range(nb):
                e.append(e[-1] + rng.choice([0.1, 0.25, rng.uniform(0.01, 0.5)]))
            spec["edges"] = [float(x) for x in e]
        else:
            zmin = rng.choice([0.01, 0.1, 0.2, round(rng.uniform(0.01, 1.0), 2), rng.uniform(0.01, 1.0), 0.07000000023] + ([0.0] if method != "logspace" else []))
            zmax = zmin + rng.choice([0.5, 1.0, round(rng.uniform(0.1, 2.0), 2), rng.uniform(0.1, 2.0)])
            spec.update(zmin=float(zmin), zmax=float(zmax), num_bins=rng.choice([1, 2, 3, 5, 8, 13, 30]))
        out.append(spec)
    return out


# ------------------------------------------------------------------ YAML: metadata
def meta_case(ctx, spec, idx, out):
    from yaw.catalog.patch import Metadata
    from yaw.coordinates import AngularCoordinates, AngularDistances
    case = ("meta", idx)
    n, sw, ra, dec, r = spec["num_records"], spec["sum_weights"], spec["ra"], spec["dec"], spec["radius"]
    m = Metadata(num_records=n, sum_weights=sw, center=AngularCoordinates([ra, dec]), radius=AngularDistances(r))
    path = os.path.join(ctx.workdir, "meta_%d.yml" % idx)
    replay = dict(spec={k: (v.hex() if isinstance(v, float) else v) for k, v in spec.items()})
    try:
        m.to_file(path)
        back, exc = Metadata.from_file(path), None
    except Exception as e:
        back, exc = None, e
    text = open(path).read() if os.path.exists(path) else None
    if os.path.exists(path):
        os.unlink(path)
    if back is None:
        after = "None"
        ctx.fail("c11-metadata-raises:%s" % type(exc).__name__, "Metadata YAML round trip raised %r" % exc, dict(replay, text=text), case=case)
    else:
        c = np.asarray(back.center.data, dtype="f8").reshape(-1)
        rr = np.asarray(back.radius.data, dtype="f8").reshape(-1)
        if (type(back.num_records) is not int or type(back.sum_weights) is not float or len(c) != 2 or len(rr) != 1
                or back.to_dict() != m.to_dict()):
            ctx.fail("c11-metadata-types", "metadata read back with other types/shape or another dict: %r vs %r" % (back.to_dict(), m.to_dict()),
                     dict(replay, text=text), case=case)
            after = "None"
        else:
            after = "(Some (mk_meta %s %s %s %s %s))" % (fq.z(back.num_records), fq.q(back.sum_weights), fq.q(c[0]), fq.q(c[1]), fq.q(rr[0]))
    term = "c11_case_meta (mk_meta %s %s %s %s %s) %s" % (fq.z(n), fq.q(sw), fq.q(ra), fq.q(dec), fq.q(r), after)
    out["meta"].append((case, dict(replay, text=text), term))
    ctx.count(key=("meta", n, float(sw).hex(), float(ra).hex(), float(dec).hex(), float(r).hex()), nontrivial=True, kind="meta")
    if idx < 1:
        ctx.sample(dict(codec="yaml-metadata", text=text), limit=8)


def meta_specs(ctx, n):
    rng = ctx.rng
    out = [dict(num_records=1, sum_weights=1.0, ra=0.0, dec=0.0, radius=0.0),
           dict(num_records=12345678901, sum_weights=1e16, ra=6.283185307179586, dec=-1.5707963267948966, radius=1e-05)]
    for _ in range(n):
        out.append(dict(num_records=rng.choice([1, 7, 1000, rng.randrange(1, 10 ** 7)]),
                        sum_weights=float(rng.choice([5.0, 0.1, 1e-7, 1e22, rng.uniform(0, 1e6), rng.randrange(1, 10 ** 6) / 8.0])),
                        ra=float(rng.uniform(0, 2 * math.pi)), dec=float(rng.uniform(-math.pi / 2, math.pi / 2)),
                        radius=float(rng.choice([0.0, 1e-05, 1e-300, 5e-324] + [rng.uniform(0, 0.5)] * 8))))
    return out


# ------------------------------------------------------------------ catalogs through their cache directory
def cat_case(ctx, spec, idx):
    import random
    rng = random.Random(spec["dseed"])
    n, npatch = spec["n"], spec["patches"]
    cols = {"ra": np.array([rng.randrange(0, 360 * 16) / 16.0 for _ in range(n)]),
            "dec": np.array([rng.randrange(-60 * 16, 60 * 16) / 16.0 for _ in range(n)]),
            "pid": np.array([i % npatch for i in range(n)], dtype="i8")}
    kw = dict(ra_name="ra", dec_name="dec", patch_name="pid")
    if spec["weights"]:
        cols["w"] = np.array([rng.randrange(1, 40) / 8.0 for _ in range(n)])
        kw["weight_name"] = "w"
    if spec["redshifts"]:
        cols["z"] = np.array([rng.randrange(1, 300) / 128.0 for _ in range(n)])
        kw["redshift_name"] = "z"
    cache = impl.fresh_dir(ctx, "cat_%d" % idx)
    case = ("cat", idx)
    try:
        cat = impl.Catalog.from_dataframe(cache, impl.make_df(cols), max_workers=1, **kw)
        def meta_bits(c):
            return {int(p): (int(patch.meta.num_records), float(patch.meta.sum_weights).hex(),
                             np.asarray(patch.meta.center.data, dtype="f8").tobytes(),
                             np.asarray(patch.meta.radius.data, dtype="f8").tobytes()) for p, patch in c.items()}
        a = impl.patch_records(cat)
        ma = meta_bits(cat)
        cat2 = impl.Catalog(cache, max_workers=1)
        b = impl.patch_records(cat2)
        mb = meta_bits(cat2)
        same = (sorted(a) == sorted(b) and all(a[p].tobytes() == b[p].tobytes() and a[p].dtype == b[p].dtype for p in a)
                and repr(ma) == repr(mb))
        if not same:
            ctx.fail("c11-catalog-cache", "catalog reopened from its cache directory differs (records or metadata)", dict(spec=spec), case=case)
    except Exception as e:
        ctx.fail("c11-catalog-raises:%s" % type(e).__name__, "catalog cache round trip raised %r" % e,
                 dict(spec=spec, traceback=traceback.format_exc()[-1200:]), case=case)
    shutil.rmtree(cache, ignore_errors=True)
    ctx.count(key=("cat",) + tuple(sorted(spec.items())), nontrivial=True, kind="catalog-cache")


# ------------------------------------------------------------------ driver
PD_HEADER = "From Verif Require Import PatchData.\nFrom Coq Require Import List NArith.\nImport ListNotations.\nOpen Scope N_scope.\n"
PD_SPECIAL = [0x0000000000000000, 0x8000000000000000, 0x7FF0000000000000, 0xFFF0000000000000, 0x7FF8000000000000, 0x7FF8000000000001,
              0xFFF8DEADBEEF0001, 0x0000000000000001, 0x000FFFFFFFFFFFFF, 0x3FF0000000000000, 0x7FEFFFFFFFFFFFFF, 0xFFFFFFFFFFFFFFFF]


def pd_nl(xs):
    return "[" + "; ".join(str(int(x)) for x in xs) + "]"


def pd_info(w, z):
    return "{| has_w := %s; has_z := %s; has_pid := false |}" % ("true" if w else "false", "true" if z else "false")


def patchdata_cases(ctx):
    """patch_N/data.bin byte for byte (Model/PatchData.v): records of arbitrary 64-bit patterns handed to the real PatchWriter in
    chunks with a small buffer, the file's bytes against the model's, and read_patch_data on the file and on cuts of it
    (record boundaries and inside a record) against the model's reader."""
    from yaw.catalog.patch import PatchWriter, read_patch_data
    from yaw.datachunk import DataChunkInfo
    rng = ctx.rng
    terms, metas = [], []
    for k in range(ctx.n(40, 400)):
        w, z = rng.random() < 0.5, rng.random() < 0.5
        names = ["ra", "dec"] + (["weights"] if w else []) + (["redshifts"] if z else [])
        dtype = np.dtype([(a, "f8") for a in names])
        nrec = rng.choice([0, 1, 2, 3, 7, 16, 33])
        pats = [[rng.choice(PD_SPECIAL) if rng.random() < 0.3 else rng.getrandbits(64) for _ in names] for _ in range(nrec)]
        arr = np.zeros(nrec, dtype=dtype)
        raw = arr.view("u8").reshape(nrec, len(names)) if nrec else None
        for r, rec in enumerate(pats):
            for c, v in enumerate(rec):
                raw[r, c] = v
        cache = impl.fresh_dir(ctx, "pd_%d" % k)
        buf = rng.choice([1, 2, 5, 65536])
        with PatchWriter(cache, chunk_info=DataChunkInfo(has_weights=w, has_redshifts=z), buffersize=buf) as wr:
            pos = 0
            while pos < nrec:
                step = rng.choice([1, 2, 3, 8])
                wr.process_chunk(arr[pos:pos + step])
                pos += step
        path = os.path.join(cache, "data.bin")
        data = open(path, "rb").read()
        rsz = 8 * len(names)
        cuts = [len(data)]
        if nrec:
            cuts += [1 + rsz * rng.randrange(0, nrec + 1), rng.randrange(0, len(data) + 1), 1 + rsz * rng.randrange(0, nrec) + rng.randrange(1, rsz), 0, 1]
        # a foreign header byte: flags the writer never produces (low bits clear, high bits set) must be read by their bits 2..4 only
        for cut in cuts:
            probe = bytearray(data[:cut])
            variant = "cut@%d" % cut if cut != len(data) else "whole"
            if probe and rng.random() < 0.15:
                probe[0] = (probe[0] & 0b00011100) | rng.choice([0, 0b11100000, 0b01000001])
                variant += "/foreign-header"
            ppath = os.path.join(cache, "probe.bin")
            with open(ppath, "wb") as f:
                f.write(bytes(probe))
            try:
                info, back = read_patch_data(ppath)
            except Exception:  # noqa: BLE001
                info = None
            if info is None:
                rb, kind = "None", "raises"
            else:
                rows = np.ascontiguousarray(back).view("u8").reshape(len(back), -1).tolist() if len(back) else []
                rb = "(Some (%s, %s))" % (
                    "{| has_w := %s; has_z := %s; has_pid := %s |}" % tuple("true" if x else "false" for x in (info.has_weights, info.has_redshifts, info.has_patch_ids)),
                    "[" + "; ".join(pd_nl(row) for row in rows) + "]")
                kind = "reads"
            terms.append("c11_patchdata_case %s %s %s %s %s" % (pd_info(w, z), "[" + "; ".join(pd_nl(r) for r in pats) + "]",
                                                             pd_nl(data), pd_nl(probe), rb))
            metas.append(dict(flags=(w, z), nrec=nrec, buffersize=buf, variant=variant, cut=cut, file_bytes=len(data)))
            ctx.count(key=("pd", k, variant), nontrivial=nrec > 0, kind="patchdata/%s/%s" % (variant.split("@")[0], kind))
        shutil.rmtree(cache, ignore_errors=True)
    codes = ctx.shards("Cases_C11_patchdata", PD_HEADER, terms, shard=60)
    for m, c in zip(metas, codes):
        if not c:
            continue
        if c & 1:
            ctx.fail("c11-patchdata-bytes", "data.bin is not the header byte of the flags followed by the packed little-endian records handed "
                     "to the writer", m, case=("pd", m["variant"], m["nrec"]))
        if c & 2:
            ctx.fail("c11-patchdata-readback:%s" % m["variant"].split("@")[0], "read_patch_data on %s differs from the records written (or raises / "
                     "does not raise where the byte count says it should)" % m["variant"], m, case=("pd-read", m["variant"], m["nrec"]))


PI_HEADER = "From Verif Require Import PatchData PatchIds.\nFrom Coq Require Import List NArith ZArith.\nImport ListNotations.\nOpen Scope N_scope.\n"


def patchids_cases(ctx):
    """patch_ids.bin byte for byte (Model/PatchIds.v): a real CatalogWriter given patches in any order of ids, the bytes of the marker
    it writes at finalize against the model's, and read_patch_ids on the file, on cuts of it and on arbitrary byte strings."""
    from pathlib import Path
    from yaw.catalog.catalog import CatalogWriter, read_patch_ids
    from yaw.datachunk import DataChunkInfo
    rng = ctx.rng
    terms, metas = [], []
    dtype = np.dtype([("ra", "f8"), ("dec", "f8")])
    for k in range(ctx.n(30, 300)):
        n = rng.choice([1, 2, 3, 5, 12, 40])
        pool = rng.choice([range(0, 64), range(0, 1000), range(250, 260), range(32000, 32768)])
        ids = rng.sample(list(pool), min(n, len(pool)))
        cache = impl.fresh_dir(ctx, "pi_%d" % k)
        with CatalogWriter(cache, chunk_info=DataChunkInfo(), overwrite=True, buffersize=4) as wr:
            for rnd in range(rng.choice([1, 2])):
                order = list(ids)
                rng.shuffle(order)
                wr.process_patches({i: np.zeros(rng.choice([1, 3]), dtype=dtype) for i in order})
        data = open(os.path.join(cache, "patch_ids.bin"), "rb").read()
        probes = [("whole", data), ("cut", data[:rng.randrange(0, len(data) + 1)]), ("cut", data[:1]), ("cut", b""),
                  ("arbitrary", bytes(rng.getrandbits(8) for _ in range(rng.choice([2, 3, 4, 7]))))]
        for variant, probe in probes:
            with open(os.path.join(cache, "patch_ids.bin"), "wb") as f:
                f.write(probe)
            try:
                back = [int(x) for x in read_patch_ids(Path(cache))]
                rb, kind = "(Some [%s])" % "; ".join("(%d)%%Z" % x for x in back), "reads"
            except Exception as e:  # noqa: BLE001
                if type(e).__name__ != "InconsistentPatchesError":
                    raise
                rb, kind = "None", "refused"
            terms.append("c11_patchids_case [%s]%%nat %s %s %s" % ("; ".join(str(i) for i in ids), pd_nl(data), pd_nl(probe), rb))
            metas.append(dict(ids=ids, variant=variant, probe_bytes=len(probe)))
            ctx.count(key=("pi", k, variant, len(probe)), nontrivial=len(ids) > 1, kind="patchids/%s/%s" % (variant, kind))
        shutil.rmtree(cache, ignore_errors=True)
    codes = ctx.shards("Cases_C11_patchids", PI_HEADER, terms, shard=100)
    for m, c in zip(metas, codes):
        if not c:
            continue
        if c & 1:
            ctx.fail("c11-patchids-bytes", "patch_ids.bin is not the ascending int16 list of the ids written", m, case=("pi", tuple(m["ids"])))
        if c & 2:
            ctx.fail("c11-patchids-readback:%s" % m["variant"], "read_patch_ids on %s differs from the model reader" % m["variant"], m,
                     case=("pi-read", m["variant"], tuple(m["ids"])))


def run(ctx):
    patchids_cases(ctx)
    patchdata_cases(ctx)
    impl.set_threads(1)
    out = dict(sparse=[], members=[], txt=[], cfg=[], meta=[])
    n_hdf, n_txt, n_cfg, n_meta, n_cat = ctx.n(56, 1150), ctx.n(48, 1000), ctx.n(32, 640), ctx.n(10, 200), ctx.n(3, 24)
    for idx, spec in enumerate(hdf_specs(ctx, n_hdf)):
        hdf_case(ctx, spec, idx, out)
    ctx.log("hdf5 cases done")
    for idx, spec in enumerate(txt_specs(ctx, n_txt)):
        txt_case(ctx, spec, idx, out)
    ctx.log("text cases done")
    for idx, spec in enumerate(cfg_specs(ctx, n_cfg)):
        try:
            cfg_case(ctx, spec, idx, out)
        except Exception as e:
            ctx.count(key=("cfg-raised", idx), kind="cfg/raised")
            ctx.fail("c11-config-raises:%s" % type(e).__name__, "creating/serialising a valid configuration raised %r" % e,
                     dict(spec=spec, traceback=traceback.format_exc()[-1500:]), case=("cfg", idx))
    ctx.log("configuration cases done")
    for idx, spec in enumerate(meta_specs(ctx, n_meta)):
        meta_case(ctx, spec, idx, out)
    for idx in range(n_cat):
        cat_case(ctx, dict(n=ctx.rng.choice([5, 12, 40]), patches=ctx.rng.choice([1, 2, 5]), weights=ctx.rng.random() < 0.5,
                           redshifts=ctx.rng.random() < 0.5, dseed=ctx.rng.randrange(10 ** 9)), idx)
    ctx.log("metadata / catalog cases done")

    # ---- HDF5: sparse codec and member groups
    codes = ctx.shards("Cases_C11_sparse", HEADER, [t for _, _, t in out["sparse"]], shard=40)
    for (case, replay, _), c in zip(out["sparse"], codes):
        if not c:
            continue
        if c & 4:
            ctx.fail("c11-hdf-counts", "pair counts read back from HDF5 differ from the counts written (code %d)" % c, replay, case=case)
        if c & 3:
            ctx.disagree("Cases_C11_sparse", case, dict(code=c, replay=replay))
    codes = ctx.shards("Cases_C11_members", HEADER, [t for _, _, t, _, _ in out["members"]], shard=400)
    which = ctx.shards("Writer_C11_members", HEADER, [w for _, _, _, w, _ in out["members"]], shard=400)
    for (case, replay, _, _, misnamed), c, wm in zip(out["members"], codes, which):
        ctx.bump("hdf_member_writer_model:" + {None: "?", 0: "neither", 1: "current(positional)", 2: "repaired(by name)", 3: "both"}.get(wm, "?"))
        if not c:
            continue
        if c & 4 and not misnamed:
            ctx.fail("c11-hdf-members", "set of present members changed by the HDF5 round trip (code %d)" % c, replay, case=case)
        if c & 3:
            ctx.disagree("Cases_C11_members", case, dict(code=c, replay=replay))

    # ---- text files
    codes = ctx.shards("Cases_C11_ascii", HEADER, [t for _, _, t, _, _, _ in out["txt"]], shard=30)
    which = ctx.shards("Reader_C11_ascii", HEADER, [r for _, _, _, r, _, _ in out["txt"]], shard=60)
    for (case, replay, _, _, B, exc), c, rd in zip(out["txt"], codes, which):
        ctx.bump("txt_reader_model:" + {None: "?", 0: "neither", 1: "current", 2: "repaired", 3: "both"}.get(rd, "?"))
        if not c:
            continue
        if c & 8:
            if exc is not None and B == 1 and isinstance(exc, (IndexError, ValueError, TypeError)):
                ctx.fail("c11-ascii-single-bin", "from_files raised %r for a product with a single bin" % exc, replay, case=case)
            elif exc is not None:
                ctx.fail("c11-ascii-read-raises:%s" % type(exc).__name__, "from_files raised %r on files written by to_files" % exc, replay, case=case)
            else:
                ctx.fail("c11-ascii-values", "product read back from the text files differs in shape or by more than the format's precision (code %d)" % c,
                         replay, case=case)
        if c & 7:
            ctx.disagree("Cases_C11_ascii", case, dict(code=c, replay=replay))

    # ---- configuration
    codes = ctx.shards("Cases_C11_config", HEADER, [t for _, _, t, _, _ in out["cfg"]], shard=200)
    for (case, replay, _, spec, exc), c in zip(out["cfg"], codes):
        if c is None:
            continue
        method = spec["method"]
        if c & 8 and not c & 4:
            ctx.bump("cfg_endpoints_inexact_but_edges_stable")
        if c & 8:
            ctx.bump("cfg_hypothesis_endpoints_exact_false:" + method)
        elif method != "custom":
            ctx.bump("cfg_hypothesis_endpoints_exact_true:" + method)
        if c & 4:
            if method == "custom":
                if exc is not None:
                    ctx.fail("c11-config-custom-edges-unreadable", "Configuration.from_file raised %r on a file written for custom edges" % exc, replay, case=case)
                else:
                    ctx.fail("c11-config-custom-edges-changed", "custom bin edges changed by the YAML round trip", replay, case=case)
            elif exc is not None:
                ctx.fail("c11-config-read-raises:%s" % type(exc).__name__, "Configuration.from_file raised %r" % exc, replay, case=case)
            elif c & 8:
                ctx.fail("c11-config-edges-%s" % method, "bin edges regenerated from the stored zmin/zmax/num_bins differ from the edges written "
                         "(generated edges do not start/end at the requested zmin/zmax)", replay, case=case)
            else:
                ctx.fail("c11-config-edges-changed:%s" % method, "bin edges changed by the YAML round trip although the generated edges span [zmin, zmax] exactly",
                         replay, case=case)
        if c & 3:
            ctx.disagree("Cases_C11_config", case, dict(code=c, replay=replay))

    # ---- metadata
    codes = ctx.shards("Cases_C11_meta", HEADER, [t for _, _, t in out["meta"]], shard=400)
    for (case, replay, _), c in zip(out["meta"], codes):
        if not c:
            continue
        if c & 2:
            ctx.fail("c11-metadata-values", "patch metadata read back from YAML differs from the record written", replay, case=case)
        if c & 1:
            ctx.disagree("Cases_C11_meta", case, dict(code=c, replay=replay))
