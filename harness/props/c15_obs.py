"""C15 - the part of the check that touches the implementation: how parameters are handed over (python type of every
value), the calls (create / modify / round trips / ==) and what is observed of them, as plain dictionaries.

The same functions run inside the checker (default interpreter) and in a fresh interpreter started with -O or
PYTHONOPTIMIZE=1 (child_main below, driven through lib/optmode.py): the observations travel as JSON and are handed to
the same Coq checkers.  Nothing here knows about Coq.

A case is (P, T): P = the create-arguments as the plain values they stand for (python float / int / list / str /
None / Cos), T = {parameter: kind} says in which python type the value is handed to the implementation
(see realise).  T = {} is what the check always did: plain python values.
"""
import json
import os
import sys
import warnings

import numpy as np

OMIT = "<omit>"
COSMO_NAMES = {"Planck15": 0, "WMAP9": 1, "Planck13": 2}
CUSTOM_ID = 100

REFUSALS = ("ConfigError", "ValueError", "TypeError")

# kinds under which the property does not promise acceptance (a refusal is counted, an acceptance must mean the
# plain value): option strings in another letter case, integers handed over as floats, the enum of the automatic
# methods in place of BinMethod
LENIENT = ("upper", "title", "float", "np.float64-for-int", "np.float32-for-int", "enum-auto")

SCALAR_FLOAT_KINDS = ("np.float32", "np.float64", "np.int32", "np.int64", "int")
SCALAR_INT_KINDS = ("np.int32", "np.int64", "np.intp", "np.uint8")
SEQ_KINDS = ("tuple", "list", "array:float64", "array:float32", "array:readonly", "array:strided", "array:int64",
             "list:np.float32", "list:np.float64")
STR_KINDS = ("enum", "np.str_")
STR_LENIENT_KINDS = ("upper", "title")

FLOAT_PARAMS = ("zmin", "zmax", "rweight")
INT_PARAMS = ("num_bins", "resolution", "max_workers")
SEQ_PARAMS = ("edges",)
SCALE_PARAMS = ("rmin", "rmax")
STR_PARAMS = ("unit", "method", "closed")


# ---------------------------------------------------------------- cosmologies
class Cos:
    """How a cosmology is handed over: kind in omit/none/name/obj/custom/badname/badtype."""

    def __init__(self, kind, name=None):
        self.kind, self.name = kind, name

    def key(self):
        return (self.kind, self.name)

    def __repr__(self):
        return "Cos(%s%s)" % (self.kind, "," + self.name if self.name else "")

    def value(self):
        import astropy.cosmology as ac
        if self.kind == "none":
            return None
        if self.kind == "name":
            return self.name
        if self.kind == "obj":
            return getattr(ac, self.name)
        if self.kind == "custom":
            return custom_cosmology()
        if self.kind == "badname":
            return "NoSuchCosmology"
        if self.kind == "badtype":
            return 5
        raise KeyError(self.kind)

    def coq(self):
        if self.kind == "omit":
            return "(CosName 0)"
        if self.kind == "none":
            return "CosNone"
        if self.kind == "name":
            return "(CosName %d)" % COSMO_NAMES[self.name]
        if self.kind == "obj":
            return "(CosObj %d)" % COSMO_NAMES[self.name]
        if self.kind == "custom":
            return "(CosCustom %d)" % CUSTOM_ID
        return "CosBadName" if self.kind == "badname" else "CosBadType"

    def ident(self):
        """number of the cosmology this stands for (None when it is not a cosmology)"""
        if self.kind in ("omit", "none"):
            return 0
        if self.kind in ("name", "obj"):
            return COSMO_NAMES[self.name]
        if self.kind == "custom":
            return CUSTOM_ID
        return None


_CUSTOM = []


def custom_cosmology():
    if not _CUSTOM:
        from yaw.cosmology import CustomCosmology

        class Linear(CustomCosmology):
            """D_C = 3000 z Mpc, D_A = D_C / (1 + z); plain floats as the interface documents"""

            def comoving_distance(self, z):
                return 3000.0 * np.asarray(z, dtype=float)

            def angular_diameter_distance(self, z):
                z = np.asarray(z, dtype=float)
                return 3000.0 * z / (1.0 + z)

        _CUSTOM.append(Linear())
    return _CUSTOM[0]


def cosmo_object(ident):
    import astropy.cosmology as ac
    if ident == CUSTOM_ID:
        return custom_cosmology()
    for k, v in COSMO_NAMES.items():
        if v == ident:
            return getattr(ac, k)
    raise KeyError(ident)


def cosmo_ident(obj):
    from yaw.cosmology import CustomCosmology
    if isinstance(obj, CustomCosmology):
        return CUSTOM_ID
    return COSMO_NAMES.get(getattr(obj, "name", None), 99)


# ---------------------------------------------------------------- python types of the values
def f32_exact(v):
    try:
        return all(float(np.float32(x)) == float(x) for x in np.atleast_1d(v).tolist())
    except (TypeError, ValueError, OverflowError):
        return False


def integral(v):
    try:
        return all(float(x).is_integer() and abs(float(x)) < 2 ** 31 for x in np.atleast_1d(v).tolist())
    except (TypeError, ValueError, OverflowError):
        return False


def applicable(param, kind, plain):
    """can `plain` be handed over as `kind` without changing the value it stands for?"""
    if plain is None or plain is OMIT or isinstance(plain, Cos):
        return False
    if "float32" in kind and not f32_exact(plain):
        return False
    if ("int" in kind and "for-int" not in kind) and param not in INT_PARAMS and not integral(plain):
        return False
    if kind == "np.uint8" and not (integral(plain) and 0 <= int(plain) < 256):
        return False
    if kind == "array:strided" and len(np.atleast_1d(plain)) < 1:
        return False
    return True


def enum_class(param):
    from yaw import options
    return dict(unit=options.Unit, method=options.BinMethod, closed=options.Closed)[param]


def realise(param, kind, plain):
    """the python object that is handed to the implementation (a fresh one on every call)"""
    if kind is None or plain is None:
        return plain
    if kind in ("np.float32", "np.float64", "np.int32", "np.int64", "np.intp", "np.uint8"):
        ty = getattr(np, kind[3:])
        if isinstance(plain, (list, tuple)):      # a scale given as a list of numpy scalars
            return [ty(x) for x in plain]
        return ty(plain)
    if kind == "int":
        return int(plain)
    if kind == "float":
        return float(plain)
    if kind in ("np.float64-for-int", "np.float32-for-int"):
        return getattr(np, kind[3:-8])(plain)
    if kind == "tuple":
        return tuple(plain)
    if kind == "list":
        return list(plain)
    if kind == "list:np.float32":
        return [np.float32(x) for x in plain]
    if kind == "list:np.float64":
        return [np.float64(x) for x in plain]
    if kind == "array:float64":
        return np.array(plain, dtype=np.float64)
    if kind == "array:float32":
        return np.array(plain, dtype=np.float32)
    if kind == "array:int64":
        return np.array(plain, dtype=np.int64)
    if kind == "array:readonly":
        a = np.array(plain, dtype=np.float64)
        a.setflags(write=False)
        return a
    if kind == "array:strided":
        a = np.zeros(2 * len(plain), dtype=np.float64)
        a[::2] = plain
        return a[::2]
    if kind == "enum":
        return enum_class(param)(plain)
    if kind == "enum-auto":
        from yaw.options import BinMethodAuto
        return BinMethodAuto(plain)
    if kind == "np.str_":
        return np.str_(plain)
    if kind == "upper":
        return str(plain).upper()
    if kind == "title":
        return str(plain).title()
    raise KeyError(kind)


def kwargs_of(P, T=None):
    T = T or {}
    kw = {}
    for k, v in P.items():
        if v is OMIT:
            continue
        if k == "cosmology":
            if v.kind == "omit":
                continue
            kw[k] = v.value()
        else:
            kw[k] = realise(k, T.get(k), v)
    return kw


def lenient(T):
    return any(k in LENIENT for k in (T or {}).values())


# ---------------------------------------------------------------- observations
def snapshot(conf):
    """everything public of a configuration, as plain python values (copied)"""
    return dict(
        edges=[float(x) for x in np.array(conf.binning.edges, dtype=float, copy=True)],
        method=str(conf.binning.method), closed=str(conf.binning.closed),
        rmin=[x for x in np.atleast_1d(conf.scales.scales.scale_min).tolist()],
        rmax=[x for x in np.atleast_1d(conf.scales.scales.scale_max).tolist()],
        unit=str(conf.scales.unit), rweight=conf.scales.rweight, resolution=conf.scales.resolution,
        cosmo=cosmo_ident(conf.cosmology), workers=conf.max_workers)


def immutable_probe(conf):
    """names of the objects whose attributes could be assigned (must be none)"""
    bad = []
    for name, obj, attr in (("Configuration", conf, "max_workers"), ("ScalesConfig", conf.scales, "rweight"),
                            ("BinningConfig", conf.binning, "method")):
        try:
            setattr(obj, attr, getattr(obj, attr))
            bad.append(name)
        except AttributeError:
            pass
        except Exception:  # noqa: BLE001
            bad.append(name + "?")
    return bad


def call(f):
    """-> (observation dict, configuration or None); the class of an exception is the observation"""
    try:
        with warnings.catch_warnings():
            warnings.simplefilter("ignore")
            conf = f()
        return dict(snap=snapshot(conf)), conf
    except Exception as e:  # noqa: BLE001
        return dict(exn=type(e).__name__, msg=str(e)[:200]), None


def observe_create(job):
    from yaw import Configuration
    o, conf = call(lambda: Configuration.create(**kwargs_of(job["P"], job.get("T"))))
    out = dict(o=o)
    if conf is not None:
        out["immut"] = immutable_probe(conf)
    return out


def observe_modify(job):
    from yaw import Configuration
    o_create, conf = call(lambda: Configuration.create(**kwargs_of(job["P"], job.get("T"))))
    if conf is None:
        return dict(o_create=o_create)
    M, TM = job["M"], job.get("TM") or {}
    mk = {k: (v.value() if k == "cosmology" else realise(k, TM.get(k), v)) for k, v in M.items()}
    o_mod, _ = call(lambda: conf.modify(**mk))
    o_after = dict(snap=snapshot(conf))
    # the implementation's own create of the merged parameters, always from plain python values
    o_fresh, _ = call(lambda: Configuration.create(**kwargs_of(job["merged"])))
    return dict(o_create=o_create, o_mod=o_mod, o_after=o_after, o_fresh=o_fresh)


def observe_roundtrip(job):
    """via = dict: from_dict(to_dict()); yaml: the dictionary goes through yaml.safe_dump / safe_load (what to_file
    / from_file do with it); file: to_file / from_file in the scratch directory"""
    from yaw import Configuration
    o_create, conf = call(lambda: Configuration.create(**kwargs_of(job["P"], job.get("T"))))
    if conf is None:
        return dict(o_create=o_create)
    via = job.get("via", "dict")

    def go():
        if via == "dict":
            return Configuration.from_dict(conf.to_dict())
        if via == "yaml":
            import yaml
            return Configuration.from_dict(yaml.safe_load(yaml.safe_dump(conf.to_dict())))
        path = os.path.join(job["scratch"], "c15_roundtrip_%d.yaml" % os.getpid())
        try:
            conf.to_file(path)
            return Configuration.from_file(path)
        finally:
            if os.path.exists(path):
                os.remove(path)
    o_rt, _ = call(go)
    return dict(o_create=o_create, o_rt=o_rt)


def observe_eq(job):
    from yaw import Configuration
    oa, a = call(lambda: Configuration.create(**kwargs_of(job["PA"], job.get("TA"))))
    ob, b = call(lambda: Configuration.create(**kwargs_of(job["PB"], job.get("TB"))))
    if a is None or b is None:
        return dict(oa=oa, ob=ob)
    try:
        r = (a == b)
        return dict(oa=oa, ob=ob, outcome="true" if r else "false", msg="")
    except Exception as e:  # noqa: BLE001
        return dict(oa=oa, ob=ob, outcome=type(e).__name__, msg=str(e)[:200])


OBSERVERS = dict(create=observe_create, modify=observe_modify, roundtrip=observe_roundtrip, eq=observe_eq)


def observe(job):
    return OBSERVERS[job["kind"]](job)


# ---------------------------------------------------------------- JSON
def enc(v):
    if isinstance(v, Cos):
        return {"__cos__": [v.kind, v.name]}
    if isinstance(v, dict):
        return {k: enc(x) for k, x in v.items()}
    if isinstance(v, (list, tuple)):
        return [enc(x) for x in v]
    return v          # nan / inf travel as the NaN / Infinity literals of python's json


def dec(v):
    if isinstance(v, dict):
        if "__cos__" in v:
            return Cos(*v["__cos__"])
        return {k: dec(x) for k, x in v.items()}
    if isinstance(v, list):
        return [dec(x) for x in v]
    return v


CHILD = ("import sys; sys.path.insert(0, %r); from props import c15_obs; c15_obs.child_main()"
         % os.path.dirname(os.path.dirname(os.path.abspath(__file__))))


def child_main():
    """entry point in the fresh interpreter: jobs in, observations out"""
    warnings.simplefilter("ignore")
    import logging
    import yaw
    logging.getLogger("yaw").setLevel(logging.CRITICAL)
    src = os.environ.get("VERIF_REPO_SRC", "/repo/src").rstrip("/")
    spec = dec(json.loads(sys.stdin.read()))
    out = []
    for job in spec["jobs"]:
        try:
            out.append(observe(job))
        except Exception as e:  # noqa: BLE001  (a failure of the probe itself, not an observation)
            out.append(dict(probe_error="%s: %s" % (type(e).__name__, str(e)[:300])))
    same_tree = os.path.realpath(yaw.__file__).startswith(os.path.realpath(src) + "/")
    print(json.dumps(dict(debug=__debug__, optimize=sys.flags.optimize, same_tree=same_tree, results=out)))
