"""C09 — catalog creation is fail-stop: exact catalog or an exception, never a hang.

Tie: REAL runs of Catalog.from_dataframe / from_file / from_random, each in a fresh interpreter
(props/c09_driver.py, own session, /venv/bin/python) under a wall-clock bound counted from the
moment the interpreter has imported yaw and prepared the pre-existing state of the cache path
(20 s without completion and without CPU progress of the process group = "hang"; the whole group
is killed).  Sequential (max_workers=1) and real multiprocessing (2-3 workers).  For every fault
kind x chunk position {first, middle, last} x place {reader, worker, writer-init, writer-finalize}
the observed outcome class (returned same / foreign / other data, raised, hang), whether the
pre-existing content of the path is byte-for-byte untouched, and whether Catalog(cache) opens
afterwards are compared inside Coq (c09_case, Model/FailStop.v) with the transition-system model
of the current algorithm (v_cur) and of the repaired one (v_fix), and the property statement
(spec_ok and its four clauses) is evaluated on the observation.

Every fault kind / position / place is run not only on a fresh path but also OVER A PRE-EXISTING VALID CATALOG
with overwrite=True (and, in the thorough tier, overwrite=False), the old catalog having fewer, the same number of,
or more patches than the new one, sequentially and in parallel.  After every run the path is opened again with
Catalog(path) and what it holds is classified (closed / the untouched old catalog / exactly the complete input /
anything else) and compared with the model (c09_case_held, held_of) and with the clause cl_open_exact: a path
that opens holds the untouched old catalog or the complete input of a successful creation, never a part or a mix
(theorems C09_openable_only_old_or_complete, C09_fix_meets_open_spec).

CALL OPTIONS.  The keywords of from_dataframe / from_file / from_random that are not part of the input choose the
code path, never the outcome: progress=True wraps the chunk iterator (and the patch iterator of load_patches) in the
progress display, degrees=False takes the same coordinates in radians, the chunk size may be 1, equal to the input,
larger than it or omitted, patch_num (+ probe_size) makes a first pass over the whole reader before anything is
written.  The model has no such parameter (Model/FailStop.v: the main loop consumes `reader_stream`; the progress
display is the stream function `indicator`, proved to be the identity in C09_progress_display_transparent, so
C09_options_do_not_matter; a display that ends the stream when its source raised is refuted in
C09_swallowing_display_refuted).  So every fault kind x position x place x mode is run again with the progress
display on (and the other options drawn at random), each such case next to its TWIN - the same call with the default
options - and all of them are judged by the same c09_case_held against the same scenario; from_random gets a fault
position of its own (a generator whose k-th draw fails).

THE PRE-EXISTING STATE OF THE CACHE PATH is a concrete thing: absent, a regular file, a symbolic link, or a directory
with a listing.  "Is a catalog cache" = a real directory whose listing holds patch_ids.bin (Model/FailStop.v: entry,
fspath, is_cache, guard_marker; C09_cache_is_marker).  Every state of props/c09_driver.py:PATH_STATES - an empty
directory, user files merely CALLED patch_..., empty patch_N/ sub-directories, the remains of an interrupted creation
(patch data, no marker), a directory whose sub-directory is a catalog, the marker alone, the marker next to foreign
files, a valid catalog next to foreign files, a regular file, links to a catalog / to directories without the marker /
to a file / to nothing - is met with overwrite on and off, sequentially and in parallel, by clean and by faulting
creations (and through from_file / from_random), with the cache path lying alone in its directory or inside a
directory of the user's own (`nest`).  All cases are judged by c09_case_path: the model runs on the abstract state of
the listing (C09_path_checker_plain: same flags as c09_case_held wherever the path has one reading); a link has two
admissible readings (refused, as the code does - C09_link_path_kept - or followed); flag 11 = nothing outside the
cache path was modified.  C09_non_cache_path_kept: behind any guard that implies the marker every other existing path
stays and the call raises; C09_name_guard_deletes / _refuted: a guard that goes by the names of the entries deletes
every marker-less directory whose entries are all called patch_... (the empty one included).

COLUMNS OF UNEQUAL LENGTH are a family of inputs, not one: which column is the odd one (right ascension, declination,
weight, redshift, patch id), whether it is longer or shorter, by one entry / by a chunk / by many, and how the record
count len(ra) relates to the chunk size (an exact multiple, equal to it - the whole input in one chunk -, not a
multiple).  Which sources can hold such columns: the datasets of an HDF5 file are independent arrays (every cell of
the family is generated, sequentially and in parallel, on a fresh path and over existing ones); a pandas data frame,
a FITS table HDU and a Parquet file have one row count by construction (nothing to generate); the frame double hands
DataChunk.create slices of unequal length inside one chunk (column x longer / shorter x by one / down to nothing /
by a chunk x chunk position).  The scenario is derived INSIDE Coq from the lengths (Model/FailStop.v: slice_len,
slices_of, first_bad, colsource, cols_scen, c09_case_cols): the up-front comparison of the dataset lengths makes
every unequal file an early failure (C09_unequal_columns_raise_up_front); a reader that leaves it to the per-chunk
comparison lets through exactly the columns that are longer than ra while len(ra) is a multiple of the chunk size
(C09_chunk_check_misses_iff, _only_truncates, _catches) and then returns a catalog (C09_chunk_check_alone_returns,
_refuted).  Expected of every such case, per the statement: raises, the path is what it was, nothing opens afterwards.
"""
import json
import os
import re
import select
import shutil
import signal
import subprocess
import time
from concurrent.futures import ThreadPoolExecutor

import numpy as np

from lib import floatq as fq
from lib import impl
from props import c09_driver as drv

ALLOWED_AXIOMS = []
TRUSTED = [
    "real multiprocessing / OS scheduling: each creation runs once per case under the scheduler's own interleaving; "
    "the model theorems cover all interleavings, the runs sample them",
    "hang = no completion 20 s after the driver reported READY and no CPU time consumed by its process group during "
    "the last second (otherwise the bound is extended twice); the group is then killed with SIGKILL",
    "fault injection for the places 'worker' and 'writer-finalize': yaw.catalog.catalog.split_into_patches / "
    "CatalogWriter.finalize are replaced in the driver process before the call (inherited through fork); nothing in /repo changes",
    "'not writable' is represented by a cache path below a regular file (the harness runs as root, permission bits do not bind)",
    "pandas, h5py, numpy casts, scipy vq are exercised, not modelled",
]
ASSUMPTIONS = [
    "records are compared by the bit pattern of their float64 fields (input degrees -> np.deg2rad on the harness side)",
    "a directory 'opens as a catalog' iff yaw.Catalog(path, max_workers=1) does not raise",
    "'untouched' = identical recursive listing and SHA-1 of every file (symbolic links as links; for a link at the cache "
    "path also what it points to; for a directory at the cache path also its inode and permission bits) before the call "
    "(taken by the driver right before it calls) and after it (or after the kill)",
    "'is a catalog cache' = the path is a real directory and its listing holds patch_ids.bin (the file CatalogWriter.finalize "
    "writes last and read_patch_ids requires; docs: overwrite = 'whether to overwrite an existing catalog at the given cache "
    "location'); the names / number of the other entries and anything deeper down do not count; a marker without patch data "
    "IS a cache (it may be overwritten, it need not be)",
    "a symbolic link at the cache path: the statement does not say whether it is followed; both readings are admitted "
    "(refused and everything kept, which is what the code does; or the thing pointed to is treated as the path), so a link "
    "to a valid catalog with overwrite may be refused or overwritten, a link to anything else existing must be kept together "
    "with what it points to",
    "the cache path inside a directory of the user's own: modifying or deleting anything of that directory besides the cache "
    "entry counts as deleting (part of) an existing directory that is not a catalog cache",
    "what an opened path holds: HPre = opens and untouched; HNew = opens, was modified, and the records of every patch "
    "(bit patterns) are exactly the input partitioned as a successful creation partitions it; HOther = opens otherwise "
    "(including data that cannot be loaded); the old catalog's patches are labels 101.. in the model",
    "model abstraction: one label per chunk; a worker fault puts nothing for its chunk (other splits of the same chunk may "
    "have been written in reality; only the absence of patch_ids.bin is compared)",
]
RULE = ("cases = (source, n, chunksize, workers, patch mode, fault kind, fault column, chunk position, pre-existing state of "
        "the cache path, overwrite, empty centre, the lengths of the columns (which one differs, by how much, in which chunk), call options: progress display, degrees / radians, chunk size passed / "
        "omitted / larger than the input, probe size); distinct by that tuple; non-trivial when a fault is present, the path "
        "pre-exists / is unusable, the run is parallel, or an option differs from its default (anything but a plain "
        "sequential creation with default options)")

HEADER = "From Verif Require Import Prelude FailStop.\nOpen Scope nat_scope.\n"
# states of the cache path explored by path_block (besides absent / the plain catalogs)
PATH_BLOCK_STATES = ["dir_empty", "dir_patchfiles", "dir_patchdirs", "dir_remains", "dir_holds_catalog", "dir_other", "file",
                     "dir_marker_only", "dir_marker_foreign", "catalog_foreign",
                     "link_catalog", "link_dir_other", "link_dir_empty", "link_patchfiles", "link_file", "link_dangling"]
PY = "/venv/bin/python"
DRIVER = os.path.join(os.path.dirname(os.path.abspath(__file__)), "c09_driver.py")
REPO_SRC = os.environ.get("VERIF_REPO_SRC", "/repo/src")
HANG_S = 20.0
READY_S = 240.0
JOBS = 10


# ----------------------------------------------------------------------------- case list
def base_spec(**kw):
    s = dict(n=14, cs=5, workers=1, nthreads=4, source="df", patch="centers", ncent=3, weights=True, redshifts=True,
             fault=dict(kind="none", chunk=0, col="w"), empty_centre=False, pre="absent", overwrite=False, dseed=1,
             opts=None, nest=False)
    s.update(kw)
    o = dict(drv.DEFAULT_OPTS)
    o.update(s["opts"] or {})
    s["opts"] = o
    return s


def nondefault_opts(spec):
    """labels of the call options that differ from their defaults (and of the first-pass patch mode)"""
    o = spec["opts"]
    out = []
    if o["progress"]:
        out.append("progress")
    if not o["degrees"]:
        out.append("radians")
    if o["cs_pass"] != "same":
        out.append("chunksize-" + ("omitted" if o["cs_pass"] == "none" else "over"))
    elif spec["cs"] == 1 and spec["n"] > 1:
        out.append("chunksize-1")
    if spec["patch"] == "num":
        out.append("patch_num/probe=%s" % ("auto" if o["probe_size"] < 0 else "n" if o["probe_size"] == spec["n"] else "small"))
    return out


SHAPES = [(14, 5), (9, 3), (12, 4), (7, 3)]          # three chunks each
VALUE_FAULTS = [("nan", "ra"), ("nan", "dec"), ("inf", "w"), ("nan", "z"), ("neginf", "w"), ("inf", "z"), ("nan", "w"), ("inf", "dec"),
                ("objnone", "dec"), ("objnone", "w"), ("objnan", "ra"), ("objnone", "z")]     # the missing value inside a column of python objects
OVER_SHAPES = [(14, 5), (12, 4), (23, 5), (17, 4), (9, 3)]   # three to five chunks
OVER_FAULTS = ["value", "worker", "unequal", "id"]
OLD_SIZES = ["catalog_fewer", "catalog_same", "catalog_more"]
READER_FAULTS = [("value", None), ("unequal", "w"), ("idneg", "pid"), ("idbig", "pid"), ("idwrap", "pid"), ("idedge", "pid")]
CS1_SHAPES = [(7, 1), (5, 1), (9, 1)]                # one record per chunk (parallel: splits without any record)
ONE_SHAPES = [(7, 7), (12, 12), (9, 9)]              # the whole input is one chunk: first = middle = last
TAIL_SHAPES = [(14, 13), (9, 8), (11, 5)]            # the last chunk holds a single record
RND = dict(source="random", weights=False, redshifts=False, ncent=2)
# columns of unequal length: len(ra) an exact multiple of the chunk size / equal to it / not a multiple
RAGGED_SHAPES = {"multiple": [(12, 4), (15, 5), (9, 3), (16, 4), (20, 5), (10, 5)],
                 "equal": [(7, 7), (12, 12), (9, 9)],
                 "partial": [(14, 5), (17, 4), (23, 5), (7, 3), (11, 5)]}
RAGGED_COLS = ["ra", "dec", "w", "z", "pid"]
RAGGED_BYS = ["one", "chunk", "many"]


def divisibility(n, cs):
    return "n<cs" if cs > n else "n=cs" if cs == n else "n=k*cs" if n % cs == 0 else "n%cs>0"


def draw_unequal(rng, source, shp, chunk, columns, col=None, direction=None, by=None):
    """one member of the family 'columns of unequal length': fault dict.  `columns` = the columns the source holds.
    hdf5: the whole dataset `col` is longer / shorter than the others (col = ra: every other dataset is shorter /
    longer than the right ascension, whose length stays n); frame: the slice of `col` in chunk `chunk`."""
    n, cs = shp
    col = col or rng.choice(columns)
    assert col in columns, (col, columns)
    direction = direction or rng.choice(["longer", "shorter"])
    by = by or rng.choice(RAGGED_BYS)
    if source == "hdf5":
        if direction == "longer":
            d = {"one": 1, "chunk": cs, "many": rng.choice([2 * cs + 1, n + 3, 3 * cs + 2])}[by]
        else:       # down to an empty dataset at most
            d = {"one": 1, "chunk": min(cs, n), "many": rng.randint(min(cs + 1, n), n)}[by]
        sign = 1 if direction == "longer" else -1
        if col == "ra":      # len(ra) stays n: the OTHER datasets are all shorter / longer
            sign, d = -sign, (min(d, n) if direction == "longer" else d)
            deltas = {c: sign * d for c in columns if c != "ra"}
        else:
            deltas = {col: sign * d}
    else:
        m = min(cs, n - chunk * cs)          # rows of that chunk
        if direction == "longer":
            d = {"one": 1, "chunk": cs, "many": rng.choice([2 * cs + 1, n + 3])}[by]
        else:       # down to an empty slice at most
            d = -{"one": 1, "chunk": m, "many": max(1, m - 1) if m > 2 else m}[by]
        deltas = {col: d}
    return dict(kind="unequal", chunk=chunk, col=col, deltas=deltas,
                shape=dict(col=col, dir=direction, by=by, div=divisibility(n, cs)))


def columns_of(patch, weights=True, redshifts=True):
    return ["ra", "dec"] + (["w"] if weights else []) + (["z"] if redshifts else []) + (["pid"] if patch == "name" else [])


def nchunks(spec):
    return -(-spec["n"] // spec["cs"])


def specs(ctx):
    rng = ctx.rng
    out = []

    def add(base=None, **kw):
        s = base_spec(**dict(base or {}, **kw))
        if "shape" in s:
            s["n"], s["cs"] = s.pop("shape")
        assert s["opts"]["cs_pass"] == "same" or s["cs"] >= s["n"], s     # cs is the effective chunk size
        if s["source"] == "random":
            s["opts"]["degrees"] = True                                   # from_random has no such keyword
        s["dseed"] = rng.randrange(10 ** 6)
        out.append(s)
        return s

    def shape():
        return rng.choice(SHAPES)

    def reader_fault(kind, pos, workers, shp=None, **more):
        shp = shp or shape()
        nch = -(-shp[0] // shp[1])
        chunk = {"first": 0, "middle": nch // 2, "last": nch - 1}[pos]
        if kind == "value":
            k, col = rng.choice(VALUE_FAULTS)
            kw = dict(shape=shp, workers=workers, fault=dict(kind=k, chunk=chunk, col=col),
                      patch=rng.choice(["centers", "name"]))
        elif kind == "unequal":
            kw = unequal_kw(shp, chunk, more.get("patch"))
            kw.update(workers=workers)
        elif kind == "genfail":     # from_random: the generator cannot deliver its draw number `chunk`
            kw = dict(RND, shape=shp, workers=workers, fault=dict(kind="genfail", chunk=chunk, col="ra"))
        elif kind == "worker":
            kw = dict(shape=shp, workers=workers, fault=dict(kind="worker", chunk=chunk, col="ra"),
                      patch=rng.choice(["centers", "name"]))
        else:
            kw = dict(shape=shp, workers=workers, patch="name", fault=dict(kind=kind, chunk=chunk, col="pid"))
        kw.update(more)
        return add(**kw)

    def unequal_kw(shp, chunk, patch=None, source=None, **cell):
        """a member of the family 'columns of unequal length' (drawn at random where the caller does not say): the
        frame double (slices of one chunk) or an HDF5 file (whole datasets)"""
        source = source or rng.choice(["frame", "frame", "hdf5"])
        patch = patch or ("name" if cell.get("col") == "pid" else rng.choice(["centers", "name"]))
        return dict(shape=shp, source=source, patch=patch,
                    fault=draw_unequal(rng, source, shp, chunk if source == "frame" else 0, columns_of(patch), **cell))

    def ragged_block(workers_list, full):
        """columns of unequal length: which column x longer / shorter x by one / a chunk / many x len(ra) a multiple of
        the chunk size / equal to it / not a multiple x sequential / parallel.  HDF5 (independent datasets): every
        (column, direction, divisibility) cell once per run on a fresh path (quick: size and mode rotate; `full`: once
        per worker count, the size rotating with it); frame double (slices of one chunk): column x direction, position
        and size rotating.  Further members meet an existing path / the progress display / the first-pass patch mode."""
        par_ws = [w for w in workers_list if w > 1]
        k, m, pi = rng.randrange(3), rng.randrange(2), rng.randrange(3)
        for col in RAGGED_COLS:
            for direction in ("longer", "shorter"):
                for div in ("multiple", "equal", "partial"):
                    modes = workers_list if full else [(1, rng.choice(par_ws))[m % 2]]
                    m += 1
                    for workers in modes:
                        shp = rng.choice(RAGGED_SHAPES[div])
                        kw = unequal_kw(shp, 0, source="hdf5", col=col, direction=direction, by=RAGGED_BYS[k % 3])
                        k += 1
                        if full and col != "pid" and rng.random() < 0.12:
                            kw.update(patch="num", opts=dict(draw_opts(), probe_size=30))
                        elif rng.random() < (0.3 if full else 0.1):
                            kw.update(opts=draw_opts())
                        if full and workers != workers_list[0] and rng.random() < 0.3:
                            # (the first mode of every cell always runs on a fresh path)
                            kw.update(pre=rng.choice(OLD_SIZES + ["dir_other", "catalog_foreign"]), overwrite=rng.random() < 0.7)
                        add(workers=workers, **kw)
                k += 1
        # the family over an existing path: a valid catalog that may be overwritten (it has to stay all the same: the
        # call fails before any writer exists), one that may not, a directory that is no cache
        for pre, ow in ([(rng.choice(OLD_SIZES), True), (rng.choice(OLD_SIZES + ["catalog_foreign"]), False), ("dir_other", True)]
                        if full else [(rng.choice(OLD_SIZES), True), (rng.choice(OLD_SIZES + ["dir_other"]), rng.random() < 0.5)]):
            for workers in (workers_list if full else [workers_list[pi % len(workers_list)]]):
                div = rng.choice(["multiple", "equal", "partial"])
                add(workers=workers, pre=pre, overwrite=ow,
                    **unequal_kw(rng.choice(RAGGED_SHAPES[div]), 0, source="hdf5", direction=rng.choice(["longer", "longer", "shorter"])))
                pi += 1
        for j, col in enumerate(RAGGED_COLS):
            for direction in (("longer", "shorter") if full else [("longer", "shorter")[(j + m) % 2]]):
                for workers in (workers_list if full else [(1, rng.choice(par_ws))[(j + k) % 2]]):
                    shp = rng.choice(OVER_SHAPES + TAIL_SHAPES)
                    nch = -(-shp[0] // shp[1])
                    chunk = {"first": 0, "middle": nch // 2, "last": nch - 1}[positions[pi % 3]]
                    pi += 1
                    add(workers=workers, **unequal_kw(shp, chunk, source="frame", col=col, direction=direction, by=RAGGED_BYS[k % 3]))
                    k += 1
        # nothing wrong: datasets of equal length hold exactly the input, whatever len(ra) is to the chunk size
        for div in ("multiple", "equal", "partial"):
            add(workers=workers_list[pi % len(workers_list)], source="hdf5", shape=rng.choice(RAGGED_SHAPES[div]),
                patch=rng.choice(["centers", "name"]))
            pi += 1

    def draw_opts(progress=None, cs_pass="same"):
        """call options: the progress display as asked (or a coin), the unit of the coordinates at random"""
        return dict(progress=(rng.random() < 0.5) if progress is None else progress, degrees=rng.random() < 0.65,
                    cs_pass=cs_pass)

    def with_twin(s):
        """the same call (same data) with the default options next to it"""
        if s["opts"] == drv.DEFAULT_OPTS and s["patch"] != "num":
            return
        t = json.loads(json.dumps(s))
        t["opts"] = dict(drv.DEFAULT_OPTS)
        if t["patch"] == "num":
            t["patch"] = "centers"
        t["twin_of"] = len(out) - 1
        out.append(t)

    def table_block(workers_list, full):
        """from_random: the generator draws weights / redshifts from tables; a non-finite value (nan, +inf, -inf) in the
        weights table, in the redshifts table, in both at different rows; patch centres given / computed (patch_num);
        fresh path and over a valid catalog with overwrite (refused before any writer exists: the path stays).
        The first case is the deterministic probe of the repaired defect (DESIGN F24)."""
        kinds3 = ["nan", "inf", "neginf"]
        variants = [("w", "z"), ("w",), ("z",)]
        j = 0

        def case(workers, cols, patch, pre, overwrite, first=False):
            nonlocal j
            tables = {}
            for i, c in enumerate(cols):
                tables[c] = ["nan", 1] if (first and c == "w") else ["inf", 2] if (first and c == "z") else \
                    [kinds3[(j + i) % 3], (j + 2 * i + 1) % drv.TABLE_LEN]
            if len(tables) == 2 and tables["w"][1] == tables["z"][1]:
                tables["z"][1] = (tables["z"][1] + 1) % drv.TABLE_LEN
            j += 1
            # a table that is not faulty is present or absent at random (always present in the probe)
            kw = dict(RND, weights="w" in cols or first or rng.random() < 0.5, redshifts="z" in cols or first or rng.random() < 0.5)
            add(kw, shape=(200, 80) if first else rng.choice([(80, 30), (50, 20), (64, 16)]), workers=workers, patch=patch,
                pre=pre, overwrite=overwrite, fault=dict(kind="gentable", chunk=0, col="w", tables=tables),
                opts=dict(progress=False if first else rng.random() < 0.3, probe_size=20))

        case(1, ("w", "z"), "centers", "absent", False, first=True)
        par_ws = [w for w in workers_list if w > 1]
        if full:
            for workers in workers_list:
                for cols in variants:
                    for patch in ("centers", "num"):
                        case(workers, cols, patch, "absent", False)
                        case(workers, cols, patch, rng.choice(OLD_SIZES), True)
                    case(workers, cols, rng.choice(["centers", "num"]), rng.choice(OLD_SIZES), False)
                case(workers, rng.choice(variants), "none", "absent", False)
        else:
            k = rng.randrange(2)
            for cols in variants:
                for workers in (1, rng.choice(par_ws)):
                    case(workers, cols, ("centers", "num")[k % 2], "absent", False)
                    k += 1
                case((1, rng.choice(par_ws))[k % 2], cols, ("centers", "num")[k % 2], rng.choice(OLD_SIZES), True)
            case(rng.choice(par_ws), rng.choice(variants), "centers", rng.choice(OLD_SIZES), False)
        # finite tables: exactly the records the generator draws
        for workers in ((1, rng.choice(par_ws)) if not full else workers_list):
            add(RND, weights=True, redshifts=True, shape=(80, 30), workers=workers, opts=dict(progress=rng.random() < 0.3))
        add(RND, weights=True, redshifts=False, shape=(64, 16), workers=rng.choice(workers_list), patch="num",
            opts=dict(probe_size=20))

    def options_block(workers_list, full):
        """every fault kind x chunk position x place x mode with the progress display ON (coordinates in degrees or
        radians at random); chunk-size extremes; the first-pass patch mode (patch_num / probe_size); from_random with
        a failing generator.  `full`: every kind in every cell (thorough), else three rotating kinds per cell."""
        par_ws = [w for w in workers_list if w > 1]
        pw = lambda: rng.choice(par_ws)  # noqa: E731
        kinds = [k for k, _ in READER_FAULTS] + ["genfail", "worker"]
        k = rng.randrange(len(kinds))
        # (A) progress display x fault kind x position x mode, each with its twin
        for pos in positions:
            for workers in workers_list:
                cell = kinds if full else [kinds[(k + j) % len(kinds)] for j in range(3)]
                k += 3
                for kind in cell:
                    shp = rng.choice(OVER_SHAPES) if kind != "genfail" else rng.choice([(80, 30), (50, 20), (64, 16)])
                    with_twin(reader_fault(kind, pos, workers, shp=shp, opts=draw_opts(progress=True)))
        for j, pos in enumerate(positions):          # from_file
            for workers in (workers_list if full else [workers_list[j % len(workers_list)]]):
                kk, col = rng.choice(VALUE_FAULTS)
                shp = rng.choice(OVER_SHAPES)
                nch = -(-shp[0] // shp[1])
                with_twin(add(shape=shp, workers=workers, source="hdf5", opts=draw_opts(progress=True),
                              fault=dict(kind=kk, chunk={"first": 0, "middle": nch // 2, "last": nch - 1}[pos], col=col)))
        for workers in workers_list:
            add(workers=workers, fault=dict(kind=rng.choice(["final", "final_late"]), chunk=0, col="ra"), opts=draw_opts(progress=True))
            add(workers=workers, fault=dict(kind="missing", chunk=0, col=rng.choice(["w", "z", "dec"])), opts=draw_opts(progress=True))
            add(workers=workers, empty_centre=True, opts=draw_opts(progress=True))
            add(workers=workers, patch="none", opts=draw_opts(progress=True))
            # nothing wrong: exactly the input, whatever the options
            add(workers=workers, shape=rng.choice(OVER_SHAPES), patch=rng.choice(["centers", "name"]), opts=draw_opts(progress=True))
            add(workers=workers, shape=shape(), source="hdf5", opts=draw_opts(progress=True))
            add(RND, workers=workers, shape=(80, 30), opts=draw_opts(progress=True))
            add(workers=workers, shape=shape(), patch=rng.choice(["centers", "name"]), opts=dict(progress=False, degrees=False))
        # coordinates handed over in radians (display off): a non-finite value at every position, both modes
        for pos in positions:
            for workers in ([1, pw()] if not full else workers_list):
                with_twin(reader_fault("value", pos, workers, opts=dict(progress=False, degrees=False)))
        # the progress display while a valid catalog is being overwritten / has to stay
        for j, pos in enumerate(positions):
            for workers in (workers_list if full else [1, pw()]):
                over_fault(rng.choice(OVER_FAULTS), pos, workers, rng.choice(OLD_SIZES), True, opts=draw_opts(progress=True))
            over_fault(rng.choice(OVER_FAULTS), pos, workers_list[j % len(workers_list)], rng.choice(OLD_SIZES), False,
                       opts=draw_opts(progress=True))
        for workers in ([1, pw()] if not full else workers_list):
            add(workers=workers, pre=rng.choice(OLD_SIZES), overwrite=True, shape=shape(), patch=rng.choice(["centers", "name"]),
                opts=draw_opts(progress=True))
            add(workers=workers, pre="dir_other", overwrite=True, opts=draw_opts(progress=True))
        # (B) chunk-size extremes: one record per chunk, the whole input in one chunk (size given, omitted, larger
        # than the input), a last chunk of a single record
        k2 = rng.randrange(len(kinds))
        for pos in positions:
            for workers in ([1, pw()] if not full else workers_list):
                kind = kinds[k2 % len(kinds)]
                k2 += 1
                shp = rng.choice(CS1_SHAPES) if kind != "genfail" else (6, 1)
                reader_fault(kind, pos, workers, shp=shp, opts=draw_opts())
        for cs_pass in ("same", "none", "over"):
            for workers in ([1, pw()] if not full else workers_list):
                kind = kinds[k2 % len(kinds)]
                k2 += 1
                reader_fault(kind, "first", workers, shp=rng.choice(ONE_SHAPES), opts=draw_opts(cs_pass=cs_pass))
            add(workers=rng.choice(workers_list), shape=rng.choice(ONE_SHAPES), patch=rng.choice(["centers", "name"]),
                opts=draw_opts(cs_pass=cs_pass))
        add(workers=rng.choice(workers_list), shape=(9, 9), source="hdf5", opts=draw_opts(cs_pass="none"))
        add(RND, workers=rng.choice(workers_list), shape=(40, 40), opts=draw_opts(cs_pass="none"))
        for workers in ([1, pw()] if not full else workers_list):
            add(workers=workers, shape=rng.choice(CS1_SHAPES), patch=rng.choice(["centers", "name"]), opts=draw_opts())
            reader_fault(kinds[k2 % len(kinds)], "last", workers, shp=rng.choice(TAIL_SHAPES) if kinds[k2 % len(kinds)] != "genfail" else (31, 30),
                         opts=draw_opts())
            k2 += 1
        # (C) patch_num: the patch centres come from a first pass over the reader (get_probe), so a reader fault
        # strikes before the cache path is touched; a worker / writer fault strikes in the second pass
        for workers in ([1, pw()] if not full else workers_list):
            for probe in ((-1, 30, "n") if full else (rng.choice([-1, 30]), "n")):
                shp = shape()
                with_twin(add(workers=workers, shape=shp, patch="num", opts=dict(draw_opts(), probe_size=shp[0] if probe == "n" else probe)))
            for pos in (positions if full else [rng.choice(positions)]):
                reader_fault(rng.choice(["value", "unequal"]), pos, workers, patch="num", opts=dict(draw_opts(), probe_size=30))
            reader_fault("worker", rng.choice(positions), workers, patch="num", opts=dict(draw_opts(), probe_size=30))
            old = rng.choice(OLD_SIZES)
            reader_fault("value", rng.choice(positions), workers, patch="num", pre=old, overwrite=True, opts=dict(draw_opts(), probe_size=30))
            add(workers=workers, patch="num", pre=old, overwrite=True, shape=shape(), opts=dict(draw_opts(), probe_size=30))
            add(RND, workers=workers, shape=(80, 30), patch="num", opts=dict(draw_opts(), probe_size=rng.choice([20, 80])))
        add(workers=rng.choice(workers_list), shape=shape(), source="hdf5", patch="num", opts=dict(draw_opts(), probe_size=30))

    def over_fault(kind, pos, workers, old, overwrite, shp=None, opts=None, **more):
        """a fault of the given kind / position while the target is in the pre-existing state `old`"""
        shp = shp or rng.choice(OVER_SHAPES)
        nch = -(-shp[0] // shp[1])
        chunk = {"first": 0, "middle": nch // 2, "last": nch - 1}[pos]
        kw = dict(shape=shp, workers=workers, pre=old, overwrite=overwrite, opts=opts, **more)
        if kind == "value":
            kk, col = rng.choice(VALUE_FAULTS)
            add(fault=dict(kind=kk, chunk=chunk, col=col), patch=rng.choice(["centers", "name"]), **kw)
        elif kind == "unequal":
            kw.pop("shape")
            add(**dict(kw, **unequal_kw(shp, chunk)))
        elif kind == "id":
            add(patch="name", fault=dict(kind=rng.choice(["idneg", "idbig", "idwrap", "idedge"]), chunk=chunk, col="pid"), **kw)
        elif kind == "worker":
            add(fault=dict(kind="worker", chunk=chunk, col="ra"), patch=rng.choice(["centers", "name"]), **kw)
        elif kind in ("final", "final_late"):
            add(fault=dict(kind=kind, chunk=0, col="ra"), patch=rng.choice(["centers", "name"]), **kw)
        else:
            raise ValueError(kind)

    def path_block(workers_list, full):
        """the pre-existing state of the cache path x overwrite on / off x sequential / parallel x clean / faulting
        creation (fault kind and position rotate; `full`: four kinds per cell), through from_dataframe mostly and
        from_file / from_random in turn; the cache path alone in its directory or inside a directory of the user's
        own (nest).  What has to happen is decided by the listing alone: marker -> a cache (overwrite allowed);
        anything else that exists -> raise and keep; a link -> refused or followed."""
        par_ws = [w for w in workers_list if w > 1]
        faults = OVER_FAULTS + ["final", "final_late"]
        sources = ("df", "df", "hdf5", "df", "random", "df", "df", "hdf5")
        k, q, si, pi = rng.randrange(len(faults)), rng.randrange(2), rng.randrange(len(sources)), rng.randrange(3)

        def clean(state, ow, workers, nest, source):
            if source == "random":
                add(RND, shape=(80, 30), workers=workers, pre=state, overwrite=ow, nest=nest)
            else:
                add(workers=workers, source=source, shape=rng.choice(OVER_SHAPES), patch=rng.choice(["centers", "name"]),
                    pre=state, overwrite=ow, nest=nest, opts=draw_opts() if rng.random() < 0.25 else None)

        for state in PATH_BLOCK_STATES:
            for ow in (True, False):
                modes = workers_list if full else [1, rng.choice(par_ws)]
                for j, workers in enumerate(modes):
                    clean(state, ow, workers, rng.random() < 0.35, sources[si % len(sources)])
                    si += 1
                    if full:         # four of the six fault kinds per cell, rotating: every kind meets every state / mode
                        for i in range(4):
                            over_fault(faults[(k + i) % len(faults)], rng.choice(positions), workers, state, ow, nest=rng.random() < 0.35)
                        k += 4
                    elif (j + q) % 2 == 0:
                        over_fault(faults[k % len(faults)], positions[pi % 3], workers, state, ow, nest=rng.random() < 0.35)
                        k += 1
                        pi += 1
                q += 1
        # the cache path inside a directory of the user's own: a fresh creation, the overwrite of a valid catalog and a
        # refused one leave everything else in that directory alone, clean or faulting
        for workers in (workers_list if full else [1, rng.choice(par_ws)]):
            add(workers=workers, shape=shape(), patch=rng.choice(["centers", "name"]), nest=True)
            add(workers=workers, shape=shape(), patch=rng.choice(["centers", "name"]), pre=rng.choice(OLD_SIZES), overwrite=True, nest=True)
            over_fault(faults[k % len(faults)], positions[pi % 3], workers, rng.choice(OLD_SIZES), True, nest=True)
            reader_fault(rng.choice(["value", "worker"]), positions[(pi + 1) % 3], workers, shp=rng.choice(OVER_SHAPES), nest=True)
            k += 1
            pi += 1

    positions = ["first", "middle", "last"]
    if ctx.quick():
        # every position x mode gets three reader fault kinds (rotating), every kind appears in both modes
        k = 0
        for pos in positions:
            for workers in (1, rng.choice([2, 3])):
                for j in range(3):
                    reader_fault(READER_FAULTS[(k + j) % len(READER_FAULTS)][0], pos, workers)
                k += 1
        par = lambda: rng.choice([2, 3])  # noqa: E731
        for workers in (1, par()):
            add(workers=workers, fault=dict(kind="missing", chunk=0, col=rng.choice(["w", "z", "dec"])))
        add(workers=1, fault=dict(kind="worker", chunk=1, col="ra"))
        add(workers=2, fault=dict(kind="worker", chunk=0, col="ra"))
        add(workers=3, fault=dict(kind="worker", chunk=2, col="ra"))
        for workers in (1, par()):
            add(workers=workers, fault=dict(kind="final", chunk=0, col="ra"))
            add(workers=workers, empty_centre=True)
            add(workers=workers, patch="none")
            add(workers=workers, pre="catalog_other", overwrite=False, patch="name")
            add(workers=workers, pre="dir_other", overwrite=False)
            add(workers=workers, pre="dir_other", overwrite=True)
            add(workers=workers, pre="file", overwrite=True)
            add(workers=workers, pre="catalog_other", overwrite=True)
            add(workers=workers, pre="noparent")
            add(workers=workers, pre="parentfile")
        for workers in (1, 2, 3):
            add(workers=workers, shape=shape(), patch=rng.choice(["centers", "name"]))
        # a Parquet file with row groups of unequal sizes: healthy (the exact catalog), and with a value fault
        for workers in (1, par()):
            for shp in ((14, 5), (23, 5), (17, 4)):
                add(workers=workers, source="parquet", shape=shp, patch=rng.choice(["centers", "name"]))
            add(workers=workers, source="parquet", shape=(23, 5), fault=dict(kind="nan", chunk=rng.choice([0, 4]), col=rng.choice(["ra", "w"])))
        # the missing value as a python object in a pandas table, every column
        for (kk, col) in (("objnone", "dec"), ("objnone", "w"), ("objnan", "ra"), ("objnone", "z")):
            add(workers=rng.choice([1, par()]), source="df", shape=shape(), patch=rng.choice(["name", "centers"]), fault=dict(kind=kk, chunk=1, col=col))
        # ---- creation OVER a pre-existing valid catalog, overwrite=True: fault kind x position x old size x mode
        # (kind index advances by one per case, three cases per group, four kinds: every kind meets every position,
        # the pairing differs from one old size / mode to the next; finalize faults alternate early / late)
        k, fk = rng.randrange(len(OVER_FAULTS)), rng.randrange(2)
        for workers in (1, par()):
            for old in OLD_SIZES:
                for pos in positions:
                    over_fault(OVER_FAULTS[k % len(OVER_FAULTS)], pos, workers, old, True)
                    k += 1
                over_fault(("final", "final_late")[fk % 2], "first", workers, old, True)
                fk += 1
        for workers in (1, par()):
            add(workers=workers, pre="catalog_same", overwrite=True, shape=shape(), patch=rng.choice(["centers", "name"]))
            add(workers=workers, pre="catalog_more", overwrite=True, shape=shape(), patch=rng.choice(["centers", "name"]))
            add(workers=workers, pre=rng.choice(OLD_SIZES), overwrite=True, empty_centre=True)
            add(workers=workers, pre=rng.choice(OLD_SIZES), overwrite=False,
                fault=dict(kind="nan", chunk=2, col=rng.choice(["ra", "w"])))
        options_block([1, par()], full=False)
        table_block([1, par()], full=False)
        path_block([1, par()], full=False)
        ragged_block([1, par()], full=False)
        return out
    # ---- thorough: the full grid
    for workers in (1, 2, 3):
        for pos in positions:
            for (k, col) in VALUE_FAULTS:
                shp = shape()
                nch = -(-shp[0] // shp[1])
                chunk = {"first": 0, "middle": nch // 2, "last": nch - 1}[pos]
                add(shape=shp, workers=workers, fault=dict(kind=k, chunk=chunk, col=col), patch=rng.choice(["centers", "name"]))
            for kind in ("unequal", "idneg", "idbig", "idwrap", "idedge"):
                reader_fault(kind, pos, workers)
            chunk = {"first": 0, "middle": 1, "last": 2}[pos]
            add(workers=workers, fault=dict(kind="worker", chunk=chunk, col="ra"), patch=rng.choice(["centers", "name"]))
        # five chunks, fault in the middle one
        reader_fault("value", "middle", workers, shp=(23, 5))
        for col in ("dec", "w", "z", "pid"):
            add(workers=workers, fault=dict(kind="missing", chunk=0, col=col), patch="name" if col == "pid" else "centers")
        add(workers=workers, fault=dict(kind="final", chunk=0, col="ra"))
        add(workers=workers, fault=dict(kind="final", chunk=0, col="ra"), pre="catalog_other", overwrite=True)
        add(workers=workers, empty_centre=True)
        add(workers=workers, empty_centre=True, shape=(9, 3), weights=False)
        add(workers=workers, patch="none")
        add(workers=workers, patch="none", pre="catalog_other", overwrite=True)
        for pre in ("catalog_other", "dir_other", "dir_empty", "file"):
            for ow in (False, True):
                add(workers=workers, pre=pre, overwrite=ow, patch=rng.choice(["centers", "name"]))
        add(workers=workers, pre="noparent")
        add(workers=workers, pre="parentfile")
        add(workers=workers, pre="noparent", overwrite=True)
        # a fault while overwriting an existing catalog; a fault on top of an unusable target
        add(workers=workers, pre="catalog_other", overwrite=True, fault=dict(kind="nan", chunk=1, col="w"))
        add(workers=workers, pre="catalog_other", overwrite=False, fault=dict(kind="nan", chunk=1, col="w"))
        add(workers=workers, pre="noparent", fault=dict(kind="inf", chunk=2, col="z"))
        # the same missing value in another representation: a pandas table whose column holds python objects
        # (None / a float nan inside dtype=object), every column, both patch modes
        for (k, col) in (("objnone", "dec"), ("objnone", "w"), ("objnan", "ra"), ("objnone", "z"), ("objnan", "w"), ("objnan", "z")):
            add(workers=workers, source="df", shape=shape(), patch="name", fault=dict(kind=k, chunk=1, col=col))
            add(workers=workers, source="df", shape=shape(), patch="centers", fault=dict(kind=k, chunk=rng.choice([0, 2]), col=col))
        # other sources
        add(workers=workers, **unequal_kw(shape(), 0, source="hdf5"))
        add(workers=workers, source="hdf5", fault=dict(kind="missing", chunk=0, col="z"))
        add(workers=workers, source="hdf5", fault=dict(kind="nan", chunk=1, col="dec"))
        add(workers=workers, source="hdf5")
        # a Parquet file with row groups of unequal sizes: healthy, and with a value fault in the first / last chunk
        for shp in ((14, 5), (23, 5), (17, 4)):
            add(workers=workers, source="parquet", shape=shp, patch=rng.choice(["centers", "name"]))
        add(workers=workers, source="parquet", shape=(23, 5), fault=dict(kind="nan", chunk=rng.choice([0, 4]), col=rng.choice(["ra", "w"])))
        rnd = dict(source="random", weights=False, redshifts=False, ncent=2, shape=(80, 30))
        add(workers=workers, patch="none", **rnd)
        add(workers=workers, pre="catalog_other", overwrite=False, **rnd)
        add(workers=workers, empty_centre=True, **rnd)
        add(workers=workers, **rnd)
        for _ in range(2):
            add(workers=workers, shape=shape(), patch=rng.choice(["centers", "name"]), weights=rng.random() < 0.5,
                redshifts=rng.random() < 0.5)
        # ---- creation OVER a pre-existing valid catalog: every fault kind x position x old size, overwrite=True;
        # the same faults with overwrite=False (the old catalog has to stay) at a random position
        for old in OLD_SIZES + ["catalog_other"]:
            for kind in ("value", "value", "unequal", "id", "worker"):
                for pos in positions:
                    over_fault(kind, pos, workers, old, True)
                over_fault(kind, rng.choice(positions), workers, old, False)
            for kind in ("final", "final_late"):
                over_fault(kind, "first", workers, old, True)
                over_fault(kind, "first", workers, old, False)
            add(workers=workers, pre=old, overwrite=True, shape=shape(), patch=rng.choice(["centers", "name"]))
            add(workers=workers, pre=old, overwrite=True, empty_centre=True)
            add(workers=workers, pre=old, overwrite=True, patch="none")
            add(workers=workers, pre=old, overwrite=True, fault=dict(kind="missing", chunk=0, col=rng.choice(["dec", "w", "z"])))
            add(workers=workers, pre=old, overwrite=True, source="hdf5", fault=dict(kind="nan", chunk=2, col="ra"))
        add(workers=workers, pre="catalog_same", overwrite=True, **rnd)
        add(workers=workers, fault=dict(kind="final_late", chunk=0, col="ra"))
    options_block([1, 2, 3], full=True)
    table_block([1, 2, 3], full=True)
    path_block([1, 2, 3], full=True)
    ragged_block([1, 2, 3], full=True)
    return out


# ----------------------------------------------------------------------------- model scenario of a case
def scenario(spec):
    """(place, chunk, kind) of the model fault, pre-state term, early flag"""
    f = spec["fault"]
    k = f["kind"]
    early = spec["patch"] == "none"
    fault = None
    if k in ("nan", "inf", "neginf", "objnone", "objnan"):
        fault = ("InReader", f["chunk"], "NonFinite")
    elif k == "unequal":
        if spec["source"] == "hdf5":
            early = True           # HDFReader.__init__ compares the dataset lengths
        else:
            fault = ("InReader", f["chunk"], "UnequalLen")
    elif k == "missing":
        if spec["source"] == "hdf5":
            early = True
        else:
            fault = ("InReader", 0, "MissingCol")
    elif k in ("idneg", "idbig", "idwrap", "idedge"):
        fault = ("InReader", f["chunk"], "IdRange")
    elif k == "worker":
        fault = ("InWorker", f["chunk"], "Injected")
    elif k in ("final", "final_late"):
        fault = ("WriterFinal", 0, "Injected")
    elif k == "genfail":
        fault = ("InReader", f["chunk"], "Injected")
    elif k == "gentable":
        early = True               # the generator refuses its tables when it is constructed: nothing has started
    if spec["patch"] == "num" and fault is not None and fault[0] == "InReader" and spec["source"] != "random":
        # the centres are computed from a first pass over the whole reader (create_patch_centers -> get_probe):
        # the reader fault strikes there, before the writer exists
        fault, early = None, True
    return fault, drv.path_term(spec), early       # the path as a concrete thing (fspath): listing / file / link


def scen_term(spec):
    fault, pre, early = scenario(spec)
    ft = "None" if fault is None else "(mk_fault %s %s %s)" % (fault[0], fq.nat(fault[1]), fault[2])
    # patch_num: whether a centre is left without any object is decided by the centres the k-means step produced
    # the abstract pre-state is derived from the concrete path inside c09_case_path (TAbsent here is a placeholder)
    return "(mk_scen %s %s TAbsent %s %s %s) %s" % (fq.nat(nchunks(spec)), ft, fq.b(spec["overwrite"]), fq.b(early),
                                                  fq.b(spec["empty_centre"] or bool(spec.get("kmeans_empty"))), pre)


def cols_source_term(spec):
    """fault kind 'unequal': the source of columns as the model sees it (Model/FailStop.v, colsource) - the lengths of
    the independent datasets behind the up-front comparison, or the slices the per-chunk comparison gets to see"""
    if spec["source"] == "hdf5":
        return "(SrcUpFront %s %s)" % (fq.nlist(drv.column_lengths(spec)), fq.nat(spec["cs"]))
    assert spec["source"] == "frame", spec
    return "(SrcPerChunk %s %s)" % (fq.lst(fq.nlist(r) for r in drv.chunk_slice_lengths(spec)), fq.b(spec["patch"] == "num"))


def case_term(spec, par, ob, untouched, opens, held, around):
    """the checker term of one observed run.  Columns of unequal length: the scenario (early failure / reader fault at
    the first chunk whose slices differ / none) is derived inside Coq from the lengths (cols_scen)"""
    tail = "%s %s %s %s %s %s" % (drv.path_term(spec), ob, fq.b(untouched), fq.b(opens), held, fq.b(around))
    if spec["fault"]["kind"] == "unequal":
        return "c09_case_cols %s %s %s %s %s %s" % (
            fq.b(par), cols_source_term(spec), fq.b(spec["overwrite"]), fq.b(spec["patch"] == "none"),
            fq.b(spec["empty_centre"] or bool(spec.get("kmeans_empty"))), tail)
    return "c09_case_path %s %s %s %s %s %s %s" % (fq.b(par), scen_term(spec), ob, fq.b(untouched), fq.b(opens), held, fq.b(around))


def unequal_label(spec):
    """structural label of a member of the family 'columns of unequal length'"""
    f = spec["fault"]
    d = drv.unequal_deltas(spec)
    sh = f.get("shape") or dict(col=f["col"], dir="longer" if d[f["col"]] > 0 else "shorter", div=divisibility(spec["n"], spec["cs"]))
    if spec["source"] == "hdf5":
        return "unequal[%s-%s,%s]" % (sh["col"], sh["dir"], divisibility(spec["n"], spec["cs"]))
    return "unequal[%s-%s]" % (sh["col"], sh["dir"])


# ----------------------------------------------------------------------------- running one case
def snap_case(spec):
    """JSON-normalised, so that it compares with what the driver wrote down before the call"""
    return json.loads(json.dumps(drv.snap_case(spec)))


def group_ticks(pgid):
    """CPU ticks (utime + stime) consumed so far by the live processes of a process group"""
    total, alive = 0, 0
    for pid in os.listdir("/proc"):
        if not pid.isdigit():
            continue
        try:
            with open("/proc/%s/stat" % pid) as f:
                st = f.read()
            rest = st[st.rindex(")") + 2:].split()
            if int(rest[2]) == pgid and rest[0] != "Z":
                total += int(rest[11]) + int(rest[12])
                alive += 1
        except (OSError, ValueError, IndexError):
            continue
    return total, alive


def kill_group(pgid):
    try:
        os.killpg(pgid, signal.SIGKILL)
    except ProcessLookupError:
        pass


def run_one(workdir, idx, spec):
    d = os.path.join(workdir, "case_%03d" % idx)
    shutil.rmtree(d, ignore_errors=True)
    os.makedirs(d)
    spec["cache"] = os.path.join(d, "t", "cat")
    spec_path, out_path, log_path = os.path.join(d, "spec.json"), os.path.join(d, "out.json"), os.path.join(d, "log.txt")
    with open(spec_path, "w") as f:
        json.dump(spec, f)
    env = dict(os.environ)
    env.update(PYTHONPATH=REPO_SRC, VERIF_REPO_SRC=REPO_SRC, YAW_NUM_THREADS=str(spec["nthreads"]),
               PYTHONDONTWRITEBYTECODE="1", PYTHONHASHSEED="0", OMP_NUM_THREADS="1", OPENBLAS_NUM_THREADS="1", MKL_NUM_THREADS="1")
    res = {"idx": idx}
    with open(log_path, "w") as log:
        p = subprocess.Popen([PY, "-u", DRIVER, spec_path, out_path], stdout=subprocess.PIPE, stderr=log,
                             start_new_session=True, env=env, cwd=d)
    pgid = p.pid
    try:
        # ---- wait for READY (import + preparation of the pre-existing state are not timed)
        t0 = time.time()
        line = b""
        while time.time() - t0 < READY_S:
            r, _, _ = select.select([p.stdout], [], [], 1.0)
            if r:
                ch = os.read(p.stdout.fileno(), 4096)
                if not ch:
                    break
                line += ch
                if b"READY" in line:
                    break
        if b"READY" not in line:
            res["class"] = "driver-error"
            res["detail"] = "no READY within %.0f s / driver died: %s" % (READY_S, open(log_path).read()[-1500:])
            return res
        t1 = time.time()
        res["before"] = json.load(open(out_path + ".before"))      # taken by the driver right before the call
        # ---- the bounded creation call
        deadline, extensions = t1 + HANG_S, 0
        while True:
            if p.poll() is not None:
                break
            if time.time() >= deadline:
                a, _ = group_ticks(pgid)
                time.sleep(1.0)
                b, alive = group_ticks(pgid)
                if p.poll() is not None:
                    break
                if b - a > 5 and extensions < 2:   # still computing (> 50 ms CPU in the last second): slow, not blocked
                    extensions += 1
                    deadline = time.time() + HANG_S
                    continue
                res["class"] = "hang"
                res["blocked_processes"] = alive
                break
            time.sleep(0.05)
        res["elapsed"] = time.time() - t1
        res["extensions"] = extensions
    finally:
        kill_group(pgid)
        try:
            p.wait(timeout=10)
        except Exception:  # noqa: BLE001
            pass
        p.stdout.close()
    if res.get("class") != "hang":
        if os.path.exists(out_path):
            o = json.load(open(out_path))
            res["class"] = o["outcome"]
            res.update({k: o[k] for k in ("exc_type", "exc_msg", "records", "centers", "kmeans_centres") if k in o})
        else:
            res["class"] = "driver-error"
            res["detail"] = "driver exited (rc=%s) without a result: %s" % (p.returncode, open(log_path).read()[-1500:])
            return res
    time.sleep(0.05)
    res["after"] = snap_case(spec)
    return res


# ----------------------------------------------------------------------------- observation -> Coq term
def expected_of(spec):
    """(sorted record tuples, expected patch of each record key or None)"""
    if spec["source"] == "random":
        from yaw.catalog.readers import RandomReader
        import yaw.randoms
        import yaw
        gen = drv.make_generator(yaw, spec, tolerant=True)
        rows = []
        for chunk in RandomReader(gen, spec["n"], spec["cs"]):
            rows.extend(tuple(float(rec[nm]).hex() for nm in chunk.dtype.names) for rec in chunk)
        return sorted(rows), None
    cols, near, cent = drv.make_input(spec)
    cols = drv.apply_fault(spec, cols)
    cols = {k: (np.asarray([float("nan") if x is None else x for x in v], dtype=float) if getattr(v, "dtype", None) == object else v)
            for k, v in cols.items()}      # a column of python objects: the missing value as NaN (such a run has to raise anyway)
    fields = [np.deg2rad(cols["ra"]), np.deg2rad(cols["dec"])]
    if spec["weights"]:
        fields.append(cols["w"])
    if spec["redshifts"]:
        fields.append(cols["z"])
    rows = [tuple(float(x).hex() for x in row) for row in zip(*fields)]
    if spec["patch"] == "num":
        return sorted(rows), None      # the centres are the implementation's choice (k-means); only the records are compared
    if spec["patch"] == "name":
        pids = [int(x) for x in cols["pid"]]
    else:
        pids = [(k if (not spec["empty_centre"] or k == 0) else k + 1) for k in near]
    part = {}
    for r, p in zip(rows, pids):
        part.setdefault(p, []).append(r)
    return sorted(rows), {p: sorted(v) for p, v in part.items()}


def kmeans_empty_centre(spec, centres_hex):
    """patch_num: does the set of centres the k-means step produced hold a centre without any object (a non-finite
    centre, or one no record is nearest to)?  -> (True | False | None when that hinges on a near-tie, description)"""
    cen = np.array([[float.fromhex(a), float.fromhex(b)] for a, b in centres_hex], dtype="f8")
    bad = [int(k) for k in np.flatnonzero(~np.isfinite(cen).all(axis=1))]
    rows, _ = expected_of(spec)
    pts = np.array([[float.fromhex(r[0]), float.fromhex(r[1])] for r in rows], dtype="f8")
    pts = pts[np.isfinite(pts).all(axis=1)]

    def xyz(a):
        return np.stack([np.cos(a[:, 1]) * np.cos(a[:, 0]), np.cos(a[:, 1]) * np.sin(a[:, 0]), np.sin(a[:, 1])], axis=1)

    good = [k for k in range(len(cen)) if k not in bad]
    if bad:
        return True, "centres %s are not finite" % bad
    d2 = ((xyz(pts)[:, None, :] - xyz(cen)[None, :, :]) ** 2).sum(axis=2)
    order = np.sort(d2, axis=1)
    sure = (order[:, 1] - order[:, 0]) > 1e-9 if len(good) > 1 else np.ones(len(pts), bool)
    owner = d2.argmin(axis=1)
    surely_owned = set(int(k) for k in owner[sure])
    maybe_owned = set(int(k) for k in owner)
    if len(surely_owned) == len(cen):
        return False, "every centre is the nearest one of some record"
    if len(maybe_owned) < len(cen) and sure.all():
        return True, "no record is nearest to centres %s" % sorted(set(range(len(cen))) - maybe_owned)
    return None, "near-tie between centres"


def classify_return(spec, res):
    recs = res["records"]
    allrows = sorted(tuple(r) for v in recs.values() for r in v)
    exp_rows, exp_part = expected_of(spec)
    kind = "ROther"
    if allrows == exp_rows:
        kind = "RSame"
        if exp_part is not None:
            got = {int(p): sorted(tuple(r) for r in v) for p, v in recs.items()}
            if got != exp_part:
                kind = "ROther"
    elif spec["pre"] in drv.OLD_CATALOG_PRES and allrows == drv.foreign_records(drv.old_npatch(spec)):
        kind = "RForeign"
    centres_ok = True
    if spec["patch"] == "centers" and kind == "RSame":
        cent = drv.centres(spec["ncent"])
        if spec["empty_centre"]:
            cent = [cent[0], (300.0, 60.0)] + list(cent[1:])
        given = np.deg2rad(np.asarray(cent, dtype="f8"))
        ids = sorted(int(p) for p in res["centers"])
        if ids != list(range(len(cent))):
            centres_ok = False
        for p, (ra, dec) in res["centers"].items():
            p = int(p)
            if p >= len(cent) or abs(float.fromhex(ra) - given[p][0]) > 1e-12 or abs(float.fromhex(dec) - given[p][1]) > 1e-12:
                centres_ok = False
    return kind, centres_ok


def opens_as_catalog(path):
    try:
        cat = impl.Catalog(path, max_workers=1)
        return True, "%d patches" % len(cat)
    except Exception as e:  # noqa: BLE001
        return False, type(e).__name__


def held_by_path(spec, untouched, opens):
    """what Catalog(path) holds after the call: (HClosed | HPre | HNew | HOther, description)"""
    if not opens:
        return "HClosed", "does not open"
    if untouched:
        return "HPre", "opens: the pre-existing catalog, untouched"
    try:
        cat = impl.Catalog(spec["cache"], max_workers=1)
        recs = {}
        for pid, patch in cat.items():
            data = patch.load_data()
            recs[int(pid)] = sorted(tuple(float(rec[nm]).hex() for nm in data.dtype.names) for rec in data)
    except Exception as e:  # noqa: BLE001
        return "HOther", "opens, but its data cannot be loaded (%s: %s)" % (type(e).__name__, str(e)[:120])
    allrows = sorted(r for v in recs.values() for r in v)
    how = "opens with %d patches %s / %d records" % (len(recs), sorted(recs), len(allrows))
    try:
        exp_rows, exp_part = expected_of(spec)
    except Exception as e:  # noqa: BLE001 - no complete input exists for this case
        return "HOther", how + " (no complete input to compare with: %s)" % type(e).__name__
    if allrows == exp_rows and (exp_part is None or recs == exp_part):
        return "HNew", how + ": exactly the complete input"
    exp_set, old_set = set(exp_rows), set()
    if spec["pre"] in drv.OLD_CATALOG_PRES + ("dir_remains",):
        old_set = set(drv.foreign_records(drv.old_npatch(spec)))
    n_new = sum(1 for r in allrows if r in exp_set)
    n_old = sum(1 for r in allrows if r in old_set)
    how += ": %d of the %d input records, %d of the %d records of the old catalog, %d others" % (
        n_new, len(exp_rows), n_old, len(old_set), len(allrows) - n_new - n_old)
    return "HOther", how


def signatures(spec, code, obs_kind, held="HClosed", held_how=""):
    """one structural signature per violated clause and failing call shape"""
    par = spec["workers"] > 1
    mode = "parallel" if par else "sequential"
    fault, _, early = scenario(spec)
    place = fault[0] if fault else None
    pos = ""
    if place in ("InReader", "InWorker"):
        ch, nch = fault[1], nchunks(spec)
        pos = "@first" if ch == 0 else "@last" if ch == nch - 1 else "@middle"
    nd = nondefault_opts(spec)
    osfx = "" if not nd else "/with:" + "+".join(nd)       # the call options are part of the failing call shape
    klabel = unequal_label(spec) if spec["fault"]["kind"] == "unequal" else spec["fault"]["kind"]
    fshape = "%s%s/%s%s" % (klabel, pos, spec["pre"], osfx)
    if spec["fault"]["kind"] != "none":
        shape = klabel + (pos if nd else "") + ("/" + spec["source"] if spec["source"] not in ("df", "frame") else "")
    elif spec["empty_centre"]:
        shape = "empty-centre"
    elif spec["patch"] == "none":
        shape = "no-patch-method"
    else:
        shape = "%s/%s" % (spec["pre"], "overwrite" if spec["overwrite"] else "no-overwrite")
    if spec["fault"]["kind"] == "gentable":
        shape = "random-table-nonfinite"
    shape += osfx
    sigs = []
    noncache = spec["overwrite"] and spec["pre"] in drv.NONCACHE_PRES
    noncache_sig = "c09-overwrite-deletes-non-catalog" + ("" if spec["pre"] == "dir_other" else ":" + spec["pre"])
    noncache_what = "an existing path that is not a catalog cache (%s: %s, no patch_ids.bin in a real directory)" % (
        spec["pre"], drv.path_term(spec))
    if code & 4:
        if par and place in ("InReader", "InWorker") and not early:
            sigs.append(("c09-parallel-main-exception-hang", "never returns (killed after the time bound)"))
        else:
            sigs.append(("c09-hang:%s:%s" % (mode, shape), "never returns (killed after the time bound)"))
    if code & 8:
        plain = spec["fault"]["kind"] == "none" and not spec["empty_centre"] and spec["patch"] != "none"
        if obs_kind == "RForeign" and par and plain and spec["pre"] in drv.CATALOG_PRES and not spec["overwrite"]:
            sigs.append(("c09-parallel-writer-error-lost-foreign-catalog", "returns the pre-existing catalog of other data"))
        elif spec["empty_centre"] and spec["fault"]["kind"] == "none" and spec["pre"] == "absent" and obs_kind == "RSame":
            sigs.append(("c09-empty-centre-no-error", "returns a catalog (centres shifted onto the wrong patches) instead of raising"))
        elif plain and noncache and obs_kind == "RSame":
            sigs.append((noncache_sig, "returns a catalog after deleting " + noncache_what))
        elif obs_kind == "RSame" or spec["fault"]["kind"] == "gentable":
            sigs.append(("c09-returned-instead-of-raise:%s:%s" % (shape, mode), "returns a catalog although the call has to raise"))
        else:
            sigs.append(("c09-returned-other-data:%s:%s" % (shape, mode), "returns a catalog that does not hold the input"))
    if code & 16:
        if noncache:
            sigs.append((noncache_sig, "deletes / modifies " + noncache_what))
        else:
            sigs.append(("c09-preexisting-modified:%s:%s" % (shape, mode), "modifies the pre-existing path it has to leave untouched"))
    over = spec["pre"] in drv.OLD_CATALOG_PRES and spec["overwrite"]
    if code & 32:
        if over and held in ("HOther", "HNew"):
            sigs.append(("c09-failed-overwrite-leaves-openable-catalog:%s:%s" % (fshape, mode),
                         "fails while overwriting a valid catalog and leaves a directory that is not the untouched old "
                         "catalog and still opens as a catalog (%s)" % held_how))
        elif not par and place in ("InReader", "InWorker") and not early:
            sigs.append(("c09-sequential-error-finalizes-partial-catalog",
                         "raises but leaves a directory that opens as a (partial) catalog"))
        else:
            sigs.append(("c09-failed-creation-openable:%s:%s" % (shape, mode),
                         "fails but leaves a directory that opens as a catalog"))
    if code & 512 and not code & 32:
        if obs_kind is not None:
            sigs.append(("c09-returned-but-path-holds-%s:%s:%s" % ({"HClosed": "nothing-openable", "HOther": "other-data"}.get(held, held),
                                                                   fshape if spec["fault"]["kind"] != "none" else shape, mode),
                         "returns a catalog, but Catalog(path) afterwards %s" % held_how))
        else:
            sigs.append(("c09-failed-creation-path-holds-%s:%s:%s" % (held, fshape if spec["fault"]["kind"] != "none" else shape, mode),
                         "fails and Catalog(path) afterwards %s" % held_how))
    if code & 2048:
        sigs.append(("c09-modifies-outside-cache-path:%s:%s" % (fshape if spec["fault"]["kind"] != "none" else shape, mode),
                     "modifies / deletes entries of the directory the cache path lies in that are not the cache path"))
    seen, uniq = set(), []
    for sig, what in sigs:
        if sig not in seen:
            seen.add(sig)
            uniq.append((sig, what))
    return uniq


def describe(spec):
    f = spec["fault"]
    parts = ["from_%s" % {"df": "dataframe", "frame": "dataframe(frame double)", "hdf5": "file(hdf5)", "parquet": "file(parquet, unequal row groups)",
                          "random": "random" + ("(generator fails)" if f["kind"] == "genfail" else "")}[spec["source"]],
             "n=%d chunksize=%d max_workers=%d" % (spec["n"], spec["cs"], spec["workers"]), "patch=%s" % spec["patch"]]
    if f["kind"] == "gentable":
        parts.append("generator tables: " + ", ".join("%s=%s" % ({"w": "weights", "z": "redshifts"}[c], [
            float(x) for x in v]) for c, v in sorted(drv.random_tables(spec).items())))
    elif f["kind"] == "unequal" and spec["source"] == "hdf5":
        parts.append("datasets of unequal length: %s" % ", ".join(
            "%s=%d" % (c, m) for c, m in zip(drv.file_columns(spec), drv.column_lengths(spec))))
    elif f["kind"] == "unequal":
        parts.append("column slices of unequal length in chunk %d/%d: %s (rows of %s per chunk: %s)" % (
            f["chunk"], nchunks(spec), ", ".join("%s %+d" % (c, d) for c, d in sorted(drv.unequal_deltas(spec).items())),
            "/".join(drv.file_columns(spec)), drv.chunk_slice_lengths(spec)))
    elif f["kind"] != "none":
        parts.append("fault=%s col=%s chunk=%d/%d" % (f["kind"], f["col"], f["chunk"], nchunks(spec)))
    if spec["empty_centre"]:
        parts.append("a centre without any object")
    if spec.get("kmeans_empty"):
        parts.append("the k-means step left a centre without any object (%s)" % spec.get("kmeans_note"))
    parts.append("target=%s%s overwrite=%s" % (spec["pre"], " (inside a directory of the user's own)" if spec.get("nest") else "",
                                              spec["overwrite"]))
    o = spec["opts"]
    parts.append("progress=%s degrees=%s chunksize keyword=%s%s" % (
        o["progress"], o["degrees"], {"same": spec["cs"], "none": "omitted", "over": spec["n"] + 3}[o["cs_pass"]],
        " patch_num=%d probe_size=%d" % (spec["ncent"], o["probe_size"]) if spec["patch"] == "num" else ""))
    return ", ".join(parts)


def run(ctx):
    try:
        _run(ctx)
    finally:
        # no stray interpreter of THIS run may survive (pattern restricted to this run's work directory, so that
        # neither a concurrent run on another source tree nor a shell that merely mentions the driver is hit)
        subprocess.run(["pkill", "-9", "-f", "c09_driver\\.py " + re.escape(ctx.workdir) + "/case_"],
                       stdout=subprocess.DEVNULL, stderr=subprocess.DEVNULL)


def _run(ctx):
    cases = specs(ctx)
    ctx.log("%d real runs (%d parallel) on %d concurrent interpreters" % (len(cases), sum(1 for s in cases if s["workers"] > 1), JOBS))
    # hang candidates first, so that their timeouts overlap with everything else
    order = sorted(range(len(cases)), key=lambda i: (cases[i]["workers"] == 1, i))
    results = [None] * len(cases)
    with ThreadPoolExecutor(max_workers=JOBS) as ex:
        futs = {i: ex.submit(run_one, ctx.workdir, i, cases[i]) for i in order}
        for i, f in futs.items():
            results[i] = f.result()
    ctx.log("runs done")
    terms, meta = [], []
    for idx, (spec, res) in enumerate(zip(cases, results)):
        key = tuple(sorted((k, json.dumps(v, sort_keys=True)) for k, v in spec.items() if k not in ("cache", "dseed", "nthreads", "twin_of", "kmeans_empty", "kmeans_note")))
        if res["class"] == "driver-error":
            ctx.count(key=key, nontrivial=False, kind="driver-error")
            ctx.obligation("driver:case_%03d" % idx, False, res.get("detail", ""))
            continue
        if spec["patch"] == "num" and res.get("kmeans_centres") is not None:
            ke, ke_how = kmeans_empty_centre(spec, res["kmeans_centres"])
            ctx.bump("patch_num k-means: " + ("near-tie between centres, case skipped" if ke is None else
                                              "left a centre without any object" if ke else "gave every centre an object"))
            if ke is None:       # cannot tell which scenario this run belongs to
                ctx.count(key=key, nontrivial=False, kind="skipped/patch_num near-tie")
                continue
            spec["kmeans_empty"] = ke
            spec["kmeans_note"] = ke_how
        cache_same = res["before"]["cache"] == res["after"]["cache"]
        around_same = res["before"]["around"] == res["after"]["around"]
        if spec["pre"] in ("noparent", "parentfile"):      # the path does not exist and cannot: what stays is its surroundings
            untouched, around = cache_same and around_same, True
        else:
            untouched, around = cache_same, around_same
        opens, opens_how = opens_as_catalog(spec["cache"])
        obs_kind = None
        if res["class"] == "returned":
            obs_kind, cok = classify_return(spec, res)
            ob = "(ORet %s %s)" % (obs_kind, fq.b(cok))
        elif res["class"] == "raised":
            ob = "ORaise"
        else:
            ob = "OHang"
        par = spec["workers"] > 1
        held, held_how = held_by_path(spec, untouched, opens)
        terms.append(case_term(spec, par, ob, untouched, opens, held, around))
        if spec["fault"]["kind"] == "unequal":
            sh = spec["fault"].get("shape")
            if sh:
                ctx.bump("unequal-columns:%s:%s-%s:%s" % (spec["source"], sh["col"], sh["dir"], sh["div"] if spec["source"] == "hdf5" else "one-chunk"))
                ctx.bump("unequal-size:%s:%s:by-%s:%s" % (spec["source"], sh["dir"], sh["by"], "par" if par else "seq"))
            ctx.bump("unequal-outcome:%s:%s" % (spec["source"], res["class"] + ("" if not res.get("exc_type") else ":" + res["exc_type"])))
        if spec["pre"] in PATH_BLOCK_STATES or spec.get("nest"):
            ctx.bump("path-state:%s%s:%s:%s:%s" % (spec["pre"], "+nested" if spec.get("nest") else "", "overwrite" if spec["overwrite"] else "keep",
                                                   "par" if par else "seq", "clean" if spec["fault"]["kind"] == "none" else "fault"))
        ctx.bump("path-afterwards:" + held)
        if spec["pre"] in drv.OLD_CATALOG_PRES and spec["fault"]["kind"] != "none":
            ctx.bump("fault-over-catalog:%s:%s:%s" % (spec["pre"], "overwrite" if spec["overwrite"] else "keep", "par" if par else "seq"))
        obs = dict(outcome=res["class"], returned=obs_kind, exception=res.get("exc_type"), message=res.get("exc_msg"),
                   untouched=untouched, surroundings_untouched=around, opens_afterwards=opens, opens_detail=opens_how, path_holds=held, path_holds_detail=held_how,
                   elapsed=round(res.get("elapsed", 0), 2),
                   before=res["before"] if not untouched else "(same as after)", after=res["after"])
        meta.append((idx, spec, obs, obs_kind))
        fault, pre, early = scenario(spec)
        nd = nondefault_opts(spec)
        nontrivial = par or fault is not None or early or spec["pre"] != "absent" or spec["empty_centre"] or bool(nd) or bool(spec.get("nest"))
        for lab in nd:
            ctx.bump("option:" + lab.split("/")[0])
        if nd and spec["fault"]["kind"] != "none":
            ctx.bump("fault-under-options:%s:%s" % ("+".join(x.split("/")[0] for x in nd), "par" if par else "seq"))
        ctx.count(key=key, nontrivial=nontrivial,
                  kind="%s/%s/%s" % ("par" if par else "seq", spec["fault"]["kind"] if spec["fault"]["kind"] != "none" else
                                     ("empty-centre" if spec["empty_centre"] else "no-method" if spec["patch"] == "none" else spec["pre"]),
                                     res["class"] + ("" if not res.get("exc_type") else ":" + res["exc_type"])
                                     + ("" if not nd else " [" + "+".join(x.split("/")[0] for x in nd) + "]")))
        ctx.bump("outcome:" + res["class"])
        if res.get("extensions"):
            ctx.bump("time-bound-extended", res["extensions"])
        if fault is not None and fault[0] in ("InReader", "InWorker"):
            ch, nch = fault[1], nchunks(spec)
            ctx.bump("position:" + ("first" if ch == 0 else "last" if ch == nch - 1 else "middle"))
        ctx.sample(dict(case=describe(spec), observed={k: v for k, v in obs.items() if k not in ("before", "after")}), limit=4)
    codes = ctx.shards("Cases_C09", HEADER, terms, shard=40)
    follows = {"cur": 0, "fix": 0, "both": 0, "neither": 0}
    # the same call with the default options (twin), for the evidence and for the description of a failure
    obs_of = {idx: obs for (idx, spec, obs, obs_kind) in meta}
    twin_of = {spec["twin_of"]: idx for (idx, spec, obs, obs_kind) in meta if "twin_of" in spec}

    def outcome_text(o):
        return "%s%s, Catalog(path) afterwards: %s" % (
            o["outcome"], " " + (o["exception"] or "") if o["outcome"] == "raised" else
            " (%s)" % o["returned"] if o["outcome"] == "returned" else "", o["path_holds"])

    for a, b in twin_of.items():
        if a in obs_of:
            oa, ob_ = obs_of[a], obs_of[b]
            same = (oa["outcome"], oa["returned"], oa["path_holds"]) == (ob_["outcome"], ob_["returned"], ob_["path_holds"])
            ctx.bump("options-vs-default-twin:" + ("same outcome class" if same else "DIFFERENT outcome class"))
            if same and oa["exception"] != ob_["exception"]:
                ctx.bump("options-vs-default-twin:same class, other exception type")
    for (idx, spec, obs, obs_kind), c in zip(meta, codes):
        if c is None:
            continue
        fc, ff = not (c & 64), not (c & 128)
        follows["both" if fc and ff else "cur" if fc else "fix" if ff else "neither"] += 1
        replay = dict(case=describe(spec), spec={k: v for k, v in spec.items() if k != "cache"},
                      model_scenario=("cols_scen %s" % cols_source_term(spec)) if spec["fault"]["kind"] == "unequal" else scen_term(spec),
                      observed=obs, code=c,
                      rerun="write spec (plus a 'cache' path) to a json file; PYTHONPATH=%s %s %s spec.json out.json" % (REPO_SRC, PY, DRIVER))
        tw = ""
        if idx in twin_of and twin_of[idx] in obs_of:
            t = obs_of[twin_of[idx]]
            replay["same_call_with_default_options"] = {k: v for k, v in t.items() if k not in ("before", "after")}
            tw = " [this call: %s; the same call with the default options: %s]" % (outcome_text(obs), outcome_text(t))
        if c & 2 or c & 512 or c & 2048:
            for sig, what in signatures(spec, c, obs_kind, obs["path_holds"], obs["path_holds_detail"]):
                ctx.fail(sig, "%s: %s%s" % (describe(spec), what, tw), replay, case=idx)
        if c & 1 or c & 256:
            ctx.disagree("Cases_C09", idx, dict(code=c, replay=replay))
        if c & 1024:
            ctx.obligation("observation-consistent:case_%03d" % idx, False, "opens=%s untouched=%s held=%s" % (
                obs["opens_afterwards"], obs["untouched"], obs["path_holds"]))
        if c & 4096:
            ctx.obligation("untouched-path-opens-as-its-listing-says:case_%03d" % idx, False, "pre=%s opens=%s untouched=%s" % (
                spec["pre"], obs["opens_afterwards"], obs["untouched"]))
    ctx.extra["working_tree_follows"] = follows
    ctx.log("model followed by the working tree: %s" % follows)
    for sub in os.listdir(ctx.workdir):
        if sub.startswith("case_"):
            shutil.rmtree(os.path.join(ctx.workdir, sub), ignore_errors=True)
