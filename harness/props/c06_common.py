"""Shared by harness/props/c06.py (reference run, no MPI) and harness/props/c06_driver.py
(the same calls under the fake MPI world).  `yaw` is imported lazily: in the driver it must be
imported only after the fake mpi4py world has been configured."""
import os
import random
import shutil

import numpy as np


def fhex(x):
    return float(x).hex()


def summarize(obj, depth=0):
    """canonical, JSON-able, exact (floats as hex) description of a result object"""
    if obj is None or isinstance(obj, (bool, str)):
        return obj
    if isinstance(obj, (int, np.integer)):
        return int(obj)
    if isinstance(obj, (float, np.floating)):
        return fhex(obj)
    if isinstance(obj, np.ndarray):
        if obj.dtype.kind == "f":
            data = [fhex(v) for v in obj.ravel().tolist()]
        elif obj.dtype.kind in "iub":
            data = [int(v) for v in obj.ravel().tolist()]
        else:
            data = [repr(v) for v in obj.ravel().tolist()]
        return {"shape": list(obj.shape), "dtype": str(obj.dtype), "data": data}
    if isinstance(obj, (list, tuple)):
        return [summarize(v, depth + 1) for v in obj]
    if isinstance(obj, dict):
        return {str(k): summarize(v, depth + 1) for k, v in sorted(obj.items(), key=lambda kv: str(kv[0]))}
    if depth > 8:
        return type(obj).__name__
    import enum
    if isinstance(obj, enum.Enum):
        return str(obj)
    slots = []
    for cls in type(obj).__mro__:
        for s in getattr(cls, "__slots__", ()):
            if s not in slots and not s.startswith("__"):
                slots.append(s)
    if slots:
        out = {"__class__": type(obj).__name__}
        for s in slots:
            if hasattr(obj, s):
                out[s] = summarize(getattr(obj, s), depth + 1)
        return out
    if hasattr(obj, "__dict__"):
        return {"__class__": type(obj).__name__, **{k: summarize(v, depth + 1) for k, v in sorted(vars(obj).items())}}
    return repr(obj)


def first_diff(a, b, path=""):
    """path of the first difference between two summaries (None if equal)"""
    if type(a) is not type(b):
        return "%s: type %s vs %s" % (path, type(a).__name__, type(b).__name__)
    if isinstance(a, dict):
        for k in sorted(set(a) | set(b)):
            if k not in a or k not in b:
                return "%s/%s: missing on one side" % (path, k)
            d = first_diff(a[k], b[k], path + "/" + k)
            if d:
                return d
        return None
    if isinstance(a, list):
        if len(a) != len(b):
            return "%s: length %d vs %d" % (path, len(a), len(b))
        for i, (x, y) in enumerate(zip(a, b)):
            d = first_diff(x, y, "%s[%d]" % (path, i))
            if d:
                return d
        return None
    return None if a == b else "%s: %r vs %r" % (path, a, b)


# ------------------------------------------------------------------------------------------
# data
# ------------------------------------------------------------------------------------------
def make_columns(spec, which):
    """deterministic catalog columns for spec and catalog name (`data`, `rand`, `unk`, `urand`)"""
    seed = {"data": 1, "rand": 2, "unk": 3, "urand": 4}[which]
    rng = random.Random(spec["dseed"] * 10 + seed)
    n = spec["n"] if which in ("data", "unk") else spec["n"] + spec["n"] // 2
    ncent = spec["ncent"]
    cent = centers(spec)
    ra, dec, pid = [], [], []
    mirror = {}
    for i in range(n):
        k = i % ncent if i < 2 * ncent else rng.randrange(ncent)
        if k in mirror:         # points come in mirrored pairs: the patch mean stays at the centre,
            dx, dy = mirror.pop(k)   # so catalogs built from different samples pass yaw's alignment check
            dx, dy = -dx, -dy
        else:
            dx, dy = rng.randrange(-48, 49) / 64.0, rng.randrange(-48, 49) / 64.0
            mirror[k] = (dx, dy)
        ra.append(cent[k][0] + dx)
        dec.append(cent[k][1] + dy)
        pid.append(k)
    order = list(range(n))
    rng.shuffle(order)
    cols = {"ra": np.asarray([ra[i] for i in order], dtype="f8"),
            "dec": np.asarray([dec[i] for i in order], dtype="f8"),
            "pid": np.asarray([pid[i] for i in order], dtype="i8")}
    if spec["weights"]:
        cols["w"] = np.asarray([rng.randrange(1, 17) / 8.0 for _ in range(n)], dtype="f8")
    cols["z"] = np.asarray([rng.randrange(13, 128) / 128.0 for _ in range(n)], dtype="f8")
    return cols


def centers(spec):
    return [(20.0 + 2.5 * k, -5.0 + 2.0 * (k % 2)) for k in range(spec["ncent"])]


def create_kwargs(spec):
    from yaw.coordinates import AngularCoordinates
    kw = dict(ra_name="ra", dec_name="dec", redshift_name="z", degrees=True)
    if spec["weights"]:
        kw["weight_name"] = "w"
    if spec["mode"] == "name":
        kw["patch_name"] = "pid"
    else:
        kw["patch_centers"] = AngularCoordinates(np.deg2rad(np.asarray(centers(spec), dtype="f8")))
    return kw


def make_df(cols):
    import pandas as pd
    return pd.DataFrame({k: np.asarray(v) for k, v in cols.items()})


def make_config(spec):
    from yaw import Configuration
    return Configuration.create(rmin=spec.get("rmin", 500.0), rmax=spec.get("rmax", 60000.0),
                                zmin=0.1, zmax=1.0, num_bins=spec.get("nbins", 3))


# ------------------------------------------------------------------------------------------
# observations
# ------------------------------------------------------------------------------------------
def row_keys(arr):
    names = arr.dtype.names
    return sorted("|".join(float(rec[nm]).hex() for nm in names) for rec in arr)


def catalog_summary(cat, with_center=True):
    out = {}
    for pid, patch in sorted(cat.items()):
        data = patch.load_data()
        meta = patch.meta
        m = {"num_records": int(meta.num_records), "sum_weights": fhex(meta.sum_weights)}
        if with_center:
            # centre = mean of the stored records and radius = max distance from it: both depend on the
            # (legitimately schedule-dependent) order of the records in data.bin in the last bits unless the
            # centre is given; they are compared only when the centres are given
            m["radius"] = summarize(np.asarray(meta.radius.data))
            m["center"] = summarize(np.asarray(meta.center.data))
        out[str(int(pid))] = {"fields": list(data.dtype.names), "rows": row_keys(data), "meta": m}
    return out


def trees_summary(cat):
    from yaw.catalog.trees import BinnedTrees
    out = {}
    for pid, patch in sorted(cat.items()):
        try:
            bt = BinnedTrees(patch)
        except FileNotFoundError:
            out[str(int(pid))] = "no trees"
            continue
        trees = bt.trees
        if not isinstance(trees, tuple):
            trees = (trees,)
        out[str(int(pid))] = {
            "binning": summarize(bt.binning),
            "trees": [[int(t.num_records), fhex(t.sum_weights)] for t in trees],
        }
    return out


def hist_summary(h):
    s = summarize(h)
    rows = np.asarray(h.samples)
    s["samples"] = sorted([fhex(v) for v in row] for row in rows.tolist())   # row order = arrival order (C05's F10a)
    return s


def remove_meta(cache):
    """force metadata / tree recomputation in a copied cache"""
    for root, dirs, files in os.walk(cache):
        for f in files:
            if f in ("meta.yml", "binning", "trees.pkl"):
                os.unlink(os.path.join(root, f))


def copy_cache(src, dst):
    shutil.rmtree(dst, ignore_errors=True)
    shutil.copytree(src, dst)
    remove_meta(dst)


CATS = ("data", "rand", "unk", "urand")


def stage_create(spec, cache, max_workers, which="data"):
    """Catalog.from_dataframe on every rank; returns the summary of what this rank got"""
    from yaw import Catalog
    cols = make_columns(spec, which)
    cat = Catalog.from_dataframe(cache, make_df(cols), chunksize=spec["cs"], max_workers=max_workers,
                                 overwrite=True, **create_kwargs(spec))
    return catalog_summary(cat, with_center=spec["mode"] != "name")


def stage_rest(spec, caches, outdir, max_workers, is_root, ops=None):
    """the remaining entry points on existing caches; returns {op: summary} for this rank"""
    import yaw
    from yaw import Catalog, CorrFunc, HistData
    ops = ops or ["load", "trees", "auto", "cross", "hist", "io"]
    res = {}
    cats = {k: Catalog(caches[k], max_workers=max_workers) for k in CATS if k in caches}
    if "load" in ops:
        res["load"] = {k: catalog_summary(c) for k, c in cats.items()}
    config = make_config(spec)
    if "trees" in ops:
        cats["data"].build_trees(config.binning.edges, closed=config.binning.closed, max_workers=max_workers)
        res["trees"] = trees_summary(cats["data"]) if is_root else None
    cfs = None
    if "auto" in ops:
        cfs = yaw.autocorrelate(config, cats["data"], cats["rand"], max_workers=max_workers)
        res["auto"] = summarize(cfs)
    if "cross" in ops:
        kw = {}
        if spec.get("cross_rand", "both") in ("both", "ref"):
            kw["ref_rand"] = cats["rand"]
        if spec.get("cross_rand", "both") in ("both", "unk"):
            kw["unk_rand"] = cats["urand"]
        ccs = yaw.crosscorrelate(config, cats["data"], cats["unk"], max_workers=max_workers, **kw)
        res["cross"] = summarize(ccs)
    if "hist" in ops:
        h = HistData.from_catalog(cats["data"], config, max_workers=max_workers)
        res["hist"] = hist_summary(h)
        if "io" in ops:
            h.to_files(os.path.join(outdir, "hist"))
            h2 = HistData.from_files(os.path.join(outdir, "hist"))
            res["io_hist"] = hist_summary(h2)
    if "io" in ops and cfs is not None:
        path = os.path.join(outdir, "cf.hdf")
        cfs[0].to_file(path)
        back = CorrFunc.from_file(path)
        res["io_cf"] = summarize(back)
        res["io_cf_equal"] = bool(back == cfs[0]) if is_root else None
    return res
