"""Shared by harness/props/c06.py (reference run, no MPI) and harness/props/c06_driver.py
(the same calls under the fake MPI world).  `yaw` is imported lazily: in the driver it must be
imported only after the fake mpi4py world has been configured."""
import os
import random
import shutil

import numpy as np

try:
    from props import c06_faults as cf
except ImportError:           # the driver process: the script directory is on sys.path
    import c06_faults as cf


def fhex(x):
    return float(x).hex()


def summarize(obj, depth=0):
    """canonical, JSON-able, exact (floats as hex) description of a result object"""
    if obj is None or isinstance(obj, (bool, str)):
        return obj
    if isinstance(obj, (int, np.integer)):
        return int(obj)
    if isinstance(obj, (float, np.floating)):
        return fhex(obj)
    if isinstance(obj, np.ndarray):
        if obj.dtype.kind == "f":
            data = [fhex(v) for v in obj.ravel().tolist()]
        elif obj.dtype.kind in "iub":
            data = [int(v) for v in obj.ravel().tolist()]
        else:
            data = [repr(v) for v in obj.ravel().tolist()]
        return {"shape": list(obj.shape), "dtype": str(obj.dtype), "data": data}
    if isinstance(obj, (list, tuple)):
        return [summarize(v, depth + 1) for v in obj]
    if isinstance(obj, dict):
        return {str(k): summarize(v, depth + 1) for k, v in sorted(obj.items(), key=lambda kv: str(kv[0]))}
    if depth > 8:
        return type(obj).__name__
    import enum
    if isinstance(obj, enum.Enum):
        return str(obj)
    slots = []
    for cls in type(obj).__mro__:
        for s in getattr(cls, "__slots__", ()):
            if s not in slots and not s.startswith("__"):
                slots.append(s)
    if slots:
        out = {"__class__": type(obj).__name__}
        for s in slots:
            if hasattr(obj, s):
                out[s] = summarize(getattr(obj, s), depth + 1)
        return out
    if hasattr(obj, "__dict__"):
        return {"__class__": type(obj).__name__, **{k: summarize(v, depth + 1) for k, v in sorted(vars(obj).items())}}
    return repr(obj)


def first_diff(a, b, path=""):
    """path of the first difference between two summaries (None if equal)"""
    if type(a) is not type(b):
        return "%s: type %s vs %s" % (path, type(a).__name__, type(b).__name__)
    if isinstance(a, dict):
        for k in sorted(set(a) | set(b)):
            if k not in a or k not in b:
                return "%s/%s: missing on one side" % (path, k)
            d = first_diff(a[k], b[k], path + "/" + k)
            if d:
                return d
        return None
    if isinstance(a, list):
        if len(a) != len(b):
            return "%s: length %d vs %d" % (path, len(a), len(b))
        for i, (x, y) in enumerate(zip(a, b)):
            d = first_diff(x, y, "%s[%d]" % (path, i))
            if d:
                return d
        return None
    return None if a == b else "%s: %r vs %r" % (path, a, b)


# ------------------------------------------------------------------------------------------
# data
# ------------------------------------------------------------------------------------------
def make_columns(spec, which):
    """deterministic catalog columns for spec and catalog name (`data`, `rand`, `unk`, `urand`)"""
    seed = {"data": 1, "rand": 2, "unk": 3, "urand": 4}[which]
    rng = random.Random(spec["dseed"] * 10 + seed)
    n = spec["n"] if which in ("data", "unk") else spec["n"] + spec["n"] // 2
    ncent = spec["ncent"]
    cent = centers(spec)
    ra, dec, pid = [], [], []
    mirror = {}
    for i in range(n):
        k = i % ncent if i < 2 * ncent else rng.randrange(ncent)
        if k in mirror:         # points come in mirrored pairs: the patch mean stays at the centre,
            dx, dy = mirror.pop(k)   # so catalogs built from different samples pass yaw's alignment check
            dx, dy = -dx, -dy
        else:
            dx, dy = rng.randrange(-48, 49) / 64.0, rng.randrange(-48, 49) / 64.0
            mirror[k] = (dx, dy)
        ra.append(cent[k][0] + dx)
        dec.append(cent[k][1] + dy)
        pid.append(k)
    order = list(range(n))
    rng.shuffle(order)
    cols = {"ra": np.asarray([ra[i] for i in order], dtype="f8"),
            "dec": np.asarray([dec[i] for i in order], dtype="f8"),
            "pid": np.asarray([pid[i] for i in order], dtype="i8")}
    if spec["weights"]:
        cols["w"] = np.asarray([rng.randrange(1, 17) / 8.0 for _ in range(n)], dtype="f8")
    cols["z"] = np.asarray([rng.randrange(13, 128) / 128.0 for _ in range(n)], dtype="f8")
    return cols


def centers(spec):
    return [(20.0 + 2.5 * k, -5.0 + 2.0 * (k % 2)) for k in range(spec["ncent"])]


def create_kwargs(spec):
    from yaw.coordinates import AngularCoordinates
    kw = dict(ra_name="ra", dec_name="dec", redshift_name="z", degrees=True)
    if spec["weights"]:
        kw["weight_name"] = "w"
    if spec["mode"] == "name":
        kw["patch_name"] = "pid"
    else:
        kw["patch_centers"] = AngularCoordinates(np.deg2rad(np.asarray(centers(spec), dtype="f8")))
    return kw


def make_df(cols):
    import pandas as pd
    return pd.DataFrame({k: np.asarray(v) for k, v in cols.items()})


def make_config(spec, max_workers=None):
    from yaw import Configuration
    return Configuration.create(rmin=spec.get("rmin", 500.0), rmax=spec.get("rmax", 60000.0),
                                zmin=0.1, zmax=1.0, num_bins=spec.get("nbins", 3), max_workers=max_workers)


# ------------------------------------------------------------------------------------------
# observations
# ------------------------------------------------------------------------------------------
def row_keys(arr):
    names = arr.dtype.names
    return sorted("|".join(float(rec[nm]).hex() for nm in names) for rec in arr)


def catalog_summary(cat, with_center=True):
    out = {}
    for pid, patch in sorted(cat.items()):
        data = patch.load_data()
        meta = patch.meta
        m = {"num_records": int(meta.num_records), "sum_weights": fhex(meta.sum_weights)}
        if with_center:
            # centre = mean of the stored records and radius = max distance from it: both depend on the
            # (legitimately schedule-dependent) order of the records in data.bin in the last bits unless the
            # centre is given; they are compared only when the centres are given
            m["radius"] = summarize(np.asarray(meta.radius.data))
            m["center"] = summarize(np.asarray(meta.center.data))
        out[str(int(pid))] = {"fields": list(data.dtype.names), "rows": row_keys(data), "meta": m}
    return out


def trees_summary(cat):
    from yaw.catalog.trees import BinnedTrees
    out = {}
    for pid, patch in sorted(cat.items()):
        try:
            bt = BinnedTrees(patch)
        except FileNotFoundError:
            out[str(int(pid))] = "no trees"
            continue
        trees = bt.trees
        if not isinstance(trees, tuple):
            trees = (trees,)
        out[str(int(pid))] = {
            "binning": summarize(bt.binning),
            "trees": [[int(t.num_records), fhex(t.sum_weights)] for t in trees],
        }
    return out


def hist_summary(h):
    s = summarize(h)
    rows = np.asarray(h.samples)
    s["samples"] = sorted([fhex(v) for v in row] for row in rows.tolist())   # row order = arrival order (C05's F10a)
    return s


def remove_meta(cache):
    """force metadata / tree recomputation in a copied cache"""
    for root, dirs, files in os.walk(cache):
        for f in files:
            if f in ("meta.yml", "binning", "trees.pkl"):
                os.unlink(os.path.join(root, f))


def copy_cache(src, dst):
    shutil.rmtree(dst, ignore_errors=True)
    shutil.copytree(src, dst)
    remove_meta(dst)


CATS = ("data", "rand", "unk", "urand")


# ------------------------------------------------------------------------------------------
# optional keyword arguments of the parallel entry points (all default to "not given").
# opts is a plain dict (JSON), the SAME dict is used for the single-process reference run (there
# every worker limit is 1, see single_process_opts):
#   progress    list of operations called with progress=True ("create", "trees", "auto", "cross", "hist")
#   cs          chunksize of the creation (overrides the data spec; None = the library default)
#   create_mode "num": patches are made by the library (patch_num=<number of centres>, probe_size=opts["probe"])
#               instead of given centres / a patch column; the patch centres then come from a k-means run that
#               is not seeded, so only the union of the stored records is compared
#   source      "parquet" | "hdf5": Catalog.from_file on a file holding the same columns (written by the harness before the
#               world starts, see prepare_create_input); "random": Catalog.from_random with a seeded BoxRandoms generator
#               over the region of the patch centres (no weights / redshifts, centres given); default: Catalog.from_dataframe
#   leafsize    Catalog.build_trees(leafsize=)
#   force       a SECOND Catalog.build_trees call with force=<this> after the first one
#   count_rr    yaw.autocorrelate(count_rr=)
#   mw_config   the worker limit reaches autocorrelate / crosscorrelate / HistData.from_catalog through
#               Configuration.max_workers instead of the max_workers argument
#   mw_ops      {operation: max_workers} overriding the world's worker limit for single operations
# ------------------------------------------------------------------------------------------
PROGRESS_OPS = ("create", "trees", "auto", "cross", "hist")
EMPTY_CENTRE = "patch centers and patch IDs with data do not match"


def single_process_opts(opts):
    """the options of the single-process reference run: identical, except that no operation gets its own worker limit"""
    o = dict(opts or {})
    o.pop("mw_ops", None)
    return o


def union_summary(cat):
    """what can be compared when the library chooses the patch centres itself: all stored records"""
    rows, fields, nrec, wsum = [], None, 0, []
    for pid, patch in sorted(cat.items()):
        data = patch.load_data()
        fields = list(data.dtype.names)
        rows.extend(row_keys(data))
        nrec += int(patch.meta.num_records)
        wsum.append(float(patch.meta.sum_weights))
    import math
    return {"union": {"fields": fields, "rows": sorted(rows), "num_records": nrec, "sum_weights": fhex(math.fsum(wsum))}}


FILE_EXT = {"parquet": ".pqt", "hdf5": ".hdf5"}


def create_input_path(cache, opts):
    return str(cache) + ".input" + FILE_EXT[opts["source"]]


def prepare_create_input(spec, cache, which, opts):
    """(harness, outside the world) the input file of a creation from a file: same columns as the data frame"""
    opts = opts or {}
    if opts.get("source") not in FILE_EXT:
        return
    cols = make_columns(spec, which)
    path = create_input_path(cache, opts)
    os.makedirs(os.path.dirname(path), exist_ok=True)
    if opts["source"] == "parquet":
        make_df(cols).to_parquet(path)
    else:
        import h5py
        with h5py.File(path, "w") as fh:
            for k, v in cols.items():
                fh.create_dataset(k, data=np.asarray(v))


def stage_create(spec, cache, max_workers, which="data", opts=None):
    """Catalog.from_dataframe (or from_file / from_random, opts["source"]) on every rank; returns the summary of what this rank got"""
    from yaw import Catalog
    from yaw.coordinates import AngularCoordinates
    opts = opts or {}
    src = opts.get("source", "dataframe")
    kw = create_kwargs(spec)
    cs = opts["cs"] if "cs" in opts else spec["cs"]
    if "create" in opts.get("progress", ()):
        kw["progress"] = True
    num = opts.get("create_mode") == "num"
    if num:
        kw.pop("patch_centers", None)
        kw.pop("patch_name", None)
        kw["patch_num"] = spec["ncent"]
        if opts.get("probe") is not None:
            kw["probe_size"] = opts["probe"]

    def call():
        if src == "random":
            from yaw.randoms import BoxRandoms
            rkw = {k: v for k, v in kw.items() if k in ("progress", "patch_num", "probe_size")}
            if not num:     # from_random has no patch_name: the centres of the spec are given
                rkw["patch_centers"] = AngularCoordinates(np.deg2rad(np.asarray(centers(spec), dtype="f8")))
            gen = BoxRandoms(19.0, 21.0 + 2.5 * (spec["ncent"] - 1), -6.0, -2.0, seed=spec["dseed"] + len(which))
            return Catalog.from_random(cache, gen, 2 * spec["n"], chunksize=cs, max_workers=max_workers, overwrite=True, **rkw)
        if src in FILE_EXT:
            return Catalog.from_file(cache, create_input_path(cache, opts), chunksize=cs, max_workers=max_workers, overwrite=True, **kw)
        return Catalog.from_dataframe(cache, make_df(make_columns(spec, which)), chunksize=cs, max_workers=max_workers,
                                      overwrite=True, **kw)

    if num:
        try:
            cat = call()
        except ValueError as err:
            if EMPTY_CENTRE in str(err):     # raised on every rank (replicated centres): the unseeded k-means left a centre without records
                return {"union": None}
            raise
        return union_summary(cat)
    return catalog_summary(call(), with_center=(spec["mode"] != "name" or src == "random"))


def stage_rest(spec, caches, outdir, max_workers, is_root, ops=None, opts=None, mark=None):
    """the remaining entry points on existing caches; returns {op: summary} for this rank.
    mark(op) is called before every operation (the harness records where a rank was when a world stopped)"""
    import yaw
    from yaw import Catalog, Configuration, CorrFunc, HistData
    ops = ops or ["load", "trees", "auto", "cross", "hist", "io"]
    opts = opts or {}
    mark = mark or (lambda op: None)
    prog = set(opts.get("progress", ()))

    def mw(op):
        return opts.get("mw_ops", {}).get(op, max_workers)

    def kw(op, via_config=True):
        k = {}
        if op in prog:
            k["progress"] = True
        if not (via_config and opts.get("mw_config")):
            k["max_workers"] = mw(op)
        return k

    def config_for(op):
        return make_config(spec, mw(op) if opts.get("mw_config") else None)

    res = {}
    mark("load")
    cats = {k: Catalog(caches[k], max_workers=mw("load")) for k in CATS if k in caches}
    if "load" in ops:
        res["load"] = {k: catalog_summary(c) for k, c in cats.items()}
    config = make_config(spec)
    if "trees" in ops:
        mark("trees")
        tkw = kw("trees", via_config=False)
        if opts.get("leafsize") is not None:
            tkw["leafsize"] = opts["leafsize"]
        cats["data"].build_trees(config.binning.edges, closed=config.binning.closed, **tkw)
        if opts.get("force") is not None:
            mark("trees-again")
            cats["data"].build_trees(config.binning.edges, closed=config.binning.closed, force=bool(opts["force"]), **tkw)
        res["trees"] = trees_summary(cats["data"]) if is_root else None
    cfs = None
    if "auto" in ops:
        mark("auto")
        akw = kw("auto")
        if opts.get("count_rr") is not None:
            akw["count_rr"] = bool(opts["count_rr"])
        cfs = yaw.autocorrelate(config_for("auto"), cats["data"], cats["rand"], **akw)
        res["auto"] = summarize(cfs)
    if "cross" in ops:
        mark("cross")
        ckw = kw("cross")
        if spec.get("cross_rand", "both") in ("both", "ref"):
            ckw["ref_rand"] = cats["rand"]
        if spec.get("cross_rand", "both") in ("both", "unk"):
            ckw["unk_rand"] = cats["urand"]
        ccs = yaw.crosscorrelate(config_for("cross"), cats["data"], cats["unk"], **ckw)
        res["cross"] = summarize(ccs)
    if "hist" in ops:
        mark("hist")
        h = HistData.from_catalog(cats["data"], config_for("hist"), **kw("hist"))
        res["hist"] = hist_summary(h)
        if "io" in ops:
            mark("io_hist")
            h.to_files(os.path.join(outdir, "hist"))
            h2 = HistData.from_files(os.path.join(outdir, "hist"))
            res["io_hist"] = hist_summary(h2)
    if "io" in ops and cfs is not None:
        mark("io_cf")
        path = os.path.join(outdir, "cf.hdf")
        cfs[0].to_file(path)
        back = CorrFunc.from_file(path)
        res["io_cf"] = summarize(back)
        res["io_cf_equal"] = bool(back == cfs[0]) if is_root else None
    mark("done")
    return res


# ------------------------------------------------------------------------------------------
# documented refusals (error paths): requests that a single-process run rejects by raising.
# Under MPI every rank must return from such a request (normally: by raising), the root with the
# single-process outcome, and a valid collective operation issued afterwards in the same world
# must still give the single-process result.
#   group A: decided by every rank on replicated arguments / replicated catalog metadata
#   group B: detected by one rank only (the root that reads the input, the writer rank that opens
#            the cache) while the other ranks are already waiting for it
#   group C: raised by the job function on a worker rank inside parallel.iter_unordered
#   group M: refused only under MPI (catalog creation needs two ranks); nothing to compare with
#   group T: (v) a VALID request whose jobs fail TRANSIENTLY: an entry point that maps its patches / patch pairs through
#            parallel.iter_unordered runs with a fault plan (c06_faults: which call of iter_unordered, which items, which
#            exception, on the first execution only / always / on given ranks only).  A job that raises ends the request
#            by raising, in the single-process run and under MPI alike; no job is executed twice.
# ------------------------------------------------------------------------------------------
REFUSALS = {
    # class: (group, entry point, creation pipeline involved (needs max_workers != 1 under MPI))
    "random-probe-exceeds-records": ("A", "Catalog.from_random(patch_num=, probe larger than num_randoms)", True),
    "create-empty-centre": ("A", "Catalog.from_dataframe(patch_centers with a centre that gets no record)", True),
    "create-no-patch-method": ("A", "Catalog.from_dataframe without patch_centers/patch_name/patch_num", True),
    "create-patch-num-range": ("A", "Catalog.from_dataframe(patch_num beyond the int16 patch id range)", True),
    "create-patch-centers-type": ("A", "Catalog.from_dataframe(patch_centers=<plain list>)", True),
    "create-file-extension": ("A", "Catalog.from_file(path with an unknown extension)", True),
    "load-cache-missing": ("A", "Catalog(cache directory that does not exist)", False),
    "cross-no-randoms": ("A", "yaw.crosscorrelate without ref_rand and unk_rand", False),
    "cross-patch-ids-differ": ("A", "yaw.crosscorrelate with catalogs of different patch ids", False),
    "auto-patch-ids-differ": ("A", "yaw.autocorrelate with catalogs of different patch ids", False),
    "auto-centres-misaligned": ("A", "yaw.autocorrelate with randoms whose patch centres are shifted", False),
    "cross-centres-misaligned": ("A", "yaw.crosscorrelate with ref_rand whose patch centres are shifted", False),
    "create-mpi-single-worker": ("M", "Catalog.from_dataframe(max_workers=1) on an MPI world", False),
    "create-cache-exists": ("B", "Catalog.from_dataframe(existing cache, overwrite=False)", True),
    "create-overwrite-non-cache": ("B", "Catalog.from_dataframe(existing non-cache directory, overwrite=True)", True),
    "create-nonfinite-value": ("B", "Catalog.from_dataframe(column with NaN/inf)", True),
    "create-missing-column": ("B", "Catalog.from_dataframe(column name that is not in the frame)", True),
    "create-patch-id-range": ("B", "Catalog.from_dataframe(patch_name column with an id outside [0, 32767])", True),
    "create-input-file-missing": ("B", "Catalog.from_file(input file that does not exist)", True),
    "load-no-patch-info": ("B", "Catalog(directory without patch_ids.bin)", False),
    "io-corrfunc-file-missing": ("B", "CorrFunc.from_file(missing file)", False),
    "io-hist-files-missing": ("B", "HistData.from_files(missing files)", False),
    "trees-no-redshifts": ("C", "Catalog.build_trees(binning) on a catalog without redshifts", False),
    "auto-no-redshifts": ("C", "yaw.autocorrelate with a data catalog without redshifts", False),
    "cross-no-redshifts": ("C", "yaw.crosscorrelate with a reference catalog without redshifts", False),
    "hist-no-redshifts": ("C", "HistData.from_catalog on a catalog without redshifts", False),
    "transient-job-error-load": ("T", "Catalog(cache) while Patch jobs fail as planned", False),
    "transient-job-error-trees": ("T", "Catalog.build_trees while jobs (Patch, BinnedTrees.build) fail as planned", False),
    "transient-job-error-auto": ("T", "yaw.autocorrelate while jobs (Patch, BinnedTrees.build, process_patch_pair) fail as planned", False),
    "transient-job-error-cross": ("T", "yaw.crosscorrelate while jobs (Patch, BinnedTrees.build, process_patch_pair) fail as planned", False),
    "transient-job-error-hist": ("T", "HistData.from_catalog while jobs (Patch, _redshift_histogram) fail as planned", False),
}
# the catalogs a group T request opens (each `Catalog(cache)` is one iter_unordered call) and an upper bound of the number of
# iter_unordered calls it makes (the plan names the call that fails; a number beyond the last call = nothing fails)
FAULT_CATS = {"load": ["data"], "trees": ["data"], "hist": ["data"], "auto": ["data", "rand"], "cross": ["data", "rand", "unk", "urand"]}
FAULT_MAX_EP = {"load": 0, "trees": 1, "hist": 1, "auto": 6, "cross": 11}
# refusal classes whose request has a `progress` keyword (all but Catalog(cache) and the file readers of results)
NO_PROGRESS_KW = ("load-cache-missing", "load-no-patch-info", "io-corrfunc-file-missing", "io-hist-files-missing",
                  "transient-job-error-load")
EXTRA_CATS = ("noz", "ids", "shift")
FAR_CENTRE = (200.0, 60.0)


def create_extra(spec, cache, max_workers, which):
    """further (valid) catalogs that the refusal scenarios combine with the regular ones:
    noz = the data sample without redshifts, ids = one patch more than the others,
    shift = a random sample displaced (points and centres) by more than half a patch radius"""
    from yaw import Catalog
    from yaw.coordinates import AngularCoordinates
    if which == "noz":
        cols = make_columns(spec, "data")
        del cols["z"]
        kw = create_kwargs(spec)
        kw.pop("redshift_name")
    elif which == "ids":
        spec2 = dict(spec, ncent=spec["ncent"] + 1)
        cols = make_columns(spec2, "unk")
        kw = create_kwargs(spec2)
    else:
        cols = make_columns(spec, "rand")
        cols["ra"] = cols["ra"] + 1.25     # the patch centre is recomputed from the records when the metadata is rebuilt
        kw = create_kwargs(dict(spec, mode="centers"))
        cent = [(c[0] + 1.25, c[1]) for c in centers(spec)]
        kw["patch_centers"] = AngularCoordinates(np.deg2rad(np.asarray(cent, dtype="f8")))
    Catalog.from_dataframe(cache, make_df(cols), chunksize=spec["cs"], max_workers=max_workers, overwrite=True, **kw)


def prepare_refusal_dir(d):
    """the part of a scenario's scratch directory that exists before the request (made by the
    harness, outside the world)"""
    shutil.rmtree(d, ignore_errors=True)
    os.makedirs(os.path.join(d, "plain"))
    with open(os.path.join(d, "plain", "keep.txt"), "w") as fh:
        fh.write("not a catalog cache\n")
    os.makedirs(os.path.join(d, "nocache"))
    os.makedirs(os.path.join(d, "out"))


def fault_request(op, spec, env, par, max_workers):
    """(group T) the entry point `op` on the regular catalogs with the fault plan par["plan"] armed on the calling rank for
    the duration of the request"""
    from yaw.utils import parallel
    cf.ensure_installed(parallel)
    rank = parallel.COMM.Get_rank()
    if not parallel.use_mpi():
        cf.FAULTS.reset()         # a single-process run (reference): execution counters start at zero for every request
    cf.FAULTS.arm(rank, par["plan"])
    try:
        caches = {k: env["caches"][k] for k in FAULT_CATS[op]}
        opts = {"progress": [op]} if par.get("progress") else {}
        return stage_rest(spec, caches, os.path.join(env["dir"], "out"), max_workers, rank == 0, ops=[op], opts=opts)
    finally:
        cf.FAULTS.disarm(rank)


def refusal_call(cls, spec, env, par, max_workers):
    """issue the request of refusal class `cls` (all ranks call this); env = dict(dir, caches, extra)"""
    if cls.startswith("transient-job-error-"):
        return fault_request(cls.rsplit("-", 1)[1], spec, env, par, max_workers)
    import yaw
    from yaw import Catalog, CorrFunc, HistData
    from yaw.coordinates import AngularCoordinates
    d = env["dir"]
    new = os.path.join(d, "new")
    mw = max_workers
    caches = dict(env["caches"], **env.get("extra", {}))
    # progress=True where the request has that keyword (par["progress"]): the refusal then travels through the progress bar
    pk = {"progress": True} if par.get("progress") else {}

    def cat(name):
        return Catalog(caches[name], max_workers=mw)

    def df_create(cols, kw, cache=new, overwrite=True, workers=mw):
        return Catalog.from_dataframe(cache, make_df(cols), chunksize=spec["cs"], max_workers=workers,
                                      overwrite=overwrite, **dict(kw, **pk))

    cent_kw = create_kwargs(dict(spec, mode="centers"))
    if cls == "random-probe-exceeds-records":
        from yaw.randoms import BoxRandoms
        gen = BoxRandoms(18.0, 32.0, -8.0, 0.0, seed=par["seed"])
        kw = {} if par.get("probe") is None else {"probe_size": par["probe"]}
        return Catalog.from_random(new, gen, par["n"], patch_num=par["patch_num"], chunksize=par.get("cs"),
                                   max_workers=mw, **dict(kw, **pk))
    if cls == "create-empty-centre":
        cent = list(centers(spec))
        cent.insert(par["pos"] % (len(cent) + 1), FAR_CENTRE)
        kw = dict(cent_kw, patch_centers=AngularCoordinates(np.deg2rad(np.asarray(cent, dtype="f8"))))
        return df_create(make_columns(spec, "data"), kw)
    if cls == "create-no-patch-method":
        kw = dict(cent_kw)
        kw.pop("patch_centers")
        return df_create(make_columns(spec, "data"), kw)
    if cls == "create-patch-num-range":
        kw = dict(cent_kw, patch_num=par["patch_num"])
        kw.pop("patch_centers")
        return df_create(make_columns(spec, "data"), kw)
    if cls == "create-patch-centers-type":
        return df_create(make_columns(spec, "data"), dict(cent_kw, patch_centers=[list(c) for c in centers(spec)]))
    if cls == "create-file-extension":
        return Catalog.from_file(new, os.path.join(d, "input." + par["ext"]), ra_name="ra", dec_name="dec",
                                 patch_num=3, max_workers=mw, **pk)
    if cls == "load-cache-missing":
        return Catalog(os.path.join(d, "absent"), max_workers=mw)
    if cls == "cross-no-randoms":
        return yaw.crosscorrelate(make_config(spec), cat("data"), cat("unk"), max_workers=mw, **pk)
    if cls == "cross-patch-ids-differ":
        args = dict(unknown="unk", ref_rand="rand", unk_rand="urand")
        args[par["which"]] = "ids"
        return yaw.crosscorrelate(make_config(spec), cat("data"), cat(args["unknown"]), ref_rand=cat(args["ref_rand"]),
                                  unk_rand=cat(args["unk_rand"]), max_workers=mw, **pk)
    if cls == "auto-patch-ids-differ":
        a, b = ("ids", "rand") if par["which"] == "data" else ("data", "ids")
        return yaw.autocorrelate(make_config(spec), cat(a), cat(b), max_workers=mw, **pk)
    if cls == "auto-centres-misaligned":
        return yaw.autocorrelate(make_config(spec), cat("data"), cat("shift"), max_workers=mw, **pk)
    if cls == "cross-centres-misaligned":
        return yaw.crosscorrelate(make_config(spec), cat("data"), cat("unk"), ref_rand=cat("shift"), max_workers=mw, **pk)
    if cls == "create-mpi-single-worker":
        return df_create(make_columns(spec, "data"), create_kwargs(spec), workers=1)
    # ---- group B ----
    if cls == "create-cache-exists":
        return df_create(make_columns(spec, "urand"), create_kwargs(spec), cache=caches["urand"], overwrite=False)
    if cls == "create-overwrite-non-cache":
        return df_create(make_columns(spec, "data"), create_kwargs(spec), cache=os.path.join(d, "plain"), overwrite=True)
    if cls == "create-nonfinite-value":
        cols = make_columns(spec, "data")
        col = par["col"] if par["col"] in cols else "ra"
        cols[col][par["idx"] % len(cols[col])] = {"nan": np.nan, "inf": np.inf, "-inf": -np.inf}[par["value"]]
        return df_create(cols, create_kwargs(spec))
    if cls == "create-missing-column":
        cols = make_columns(spec, "data")
        del cols[par["col"] if par["col"] in cols else "z"]
        return df_create(cols, create_kwargs(spec))
    if cls == "create-patch-id-range":
        spec2 = dict(spec, mode="name")
        cols = make_columns(spec2, "data")
        cols["pid"][par["idx"] % len(cols["pid"])] = par["value"]
        return df_create(cols, create_kwargs(spec2))
    if cls == "create-input-file-missing":
        return Catalog.from_file(new, os.path.join(d, "absent." + par["ext"]), ra_name="ra", dec_name="dec",
                                 patch_num=3, max_workers=mw, **pk)
    if cls == "load-no-patch-info":
        return Catalog(os.path.join(d, "nocache"), max_workers=mw)
    if cls == "io-corrfunc-file-missing":
        return CorrFunc.from_file(os.path.join(d, "absent.hdf"))
    if cls == "io-hist-files-missing":
        return HistData.from_files(os.path.join(d, "absent"))
    # ---- group C ----
    config = make_config(spec)
    if cls == "trees-no-redshifts":
        return cat("noz").build_trees(config.binning.edges, closed=config.binning.closed, max_workers=mw, **pk)
    if cls == "auto-no-redshifts":
        return yaw.autocorrelate(config, cat("noz"), cat("rand"), max_workers=mw, **pk)
    if cls == "cross-no-redshifts":
        return yaw.crosscorrelate(config, cat("noz"), cat("unk"), ref_rand=cat("rand"), max_workers=mw, **pk)
    if cls == "hist-no-redshifts":
        return HistData.from_catalog(cat("noz"), config, max_workers=mw, **pk)
    raise KeyError("unknown refusal class " + cls)


def refusal_outcome(cls, spec, env, par, max_workers):
    """['returned'] | ['raised', type name, message] of the request on the calling rank"""
    try:
        refusal_call(cls, spec, env, par, max_workers)
    except Exception as err:      # the simulator's WorldAbort is a BaseException and passes through
        return ["raised", type(err).__name__, str(err)[:160], cf.describe(err)[2]]
    return ["returned"]


FOLLOW_UPS = ("load", "hist", "trees", "create")


def stage_follow(follow, spec, env, max_workers, is_root, opts=None):
    """a valid collective operation on the regular data catalog; same summaries as stage_create/stage_rest"""
    if follow == "create":
        return {"create": stage_create(spec, os.path.join(env["dir"], "follow"), max_workers, "data", opts)}
    return stage_rest(spec, {"data": env["caches"]["data"]}, os.path.join(env["dir"], "out"), max_workers, is_root,
                      ops=[follow], opts=opts)


def stage_refusal(cls, spec, env, par, max_workers, rank, first, follow, opts=None):
    """the refused request, a barrier, then a valid operation - all on every rank of one world.
    `first` (shared between the rank threads) records how the request ended on each rank, also for
    ranks that never come back from what follows."""
    from yaw.utils import parallel
    first[rank] = refusal_outcome(cls, spec, env, par, max_workers)
    parallel.COMM.Barrier()
    return stage_follow(follow, spec, env, max_workers, rank == 0, opts)
